//! C17 correspondence: the real `LWWMembershipState` / `GossipMembershipManager`
//! (tensor_chain/src/gossip.rs) vs the Lean gossip model (drv_gossip).
//!
//! Streams
//!   exh.*        exhaustive small scope: every multiset of updates of the stated universe, every
//!                distinct permutation and every batching (composition) of its delivery, each on a
//!                fresh real replica; the resulting (health, ts, inc) per member must equal the
//!                one-batch delivery of the de-duplicated set (order / grouping / repetition oracle);
//!                one rotating (permutation, batching) per multiset is also sent to the model.
//!   lww.random   random histories over 3 real replicas: merges of random batches and of other
//!                replicas' real registers, local suspect/fail/refute/mark_healthy/update_local,
//!                compared op by op (return value + full view + lamport time) with the model;
//!                monotonicity oracles after every op.
//!   unsorted_batches[.directed]  scripts on 1-4 real replicas: batches in arbitrary internal order
//!                (head usually not the newest entry, newest entry ahead of the receiver's clock),
//!                local suspect/fail/refute/mark_healthy on members received through such a batch,
//!                re-deliveries of earlier batches (re-ordered, partial) and late updates with
//!                in-between timestamps; mirrored replicas get the same steps with only the order
//!                inside each batch changed.  Oracles on the real objects (struct `Lab`):
//!                lww/clock_behind_held_timestamp, <op>_key_decreased, lww/local_event_lost_to_redelivery,
//!                lww/redelivery_changed_view, view_not_join_of_seen, lww/replicas_diverge_same_inputs;
//!                failing scripts are shrunk (steps, replicas, batch entries) with `shrink_list`.
//!                The directed scripts (the seeded C17_2 shapes) run before every other stream.
//!   refute_vs_stale[.directed] / mgr.alive_vs_stale[.directed]  a refutation (`refute(m, n)` / a handled
//!                `Alive`) against news about incarnations of m below n, on 1-4 real replicas / managers:
//!                a common setup leaves the member in every health (merged, or written by a local event),
//!                then the SAME events (the refutation, stale suspicions, stale Degraded / Failed / Unknown
//!                states, older refutations, mark_healthy / add_peer, clock ops) reach every replica in a
//!                different order.  Oracles: <site>/announced_incarnation_dropped (also evaluated in every
//!                other stream that calls refute / delivers an Alive), <site>/degraded_or_failed_at_refuted_incarnation,
//!                refute/replicas_diverge_on_event_order, handle_gossip/managers_diverge_on_message_order,
//!                <site>/not_healthy_at_announced_incarnation_after_stale_news; scripts shrunk over replicas,
//!                events, setup, batch entries.  The directed scripts run before every random stream.
//!   In every history stream the model is asked only until the first disagreement; the real
//!   replicas / managers and all oracles on them keep running to the end of the history.
//!   lww.system   multi-node runs in which only member m announces incarnations for m
//!                (Alive -> refute), with the `failed/recorded inc <= announced` oracle and a final
//!                anti-entropy round after which all views must be identical.
//!   mgr.*        `GossipMembershipManager::handle_gossip` with Sync / Suspect / Alive messages.
//!   cluster[.directed]  2-4 real `GossipMembershipManager`s whose MemoryTransports are connected to
//!                capturing channels (struct `Clu`; the tokio runtime is driven after every call so the
//!                spawned sends run): add_peer, gossip_round (suspicion_timeout_ms 0 = every pending
//!                suspicion expires, or never), suspect_node, ping acks, delivery of any captured
//!                Sync / Suspect / Alive to any node in any order and repetition, full two-way exchanges.
//!                Every primitive step goes to the model (`ev_*`: the HashMap iteration order of the view and
//!                the order in which suspicions were failed are read off the real manager and passed on) and
//!                the message handed to the transport, the rejected counter, the clock and the view are
//!                compared.  Oracles on the real outputs alone (site tensor_chain.gossip.cluster): keys / clock
//!                never backwards, clock >= held timestamps, recorded / failed incarnation <= the largest
//!                incarnation in an Alive the member itself sent, announced incarnations strictly increasing,
//!                published states held by the sender, truncation drops only the oldest, every accepted Sync
//!                state dominated by the receiver's view afterwards, exchanged managers agree on third members.
use std::sync::Arc;

use nverif::*;
use serde_json::{json, Value};
use tensor_chain::gossip::{
    GossipConfig, GossipMembershipManager, GossipMessage, GossipNodeState, LWWMembershipState,
};
use tensor_chain::membership::NodeHealth;
use tensor_chain::network::MemoryTransport;
use tensor_chain::{HLCTimestamp, HybridLogicalClock};

/// at most 4 recorded violations per class (the report keeps 50 in total)
trait Capped {
    fn violation_capped(&mut self, class: &str, what: &str, input: Value);
}
impl Capped for Report {
    fn violation_capped(&mut self, class: &str, what: &str, input: Value) {
        let n = self.violations.iter().filter(|v| v["class"] == class).count();
        if n < 4 {
            self.violation(class, what, input);
        }
    }
}

const K: usize = 6; // members printed in a view (driver: nMembers)
const HS: [NodeHealth; 4] = [
    NodeHealth::Healthy,
    NodeHealth::Degraded,
    NodeHealth::Failed,
    NodeHealth::Unknown,
];
const HL: [char; 4] = ['H', 'D', 'F', 'U'];

fn hidx(h: NodeHealth) -> usize {
    match h {
        NodeHealth::Healthy => 0,
        NodeHealth::Degraded => 1,
        NodeHealth::Failed => 2,
        _ => 3,
    }
}

#[derive(Clone, Copy, PartialEq, Eq, PartialOrd, Ord, Hash, Debug)]
struct Upd {
    m: usize,
    h: usize,
    ts: u64,
    inc: u64,
}

impl Upd {
    fn txt(&self) -> String {
        format!("{}:{}:{}:{}", self.m, HL[self.h], self.ts, self.inc)
    }
    fn real(&self, names: &[String]) -> GossipNodeState {
        GossipNodeState::with_wall_time(names[self.m].clone(), HS[self.h], self.ts, self.inc, 0)
    }
}

fn batch_txt(b: &[Upd]) -> String {
    if b.is_empty() {
        "-".into()
    } else {
        b.iter().map(Upd::txt).collect::<Vec<_>>().join(";")
    }
}

type CView = [Option<(usize, u64, u64)>; K]; // (health idx, ts, inc)

fn cview(st: &LWWMembershipState, names: &[String]) -> CView {
    let mut v: CView = [None; K];
    for (m, name) in names.iter().enumerate().take(K) {
        if let Some(s) = st.get(name) {
            v[m] = Some((hidx(s.health), s.timestamp, s.incarnation));
        }
    }
    v
}

fn cview_of_list(states: &[GossipNodeState], names: &[String]) -> CView {
    let mut v: CView = [None; K];
    for s in states {
        if let Some(m) = names.iter().position(|n| *n == s.node_id) {
            if m < K {
                v[m] = Some((hidx(s.health), s.timestamp, s.incarnation));
            }
        }
    }
    v
}

fn view_txt(clock: u64, v: &CView) -> String {
    let mut s = format!("clk={clock}");
    for (m, r) in v.iter().enumerate() {
        match r {
            Some((h, ts, inc)) => s.push_str(&format!(" {m}={}:{ts}:{inc}", HL[*h])),
            None => s.push_str(&format!(" {m}=-")),
        }
    }
    s
}

fn regs_txt(v: &CView) -> String {
    let t = view_txt(0, v);
    t[t.find(' ').map_or(0, |i| i + 1)..].to_string()
}

fn changed_txt(ch: &[String], names: &[String]) -> String {
    if ch.is_empty() {
        return "-".into();
    }
    ch.iter()
        .map(|c| names.iter().position(|n| n == c).map_or("?".to_string(), |i| i.to_string()))
        .collect::<Vec<_>>()
        .join(",")
}

/// first member on which two views differ, and whether the two registers tie on (inc, ts)
fn diff_kind(a: &CView, b: &CView) -> Option<(usize, bool)> {
    for m in 0..K {
        if a[m] != b[m] {
            let tie = match (a[m], b[m]) {
                (Some((_, t1, i1)), Some((_, t2, i2))) => t1 == t2 && i1 == i2,
                _ => false,
            };
            return Some((m, tie));
        }
    }
    None
}

fn next_permutation(a: &mut [usize]) -> bool {
    let n = a.len();
    if n < 2 {
        return false;
    }
    let mut i = n - 1;
    while i > 0 && a[i - 1] >= a[i] {
        i -= 1;
    }
    if i == 0 {
        return false;
    }
    let mut j = n - 1;
    while a[j] <= a[i - 1] {
        j -= 1;
    }
    a.swap(i - 1, j);
    a[i..].reverse();
    true
}

/// cut positions of composition `mask` of n (bit i set = cut after element i)
fn batches_of(n: usize, mask: u32) -> Vec<(usize, usize)> {
    let mut out = vec![];
    let mut start = 0;
    for i in 0..n {
        if i + 1 == n || (mask >> i) & 1 == 1 {
            out.push((start, i + 1));
            start = i + 1;
        }
    }
    out
}

struct Exh<'a> {
    names: &'a [String],
    uni: Vec<Upd>,
    real: Vec<GossipNodeState>,
    stream: String,
    multisets: u64,
    sequences: u64,
    merges: u64,
    model_lines: u64,
    viol: u64,
}

impl<'a> Exh<'a> {
    fn new(names: &'a [String], members: usize, vals: &[u64], stream: &str) -> Self {
        let mut uni = vec![];
        for m in 0..members {
            for h in 0..4 {
                for &inc in vals {
                    for &ts in vals {
                        uni.push(Upd { m, h, ts, inc });
                    }
                }
            }
        }
        let real = uni.iter().map(|u| u.real(names)).collect();
        Exh {
            names,
            uni,
            real,
            stream: stream.to_string(),
            multisets: 0,
            sequences: 0,
            merges: 0,
            model_lines: 0,
            viol: 0,
        }
    }

    /// one multiset given as sorted universe indices
    fn multiset(&mut self, idx: &[usize], rep: &mut Report, model: &mut Model, model_every: u64) {
        let n = idx.len();
        self.multisets += 1;
        // reference: the de-duplicated set, one batch, on a fresh real replica
        let mut set: Vec<usize> = idx.to_vec();
        set.dedup();
        let set_states: Vec<GossipNodeState> = set.iter().map(|&i| self.real[i].clone()).collect();
        let mut refrep = LWWMembershipState::new();
        refrep.merge(&set_states);
        let refview = cview(&refrep, self.names);
        self.merges += 1;

        let conflict = idx.windows(2).any(|w| self.uni[w[0]].m == self.uni[w[1]].m && w[0] != w[1]);
        let key = idx.iter().map(|i| i.to_string()).collect::<Vec<_>>().join(",");
        rep.case(&self.stream, if conflict { Some(&key) } else { None });
        if idx.windows(2).any(|w| {
            let (a, b) = (self.uni[w[0]], self.uni[w[1]]);
            a.m == b.m && a.inc == b.inc && a.ts == b.ts && a.h != b.h
        }) {
            rep.hit("exh.multiset_with_exact_tie");
        }
        if set.len() < n {
            rep.hit("exh.multiset_with_repetition");
        }

        let want_model = self.multisets % model_every == 0;
        let nseq_model = self.multisets / model_every.max(1);
        let mut perm: Vec<usize> = idx.to_vec();
        let mut seq_no: u64 = 0;
        let mut model_done = false;
        let mut total_for_model: u64 = 0;
        // count sequences first only when the model needs a rotating pick
        if want_model {
            let mut p = idx.to_vec();
            let mut c = 0u64;
            loop {
                c += 1;
                if !next_permutation(&mut p) {
                    break;
                }
            }
            total_for_model = c * (1u64 << (n - 1));
        }
        let pick = if want_model { nseq_model % total_for_model.max(1) } else { u64::MAX };
        loop {
            let states: Vec<GossipNodeState> = perm.iter().map(|&i| self.real[i].clone()).collect();
            for mask in 0..(1u32 << (n - 1)) {
                let bs = batches_of(n, mask);
                let mut r = LWWMembershipState::new();
                let mut changed: Vec<Vec<String>> = Vec::new();
                for &(a, b) in &bs {
                    let ch = r.merge(&states[a..b]);
                    if seq_no == pick {
                        changed.push(ch);
                    }
                    self.merges += 1;
                }
                self.sequences += 1;
                let v = cview(&r, self.names);
                if v != refview {
                    self.viol += 1;
                    if self.viol > 4 {
                        seq_no += 1;
                        continue;
                    }
                    if let Some((m, tie)) = diff_kind(&v, &refview) {
                        let class = if tie {
                            "tensor_chain.gossip.merge/order_dependent_tie"
                        } else {
                            "tensor_chain.gossip.merge/order_dependent"
                        };
                        let batches: Vec<String> = bs
                            .iter()
                            .map(|&(a, b)| batch_txt(&perm[a..b].iter().map(|&i| self.uni[i]).collect::<Vec<_>>()))
                            .collect();
                        rep.violation_capped(
                            class,
                            "two real LWWMembershipState replicas that merged the same set of updates hold different registers",
                            json!({
                                "stream": self.stream,
                                "replica_A_delivery_batches": batches,
                                "replica_B_delivery_one_batch": batch_txt(&set.iter().map(|&i| self.uni[i]).collect::<Vec<_>>()),
                                "member": m,
                                "view_A": regs_txt(&v),
                                "view_B": regs_txt(&refview),
                            }),
                        );
                    }
                }
                if seq_no == pick && !model_done {
                    model_done = true;
                    let batches: Vec<String> = bs
                        .iter()
                        .map(|&(a, b)| batch_txt(&perm[a..b].iter().map(|&i| self.uni[i]).collect::<Vec<_>>()))
                        .collect();
                    let line = format!("conv {}", batches.join(" "));
                    let imp = format!(
                        "{} | {}",
                        changed.iter().map(|c| changed_txt(c, self.names)).collect::<Vec<_>>().join("/"),
                        view_txt(r.lamport_time(), &v)
                    );
                    let ans = model.ask(&line);
                    self.model_lines += 1;
                    rep.compare(&self.stream, || json!({"line": line}), &imp, &ans);
                    if rep.samples.len() < 4 && conflict && n >= 3 {
                        rep.sample(json!({"stream": self.stream, "line": line, "answer": imp}));
                    }
                }
                seq_no += 1;
            }
            if !next_permutation(&mut perm) {
                break;
            }
        }
    }

    fn all_of_size(&mut self, n: usize, rep: &mut Report, model: &mut Model, model_every: u64) {
        let u = self.uni.len();
        let mut idx = vec![0usize; n];
        loop {
            self.multiset(&idx, rep, model, model_every);
            // next non-decreasing index vector
            let mut i = n;
            while i > 0 && idx[i - 1] == u - 1 {
                i -= 1;
            }
            if i == 0 {
                break;
            }
            let v = idx[i - 1] + 1;
            for j in (i - 1)..n {
                idx[j] = v;
            }
        }
    }

    fn finish(&self, rep: &mut Report) {
        rep.hit_n(&format!("{}.multisets", self.stream), self.multisets);
        rep.hit_n(&format!("{}.delivery_sequences", self.stream), self.sequences);
        rep.hit_n(&format!("{}.real_merge_calls", self.stream), self.merges);
        rep.hit_n(&format!("{}.model_lines", self.stream), self.model_lines);
        rep.hit_n(&format!("{}.diverging_sequences", self.stream), self.viol);
    }
}

// ------------------------------------------------------------------ random histories

#[derive(Clone, Debug)]
enum Op {
    Merge(usize, Vec<Upd>),
    UpdateLocal(usize, usize, usize, u64),
    Suspect(usize, usize, u64),
    Fail(usize, usize),
    Refute(usize, usize, u64),
    MarkHealthy(usize, usize),
    /// the public `tick()`
    Tick(usize),
    /// the public `sync_time(t)`
    SyncTime(usize, u64),
}

impl Op {
    fn line(&self) -> String {
        match self {
            Op::Merge(r, b) => format!("merge {r} {}", batch_txt(b)),
            Op::UpdateLocal(r, m, h, i) => format!("update_local {r} {m} {} {i}", HL[*h]),
            Op::Suspect(r, m, i) => format!("suspect {r} {m} {i}"),
            Op::Fail(r, m) => format!("fail {r} {m}"),
            Op::Refute(r, m, i) => format!("refute {r} {m} {i}"),
            Op::MarkHealthy(r, m) => format!("mark_healthy {r} {m}"),
            Op::Tick(r) => format!("tick {r}"),
            Op::SyncTime(r, t) => format!("sync_time {r} {t}"),
        }
    }
    fn name(&self) -> &'static str {
        match self {
            Op::Merge(..) => "merge",
            Op::UpdateLocal(..) => "update_local",
            Op::Suspect(..) => "suspect",
            Op::Fail(..) => "fail",
            Op::Refute(..) => "refute",
            Op::MarkHealthy(..) => "mark_healthy",
            Op::Tick(..) => "tick",
            Op::SyncTime(..) => "sync_time",
        }
    }
    fn replica(&self) -> usize {
        match self {
            Op::Merge(r, _) | Op::UpdateLocal(r, ..) | Op::Suspect(r, ..) | Op::Fail(r, _) | Op::Refute(r, ..) | Op::MarkHealthy(r, _) | Op::Tick(r) | Op::SyncTime(r, _) => *r,
        }
    }
}

/// apply to the real replica; answer in the driver's format
fn apply_real(reps: &mut [LWWMembershipState], op: &Op, names: &[String]) -> String {
    let r = op.replica();
    let head = match op {
        Op::Merge(_, b) => {
            let states: Vec<GossipNodeState> = b.iter().map(|u| u.real(names)).collect();
            let ch = reps[r].merge(&states);
            changed_txt(&ch, names)
        }
        Op::UpdateLocal(_, m, h, i) => {
            let g = reps[r].update_local(names[*m].clone(), HS[*h], *i);
            format!("{}:{}:{}", HL[hidx(g.health)], g.timestamp, g.incarnation)
        }
        Op::Suspect(_, m, i) => reps[r].suspect(&names[*m], *i).to_string(),
        Op::Fail(_, m) => reps[r].fail(&names[*m]).to_string(),
        Op::Refute(_, m, i) => reps[r].refute(&names[*m], *i).to_string(),
        Op::MarkHealthy(_, m) => reps[r].mark_healthy(&names[*m]).to_string(),
        Op::Tick(_) => {
            reps[r].tick();
            "ok".to_string()
        }
        Op::SyncTime(_, t) => {
            reps[r].sync_time(*t);
            "ok".to_string()
        }
    };
    format!("{head} | {}", view_txt(reps[r].lamport_time(), &cview(&reps[r], names)))
}

/// `health_tie_rank` by `hidx`: Healthy < Unknown < Degraded < Failed
const RANK: [usize; 4] = [0, 2, 3, 1];

/// the register key `(incarnation, timestamp, health_tie_rank)` of a view entry
fn vkey(e: (usize, u64, u64)) -> (u64, u64, usize) {
    (e.2, e.1, RANK[e.0])
}

fn ukey(u: &Upd) -> (u64, u64, usize) {
    (u.inc, u.ts, RANK[u.h])
}

/// monotonicity / clock oracles on the implementation's own before/after views: (class, what)
fn mono_classes(site: &str, opname: &str, before: (&CView, u64), after: (&CView, u64)) -> Vec<(String, String)> {
    let mut out = vec![];
    if after.1 < before.1 {
        out.push((format!("{site}/{opname}_clock_decreased"), "lamport clock moved backwards".to_string()));
    }
    // the invariant that makes local events win: the clock dominates every held timestamp
    if let Some((m, ts)) = (0..K).filter_map(|m| after.0[m].map(|e| (m, e.1))).max_by_key(|x| x.1) {
        if after.1 < ts {
            let class = if site == "tensor_chain.gossip" {
                "tensor_chain.gossip.lww/clock_behind_held_timestamp".to_string()
            } else {
                format!("{site}/clock_behind_held_timestamp")
            };
            out.push((class, format!("after {opname}: lamport clock {} is behind the timestamp {ts} held for member {m}", after.1)));
        }
    }
    for m in 0..K {
        match (before.0[m], after.0[m]) {
            (Some((_, _, i0)), Some((_, _, i1))) if i1 < i0 => {
                out.push((format!("{site}/{opname}_incarnation_decreased"), format!("recorded incarnation of member {m} went from {i0} to {i1}")));
            }
            (Some(b), Some(a)) if vkey(a) < vkey(b) => {
                out.push((
                    format!("{site}/{opname}_key_decreased"),
                    format!(
                        "member {m}'s (incarnation, timestamp, severity) moved backwards: {}:{}:{} -> {}:{}:{}",
                        HL[b.0], b.1, b.2, HL[a.0], a.1, a.2
                    ),
                ));
            }
            (Some(_), None) => {
                out.push((format!("{site}/{opname}_member_forgotten"), format!("member {m} disappeared")));
            }
            _ => {}
        }
    }
    out
}

fn mono_oracles(rep: &mut Report, site: &str, opname: &str, before: (&CView, u64), after: (&CView, u64), hist: &dyn Fn() -> Value) {
    for (class, what) in mono_classes(site, opname, before, after) {
        rep.violation_capped(&class, &what, hist());
    }
}

/// `refute_records_announced` on the real replica: after `refute(m, inc)` has returned, a member that
/// was in the view before the call is recorded at an incarnation >= inc, whatever health it had
fn refute_classes(op: &Op, before: &CView, after: &CView) -> Vec<(String, String)> {
    let mut out = vec![];
    if let Op::Refute(_, m, inc) = op {
        if let Some(b) = before[*m] {
            let got = after[*m].map(|a| a.2);
            if got.map_or(true, |g| g < *inc) {
                out.push((
                    "tensor_chain.gossip.refute/announced_incarnation_dropped".to_string(),
                    format!(
                        "refute(member {m}, incarnation {inc}) returned and member {m}, held as {}:{}:{} before the call, is recorded at incarnation {} afterwards",
                        HL[b.0],
                        b.1,
                        b.2,
                        got.map_or("- (forgotten)".to_string(), |g| g.to_string())
                    ),
                ));
            }
        }
    }
    out
}

fn refute_oracle(rep: &mut Report, op: &Op, before: &CView, after: &CView, hist: &dyn Fn() -> Value) {
    for (class, what) in refute_classes(op, before, after) {
        rep.violation_capped(&class, &what, hist());
    }
}

fn gen_upd(r: &mut Rng, members: usize, maxv: u64) -> Upd {
    Upd {
        m: r.below(members as u64) as usize,
        h: r.below(4) as usize,
        ts: r.below(maxv + 1),
        inc: r.below(maxv + 1),
    }
}

fn current_inc(st: &LWWMembershipState, name: &String) -> Option<u64> {
    st.get(name).map(|s| s.incarnation)
}

fn all_real(st: &LWWMembershipState) -> Vec<GossipNodeState> {
    let mut v: Vec<GossipNodeState> = st.all_states().cloned().collect();
    v.sort_by(|a, b| a.node_id.cmp(&b.node_id));
    v
}

fn to_upds(v: &[GossipNodeState], names: &[String]) -> Vec<Upd> {
    v.iter()
        .filter_map(|s| {
            names.iter().position(|n| *n == s.node_id).map(|m| Upd { m, h: hidx(s.health), ts: s.timestamp, inc: s.incarnation })
        })
        .collect()
}

// ------------------------------------------------------------------ unsorted batches / re-delivery lab

/// a guarded local event on one member
#[derive(Clone, Debug)]
enum Ev {
    Suspect(usize, u64),
    Fail(usize),
    Refute(usize, u64),
    MarkHealthy(usize),
}

/// one step of an `unsorted_batches` script: the SAME input handed to every replica in `to`
#[derive(Clone, Debug)]
enum G {
    /// the multiset `base` merged as ONE batch at each replica `to[j]`, entries in the order `perms[j]`
    Merge { to: Vec<usize>, base: Vec<Upd>, perms: Vec<Vec<usize>> },
    Local { to: Vec<usize>, ev: Ev },
}

impl G {
    fn ops(&self) -> Vec<Op> {
        match self {
            G::Merge { to, base, perms } => to.iter().zip(perms).map(|(&r, p)| Op::Merge(r, p.iter().map(|&i| base[i]).collect())).collect(),
            G::Local { to, ev } => to
                .iter()
                .map(|&r| match ev {
                    Ev::Suspect(m, i) => Op::Suspect(r, *m, *i),
                    Ev::Fail(m) => Op::Fail(r, *m),
                    Ev::Refute(m, i) => Op::Refute(r, *m, *i),
                    Ev::MarkHealthy(m) => Op::MarkHealthy(r, *m),
                })
                .collect(),
        }
    }
    /// the step without replica `r` (None when nobody is left)
    fn without(&self, r: usize) -> Option<G> {
        match self {
            G::Merge { to, base, perms } => {
                let keep: Vec<usize> = (0..to.len()).filter(|&j| to[j] != r).collect();
                if keep.is_empty() {
                    return None;
                }
                Some(G::Merge { to: keep.iter().map(|&j| to[j]).collect(), base: base.clone(), perms: keep.iter().map(|&j| perms[j].clone()).collect() })
            }
            G::Local { to, ev } => {
                let t: Vec<usize> = to.iter().copied().filter(|&x| x != r).collect();
                if t.is_empty() {
                    None
                } else {
                    Some(G::Local { to: t, ev: ev.clone() })
                }
            }
        }
    }
    /// keep only the entries `keep` (indices into `base`) of a merge step
    fn restrict(&self, keep: &[usize]) -> G {
        match self {
            G::Merge { to, base, perms } => G::Merge {
                to: to.clone(),
                base: keep.iter().map(|&i| base[i]).collect(),
                perms: perms.iter().map(|p| p.iter().filter_map(|i| keep.iter().position(|k| k == i)).collect()).collect(),
            },
            g => g.clone(),
        }
    }
}

/// Real replicas + the property oracles evaluated on them alone (no model involved):
///   * lww/clock_behind_held_timestamp, *_key_decreased, … (`mono_classes`) after every op;
///   * lww/local_event_lost_to_redelivery / lww/redelivery_changed_view: a merge whose entries for
///     member m are all dominated (key order) by something the replica already merged or generated
///     must leave m's register alone;
///   * view_not_join_of_seen: after every op the register of m is the greatest key among everything
///     the replica merged or generated for m (maximum computed here, from the inputs);
///   * lww/replicas_diverge_same_inputs: replicas that were handed the same steps — every merge the
///     same multiset in the same grouping, only the order INSIDE the batches differs — and the same
///     local events hold identical registers.
struct Lab<'a> {
    names: &'a [String],
    reps: Vec<LWWMembershipState>,
    seen_max: Vec<[Option<(u64, u64, usize)>; K]>,
    /// register written by the last successful local event on (replica, member), while it is the view
    local_set: Vec<[Option<(usize, u64, u64)>; K]>,
    sig: Vec<Vec<String>>,
    sig_h: Vec<u64>,
    nops: usize,
    local_true: usize,
    viol: Vec<(String, String)>,
}

impl<'a> Lab<'a> {
    fn new(n: usize, names: &'a [String]) -> Self {
        Lab {
            names,
            reps: (0..n).map(|_| LWWMembershipState::new()).collect(),
            seen_max: vec![[None; K]; n],
            local_set: vec![[None; K]; n],
            sig: vec![Vec::new(); n],
            sig_h: vec![0; n],
            nops: 0,
            local_true: 0,
            viol: vec![],
        }
    }

    fn flag(&mut self, class: &str, what: String) {
        if !self.viol.iter().any(|(c, _)| c == class) {
            self.viol.push((class.to_string(), what));
        }
    }

    fn step(&mut self, op: &Op) -> String {
        let r = op.replica();
        let before = (cview(&self.reps[r], self.names), self.reps[r].lamport_time());
        let imp = apply_real(&mut self.reps, op, self.names);
        let after = (cview(&self.reps[r], self.names), self.reps[r].lamport_time());
        self.nops += 1;
        let at = format!("(step {}: `{}`)", self.nops, op.line());
        for (c, w) in mono_classes("tensor_chain.gossip", op.name(), (&before.0, before.1), (&after.0, after.1)) {
            self.flag(&c, format!("{w} {at}"));
        }
        for (c, w) in refute_classes(op, &before.0, &after.0) {
            self.flag(&c, format!("{w} {at}"));
        }
        if let Op::Merge(_, b) = op {
            for m in 0..K {
                if !b.iter().any(|u| u.m == m) {
                    continue;
                }
                if after.0[m] == before.0[m] {
                    continue;
                }
                if let Some(mx) = self.seen_max[r][m] {
                    if b.iter().filter(|u| u.m == m).all(|u| ukey(u) <= mx) {
                        let txt = |e: Option<(usize, u64, u64)>| e.map_or("-".to_string(), |e| format!("{}:{}:{}", HL[e.0], e.1, e.2));
                        if self.local_set[r][m].is_some() && self.local_set[r][m] == before.0[m] {
                            self.flag(
                                "tensor_chain.gossip.lww/local_event_lost_to_redelivery",
                                format!("replica {r}: the register {} a local event wrote for member {m} was replaced by {} when a batch of already-seen / older updates was merged {at}", txt(before.0[m]), txt(after.0[m])),
                            );
                        } else {
                            self.flag(
                                "tensor_chain.gossip.lww/redelivery_changed_view",
                                format!("replica {r}: member {m} went {} -> {} when a batch of already-seen / older updates was merged {at}", txt(before.0[m]), txt(after.0[m])),
                            );
                        }
                    }
                }
                self.local_set[r][m] = None;
            }
        }
        let em = emitted_real(op, &imp, &after.0);
        if !matches!(op, Op::Merge(..)) {
            if let Some(u) = em.first() {
                self.local_set[r][u.m] = after.0[u.m];
                self.local_true += 1;
            }
        }
        for u in &em {
            if u.m < K && self.seen_max[r][u.m].map_or(true, |mx| ukey(u) > mx) {
                self.seen_max[r][u.m] = Some(ukey(u));
            }
        }
        for m in 0..K {
            let have = after.0[m].map(vkey);
            let want = self.seen_max[r][m];
            if have != want {
                let tie = matches!((have, want), (Some(a), Some(b)) if a.0 == b.0 && a.1 == b.1);
                let class = if tie { "tensor_chain.gossip/view_not_join_of_seen_tie" } else { "tensor_chain.gossip/view_not_join_of_seen" };
                self.flag(class, format!("replica {r}: register (inc, ts, rank) {have:?} of member {m} is not the greatest {want:?} of the updates it merged or generated {at}"));
            }
        }
        let canon = match op {
            Op::Merge(_, b) => {
                let mut c = b.clone();
                c.sort();
                format!("merge {}", batch_txt(&c))
            }
            o => {
                let l = o.line();
                let mut w: Vec<&str> = l.split(' ').collect();
                w.remove(1); // the replica index
                w.join(" ")
            }
        };
        self.sig_h[r] = fnv(&format!("{}|{canon}", self.sig_h[r]));
        self.sig[r].push(canon);
        imp
    }

    /// after every replica of a step has applied it
    fn after_group(&mut self) {
        let n = self.reps.len();
        for i in 0..n {
            for j in (i + 1)..n {
                if self.sig_h[i] != self.sig_h[j] || self.sig[i] != self.sig[j] || self.sig[i].is_empty() {
                    continue;
                }
                let (vi, vj) = (cview(&self.reps[i], self.names), cview(&self.reps[j], self.names));
                if let Some((m, _)) = diff_kind(&vi, &vj) {
                    self.flag(
                        "tensor_chain.gossip.lww/replicas_diverge_same_inputs",
                        format!(
                            "replicas {i} and {j} merged the same batches (only the order inside the batches differs) and ran the same local events, but differ on member {m} after step {}: {} vs {}",
                            self.nops,
                            regs_txt(&vi),
                            regs_txt(&vj)
                        ),
                    );
                }
            }
        }
    }
}

fn run_groups<'a>(gs: &[G], n: usize, names: &'a [String]) -> Lab<'a> {
    let mut lab = Lab::new(n, names);
    for g in gs {
        for op in g.ops() {
            lab.step(&op);
        }
        lab.after_group();
    }
    lab
}

fn script_fails(gs: &[G], n: usize, names: &[String], class: &str) -> bool {
    run_groups(gs, n, names).viol.iter().any(|(c, _)| c == class)
}

/// shrink a failing script (whole steps, then the entries inside each batch) and report it
fn report_shrunk(rep: &mut Report, stream: &str, case: &str, class: &str, gs: &[G], n: usize, names: &[String]) {
    if rep.violations.iter().filter(|v| v["class"] == class).count() >= 4 {
        return;
    }
    let mut cur = shrink_list(gs, &mut |cand: &[G]| script_fails(cand, n, names, class));
    for rr in (0..n).rev() {
        let cand: Vec<G> = cur.iter().filter_map(|g| g.without(rr)).collect();
        if !cand.is_empty() && script_fails(&cand, n, names, class) {
            cur = cand;
        }
    }
    cur = shrink_list(&cur, &mut |cand: &[G]| script_fails(cand, n, names, class));
    for gi in 0..cur.len() {
        let g0 = cur[gi].clone();
        if let G::Merge { base, .. } = &g0 {
            if base.len() > 1 {
                let idx: Vec<usize> = (0..base.len()).collect();
                let kept = shrink_list(&idx, &mut |keep: &[usize]| {
                    let mut c = cur.clone();
                    c[gi] = g0.restrict(keep);
                    script_fails(&c, n, names, class)
                });
                cur[gi] = g0.restrict(&kept);
            }
        }
    }
    let lab = run_groups(&cur, n, names);
    let what = lab.viol.iter().find(|(c, _)| c == class).map(|(_, w)| w.clone()).unwrap_or_default();
    let history: Vec<String> = cur.iter().flat_map(|g| g.ops()).map(|o| o.line()).collect();
    let views: Vec<String> = lab.reps.iter().map(|r| view_txt(r.lamport_time(), &cview(r, names))).collect();
    rep.violation_capped(
        class,
        &what,
        json!({"stream": stream, "case": case, "replicas": n, "history": history, "final_views": views,
               "steps_before_shrinking": gs.iter().map(|g| g.ops().len()).sum::<usize>()}),
    );
}

/// run a script on real replicas and on the model (asked until the first disagreement), then
/// report every oracle class it raised with a shrunk script
fn run_script(rep: &mut Report, m: &mut Model, stream: &str, case: &str, gs: &[G], n: usize, names: &[String]) {
    m.ask("reset");
    let mut lab = Lab::new(n, names);
    let mut hist: Vec<String> = vec![];
    let mut live = true;
    for g in gs {
        for op in g.ops() {
            let line = op.line();
            hist.push(line.clone());
            let imp = lab.step(&op);
            if live {
                let ans = m.ask(&line);
                live = rep.compare(stream, || json!({"case": case, "history": hist}), &imp, &ans);
            }
        }
        lab.after_group();
    }
    let viol = lab.viol.clone();
    for (class, _) in &viol {
        report_shrunk(rep, stream, case, class, gs, n, names);
    }
    rep.case(stream, Some(&format!("{case}|{}", hist.join("/"))));
}

fn up(m: usize, h: char, ts: u64, inc: u64) -> Upd {
    Upd { m, h: HL.iter().position(|c| *c == h).unwrap(), ts, inc }
}

fn merge_g(to: &[usize], base: &[Upd], perms: &[&[usize]]) -> G {
    G::Merge { to: to.to_vec(), base: base.to_vec(), perms: perms.iter().map(|p| p.to_vec()).collect() }
}

/// directed scripts, run before every other stream: batches whose head is not their newest entry,
/// a local event on a member received through such a batch, re-delivery / late in-between updates
fn directed_unsorted(rep: &mut Report, m: &mut Model, names: &[String]) {
    let stream = "unsorted_batches.directed";
    let mut cases: Vec<(&str, usize, Vec<G>)> = vec![];
    // two replicas, same updates, only the order inside the first batch differs, same local fail,
    // same late update older than what both hold
    cases.push((
        "two_replicas_batch_order_then_fail_then_late_update",
        2,
        vec![
            merge_g(&[0, 1], &[up(1, 'H', 9, 1), up(2, 'H', 3, 1)], &[&[0, 1], &[1, 0]]),
            G::Local { to: vec![0, 1], ev: Ev::Fail(1) },
            merge_g(&[0, 1], &[up(1, 'H', 7, 1)], &[&[0], &[0]]),
        ],
    ));
    // a re-delivered batch after a local fail must be a no-op
    cases.push((
        "redelivered_batch_after_local_fail",
        1,
        vec![
            merge_g(&[0], &[up(2, 'H', 3, 1), up(1, 'H', 9, 1)], &[&[0, 1]]),
            G::Local { to: vec![0], ev: Ev::Fail(1) },
            merge_g(&[0], &[up(2, 'H', 3, 1), up(1, 'H', 9, 1)], &[&[0, 1]]),
        ],
    ));
    // the clock must dominate every held timestamp; a local suspect must not be stamped older
    cases.push((
        "clock_below_held_timestamp_then_suspect",
        1,
        vec![
            merge_g(&[0], &[up(2, 'H', 3, 1), up(3, 'H', 5, 2), up(1, 'H', 9, 1)], &[&[0, 1, 2]]),
            G::Local { to: vec![0], ev: Ev::Suspect(1, 1) },
        ],
    ));
    // every local event kind x re-delivery in both orders x a late in-between update
    for (name, first, ev) in [
        ("suspect_then_redelivery", 'H', Ev::Suspect(1, 1)),
        ("fail_then_redelivery", 'D', Ev::Fail(1)),
        ("mark_healthy_then_redelivery", 'F', Ev::MarkHealthy(1)),
        ("refute_then_redelivery", 'D', Ev::Refute(1, 2)),
    ] {
        let base = [up(0, 'H', 2, 0), up(1, first, 12, 1), up(2, 'U', 6, 0)];
        cases.push((
            name,
            3,
            vec![
                merge_g(&[0, 1, 2], &base, &[&[1, 0, 2], &[0, 1, 2], &[2, 0, 1]]),
                G::Local { to: vec![0, 1, 2], ev },
                merge_g(&[0, 1, 2], &base, &[&[2, 1, 0], &[0, 2, 1], &[1, 2, 0]]),
                merge_g(&[0, 1, 2], &[up(1, first, 8, 1), up(1, 'H', 5, 1)], &[&[0, 1], &[1, 0], &[0, 1]]),
            ],
        ));
    }
    // four replicas, the four rotations of one relayed batch (two newest-first batches concatenated)
    {
        let base = [up(1, 'F', 5, 1), up(2, 'H', 2, 0), up(3, 'D', 9, 1), up(0, 'H', 4, 0)];
        cases.push((
            "four_replicas_rotations_of_a_concatenated_batch",
            4,
            vec![
                merge_g(&[0, 1, 2, 3], &base, &[&[0, 1, 2, 3], &[1, 2, 3, 0], &[2, 3, 0, 1], &[3, 0, 1, 2]]),
                G::Local { to: vec![0, 1, 2, 3], ev: Ev::MarkHealthy(3) },
                G::Local { to: vec![0, 1, 2, 3], ev: Ev::Suspect(2, 0) },
                merge_g(&[0, 1, 2, 3], &[up(3, 'D', 7, 1), up(2, 'H', 1, 0)], &[&[0, 1], &[1, 0], &[0, 1], &[1, 0]]),
                merge_g(&[0, 1, 2, 3], &base, &[&[3, 2, 1, 0], &[0, 1, 2, 3], &[1, 0, 3, 2], &[2, 3, 0, 1]]),
            ],
        ));
    }
    // the stale entry arrives on ONE replica only after the other has been told the same through gossip
    cases.push((
        "local_fail_gossiped_then_old_batch_redelivered",
        2,
        vec![
            merge_g(&[0], &[up(2, 'H', 1, 0), up(1, 'H', 6, 0)], &[&[0, 1]]),
            merge_g(&[1], &[up(2, 'H', 1, 0), up(1, 'H', 6, 0)], &[&[1, 0]]),
            G::Local { to: vec![0], ev: Ev::Fail(1) },
            G::Local { to: vec![1], ev: Ev::Suspect(1, 0) },
            merge_g(&[0, 1], &[up(1, 'H', 6, 0), up(2, 'H', 1, 0)], &[&[1, 0], &[1, 0]]),
        ],
    ));
    for (name, n, gs) in cases {
        run_script(rep, m, stream, name, &gs, n, names);
        rep.hit("unsorted.directed_scripts");
    }
}

/// the seeded stream: batches in random internal order (head usually NOT the newest entry, and
/// often ahead of the receiver's clock), local events on members received via merge, re-deliveries
/// of earlier batches (re-ordered, partial) and late updates with in-between timestamps, 2-4 replicas
fn unsorted_stream(rep: &mut Report, m: &mut Model, names: &[String], root: &Rng, cases: u64) {
    let stream = "unsorted_batches";
    let mut r = root.fork("unsorted_batches");
    for case in 0..cases {
        let n = 2 + r.below(3) as usize;
        let members = 2 + r.below(3) as usize;
        let all: Vec<usize> = (0..n).collect();
        let all_mirror = r.chance(1, 2);
        let ngroups = 5 + r.below(16) as usize;
        m.ask("reset");
        let mut lab = Lab::new(n, names);
        let mut gs: Vec<G> = vec![];
        let mut hist: Vec<String> = vec![];
        let mut live = true;
        for gno in 0..ngroups {
            let to: Vec<usize> = if all_mirror || r.chance(1, 2) { all.clone() } else { vec![r.below(n as u64) as usize] };
            let r0 = to[0];
            let view0 = cview(&lab.reps[r0], names);
            let clock0 = lab.reps[r0].lamport_time();
            let present: Vec<usize> = (0..members).filter(|&mm| view0[mm].is_some()).collect();
            let earlier: Vec<usize> = gs.iter().enumerate().filter(|(_, g)| matches!(g, G::Merge { .. })).map(|(i, _)| i).collect();
            let shuffled = |r: &mut Rng, base: &[Upd], force: bool| -> Vec<usize> {
                let mut p: Vec<usize> = (0..base.len()).collect();
                r.shuffle(&mut p);
                if force && !p.is_empty() {
                    let mx = base.iter().map(|u| u.ts).max().unwrap_or(0);
                    if base[p[0]].ts == mx {
                        let cand: Vec<usize> = (1..p.len()).filter(|&k| base[p[k]].ts < mx).collect();
                        if !cand.is_empty() {
                            let k = *r.pick(&cand);
                            p.swap(0, k);
                        }
                    }
                }
                p
            };
            let kind = if gno == 0 { 0 } else { r.below(20) };
            let g = match kind {
                // a local event on a member whose entry came in through a merge
                7..=12 if !present.is_empty() => {
                    let mm = *r.pick(&present);
                    let cur = view0[mm].map_or(0, |e| e.2);
                    let ev = match r.below(6) {
                        0 | 1 => Ev::Fail(mm),
                        2 | 3 => Ev::Suspect(mm, if r.chance(7, 8) { cur } else { cur + 1 }),
                        4 => Ev::MarkHealthy(mm),
                        _ => Ev::Refute(mm, cur + r.below(2)),
                    };
                    if lab.local_set[r0][mm].is_none() {
                        rep.hit("unsorted.local_event_on_entry_received_by_merge");
                    }
                    G::Local { to, ev }
                }
                // re-delivery of an earlier batch: re-ordered, sometimes partial
                13..=16 if !earlier.is_empty() => {
                    let gi = *r.pick(&earlier);
                    let mut base = match &gs[gi] {
                        G::Merge { base, .. } => base.clone(),
                        _ => vec![],
                    };
                    if base.len() > 1 && r.chance(1, 3) {
                        let drop = r.below(base.len() as u64) as usize;
                        base.remove(drop);
                    }
                    rep.hit("unsorted.redelivery");
                    if to.iter().any(|&t| base.iter().any(|u| lab.local_set[t][u.m].is_some())) {
                        rep.hit("unsorted.redelivery_onto_a_local_verdict");
                    }
                    let perms = to.iter().map(|_| shuffled(&mut r, &base, true)).collect();
                    G::Merge { to, base, perms }
                }
                // late updates: same incarnation, timestamp at or below the newest one held
                17..=19 if !present.is_empty() => {
                    let k = 1 + r.below(2) as usize;
                    let base: Vec<Upd> = (0..k)
                        .map(|_| {
                            let mm = *r.pick(&present);
                            let e = view0[mm].unwrap();
                            let top = lab.seen_max[r0][mm].map_or(e.1, |x| x.1.max(e.1));
                            Upd { m: mm, h: r.below(4) as usize, ts: r.below(top + 1), inc: e.2 }
                        })
                        .collect();
                    rep.hit("unsorted.in_between_update");
                    let perms = to.iter().map(|_| shuffled(&mut r, &base, false)).collect();
                    G::Merge { to, base, perms }
                }
                // a fresh batch, timestamps around and ahead of the receiver's clock
                _ => {
                    let k = 2 + r.below(4) as usize;
                    let base: Vec<Upd> = (0..k)
                        .map(|_| {
                            let mm = r.below(members as u64) as usize;
                            let inc = match view0[mm] {
                                Some(e) if r.chance(3, 4) => e.2,
                                _ => r.below(3),
                            };
                            Upd { m: mm, h: r.below(4) as usize, ts: clock0.saturating_sub(3) + r.below(12), inc }
                        })
                        .collect();
                    let mut perms: Vec<Vec<usize>> = vec![];
                    for j in 0..to.len() {
                        let force = j > 0 || r.chance(3, 4);
                        perms.push(shuffled(&mut r, &base, force));
                    }
                    G::Merge { to, base, perms }
                }
            };
            if let G::Merge { to, base, perms } = &g {
                rep.hit("unsorted.batch");
                let mx = base.iter().map(|u| u.ts).max().unwrap_or(0);
                for (j, p) in perms.iter().enumerate() {
                    if base[p[0]].ts < mx {
                        rep.hit("unsorted.batch.head_not_newest");
                        if mx > lab.reps[to[j]].lamport_time() {
                            rep.hit("unsorted.batch.newest_entry_ahead_of_clock_and_not_at_head");
                        }
                    }
                }
                if to.len() > 1 && perms.windows(2).any(|w| w[0] != w[1]) {
                    rep.hit("unsorted.batch.mirrored_in_different_orders");
                }
            }
            for op in g.ops() {
                let line = op.line();
                hist.push(line.clone());
                let imp = lab.step(&op);
                if !matches!(op, Op::Merge(..)) {
                    rep.hit(&format!("{}.{}", op.name(), imp.starts_with("true")));
                }
                if live {
                    let ans = m.ask(&line);
                    if !rep.compare(stream, || json!({"history": hist}), &imp, &ans) {
                        live = false; // the real replicas and their oracles go on without the model
                        rep.hit("unsorted.real_only_after_divergence");
                    }
                }
            }
            lab.after_group();
            gs.push(g);
        }
        let viol = lab.viol.clone();
        for (class, _) in &viol {
            rep.hit(&format!("unsorted.seeded_cases_raising.{}", class.rsplit('/').next().unwrap_or("")));
            report_shrunk(rep, stream, &format!("seeded case {case}"), class, &gs, n, names);
        }
        rep.hit_n("unsorted.replica_pairs_with_same_inputs_checked", {
            let mut c = 0;
            for i in 0..n {
                for j in (i + 1)..n {
                    if lab.sig[i] == lab.sig[j] {
                        c += 1;
                    }
                }
            }
            c
        });
        let hkey = hist.join("/");
        rep.case(stream, if lab.local_true > 0 { Some(&hkey) } else { None });
        if case == 0 {
            rep.sample(json!({"stream": stream, "replicas": n, "history": hist[..hist.len().min(14)]}));
        }
    }
}

// ------------------------------------------------------------------ a refutation against old news
//
// `refute(m, n)` (the operation behind `GossipMessage::Alive`) and news about incarnations of m BELOW n
// (stale suspicions, merged Degraded / Failed / Unknown states of an older incarnation, older
// refutations, mark_healthy) commute: wherever the refutation sits among them, m ends Healthy at n
// (Lean: refute_records_announced, refute_wins_over_stale_news, refute_and_stale_news_commute; the
// manager: mgr_alive_records_announced, mgr_alive_wins_over_stale_news).  Streams `refute_vs_stale[.directed]`
// (real LWWMembershipState replicas) and `mgr.alive_vs_stale[.directed]` (real GossipMembershipManagers):
// a common setup that leaves the member in EVERY health state (merged or written by a local event), then
// the same multiset of events handed to 2-4 replicas in different orders.  Oracles on the real objects:
//   <site>/announced_incarnation_dropped              after refute / handle_alive (known member, within the
//                                                     jump limit) the recorded incarnation is >= the announced one
//   <site>/degraded_or_failed_at_refuted_incarnation  no step records a member Degraded / Failed at an
//                                                     incarnation below one this replica has been told of
//   <site>/replicas_diverge_on_event_order            replicas that got the same events in different orders
//   (managers_diverge_on_message_order)               agree on the member's (health, incarnation)
//   <site>/not_healthy_at_announced_incarnation_after_stale_news   ... and it is (Healthy, n)

/// an event handed to a replica of a `refute_vs_stale` script
#[derive(Clone, Debug, PartialEq)]
enum LEv {
    Merge(Vec<Upd>),
    Suspect(usize, u64),
    Fail(usize),
    Refute(usize, u64),
    MarkHealthy(usize),
    Tick,
    SyncTime(u64),
}

impl LEv {
    fn op(&self, r: usize) -> Op {
        match self {
            LEv::Merge(b) => Op::Merge(r, b.clone()),
            LEv::Suspect(m, i) => Op::Suspect(r, *m, *i),
            LEv::Fail(m) => Op::Fail(r, *m),
            LEv::Refute(m, i) => Op::Refute(r, *m, *i),
            LEv::MarkHealthy(m) => Op::MarkHealthy(r, *m),
            LEv::Tick => Op::Tick(r),
            LEv::SyncTime(t) => Op::SyncTime(r, *t),
        }
    }
    /// `StaleFor m n` of RefuteLemmas.lean: about m, only news of incarnations below n
    fn stale_for(&self, m: usize, n: u64) -> bool {
        match self {
            LEv::Merge(b) => b.iter().all(|u| u.m != m || u.inc < n),
            LEv::Suspect(k, i) | LEv::Refute(k, i) => *k != m || *i < n,
            LEv::Fail(k) => *k != m,
            LEv::MarkHealthy(_) | LEv::Tick | LEv::SyncTime(_) => true,
        }
    }
}

/// `setup` goes to every replica in this order; then replica r gets `events` in the order `orders[r]`
#[derive(Clone, Debug)]
struct RScript {
    n: usize,
    setup: Vec<LEv>,
    events: Vec<LEv>,
    orders: Vec<Vec<usize>>,
}

impl RScript {
    fn with_events(&self, keep: &[usize]) -> RScript {
        RScript {
            n: self.n,
            setup: self.setup.clone(),
            events: keep.iter().map(|&i| self.events[i].clone()).collect(),
            orders: self.orders.iter().map(|o| o.iter().filter_map(|i| keep.iter().position(|k| k == i)).collect()).collect(),
        }
    }
    fn with_setup(&self, keep: &[usize]) -> RScript {
        RScript { setup: keep.iter().map(|&i| self.setup[i].clone()).collect(), ..self.clone() }
    }
    fn only(&self, reps: &[usize]) -> RScript {
        RScript { n: reps.len(), orders: reps.iter().map(|&r| self.orders[r].clone()).collect(), ..self.clone() }
    }
    fn seq(&self, r: usize) -> Vec<&LEv> {
        self.setup.iter().chain(self.orders[r].iter().map(|&i| &self.events[i])).collect()
    }
}

/// the refutations of a script that every other event is old news for: (member, incarnation)
fn top_refutes<E>(events: &[E], as_refute: &dyn Fn(&E) -> Option<(usize, u64)>, stale: &dyn Fn(&E, usize, u64) -> bool) -> Vec<(usize, u64)> {
    let mut out = vec![];
    for (i, e) in events.iter().enumerate() {
        if let Some((m, n)) = as_refute(e) {
            if events.iter().enumerate().all(|(j, f)| j == i || stale(f, m, n)) {
                out.push((m, n));
            }
        }
    }
    out
}

struct RRun {
    viol: Vec<(String, String)>,
    /// per replica: (model line, implementation answer)
    lines: Vec<Vec<(String, String)>>,
    views: Vec<(CView, u64)>,
    hits: Vec<String>,
    targets: usize,
}

fn reg_txt(e: Option<(usize, u64, u64)>) -> String {
    e.map_or("-".to_string(), |e| format!("{}:{}:{}", HL[e.0], e.1, e.2))
}

/// run a `refute_vs_stale` script on fresh real replicas, with every oracle (no model in here)
fn rrun(sc: &RScript, names: &[String]) -> RRun {
    let site = "tensor_chain.gossip.refute";
    let mut out = RRun { viol: vec![], lines: vec![vec![]; sc.n], views: vec![], hits: vec![], targets: 0 };
    let flag = |viol: &mut Vec<(String, String)>, class: &str, what: String| {
        if !viol.iter().any(|(c, _)| c == class) {
            viol.push((class.to_string(), what));
        }
    };
    let mut reps: Vec<LWWMembershipState> = (0..sc.n).map(|_| LWWMembershipState::new()).collect();
    let mut after_setup: Vec<CView> = vec![];
    for r in 0..sc.n {
        let mut told: [Option<u64>; K] = [None; K];
        for (k, ev) in sc.seq(r).into_iter().enumerate() {
            if k == sc.setup.len() {
                after_setup.push(cview(&reps[r], names));
            }
            let op = ev.op(r);
            let before = (cview(&reps[r], names), reps[r].lamport_time());
            let imp = apply_real(&mut reps, &op, names);
            let after = (cview(&reps[r], names), reps[r].lamport_time());
            let at = format!("(replica {r}, step {}: `{}`)", k + 1, op.line());
            for (c, w) in mono_classes("tensor_chain.gossip", op.name(), (&before.0, before.1), (&after.0, after.1)) {
                flag(&mut out.viol, &c, format!("{w} {at}"));
            }
            for (c, w) in refute_classes(&op, &before.0, &after.0) {
                flag(&mut out.viol, &c, format!("{w} {at}"));
            }
            if let Op::Refute(_, m, i) = &op {
                match before.0[*m] {
                    Some(b) => {
                        told[*m] = Some(told[*m].map_or(*i, |t| t.max(*i)));
                        out.hits.push(format!("rvs.refute.on_{}{}", ["healthy", "degraded", "failed", "unknown"][b.0], if *i > b.2 { "" } else { ".not_higher" }));
                    }
                    None => out.hits.push("rvs.refute.on_absent".to_string()),
                }
            }
            for m in 0..K {
                if let (Some(t), Some(a)) = (told[m], after.0[m]) {
                    if a.2 < t && (a.0 == 1 || a.0 == 2) && after.0[m] != before.0[m] {
                        flag(
                            &mut out.viol,
                            &format!("{site}/degraded_or_failed_at_refuted_incarnation"),
                            format!("replica {r} was told by refute() that member {m} announced incarnation {t}; it now records member {m} as {} (was {}) {at}", reg_txt(after.0[m]), reg_txt(before.0[m])),
                        );
                    }
                }
            }
            out.lines[r].push((op.line(), imp));
        }
        if sc.seq(r).len() == sc.setup.len() {
            after_setup.push(cview(&reps[r], names));
        }
        out.views.push((cview(&reps[r], names), reps[r].lamport_time()));
    }
    // the refutations every other event is old news for, on members every replica knew below that incarnation
    let tops = top_refutes(&sc.events, &|e| if let LEv::Refute(m, n) = e { Some((*m, *n)) } else { None }, &|e, m, n| e.stale_for(m, n));
    for (m, n) in tops {
        if !(0..sc.n).all(|r| after_setup[r][m].is_some_and(|e| e.2 < n)) {
            continue;
        }
        out.targets += 1;
        let hi = |r: usize| out.views[r].0[m].map(|e| (e.0, e.2));
        let mut diverged = false;
        'pairs: for i in 0..sc.n {
            for j in (i + 1)..sc.n {
                if hi(i) != hi(j) {
                    let w = format!(
                        "replicas {i} and {j} started from the same view and were handed the same events (refute(member {m}, {n}) and news about incarnations of member {m} below {n}) in different orders; they record member {m} as {} and {}",
                        reg_txt(out.views[i].0[m]),
                        reg_txt(out.views[j].0[m])
                    );
                    flag(&mut out.viol, &format!("{site}/replicas_diverge_on_event_order"), w);
                    diverged = true;
                    break 'pairs;
                }
            }
        }
        let _ = diverged;
        if let Some(r) = (0..sc.n).find(|&r| hi(r) != Some((0, n))) {
            let w = format!(
                "replica {r} held member {m} below incarnation {n}, got refute(member {m}, {n}) and otherwise only news about incarnations below {n}; it records member {m} as {} instead of Healthy at {n}",
                reg_txt(out.views[r].0[m])
            );
            flag(&mut out.viol, &format!("{site}/not_healthy_at_announced_incarnation_after_stale_news"), w);
        }
    }
    out
}

fn rfails(sc: &RScript, names: &[String], class: &str) -> bool {
    rrun(sc, names).viol.iter().any(|(c, _)| c == class)
}

/// shrink a failing `refute_vs_stale` script (replicas, events, setup, batch entries) and report it
fn rreport(rep: &mut Report, stream: &str, case: &str, sc: &RScript, names: &[String], class: &str) {
    if rep.violations.iter().filter(|v| v["class"] == class).count() >= 4 {
        return;
    }
    let mut cur = sc.clone();
    'one: for i in 0..cur.n {
        let cand = cur.only(&[i]);
        if rfails(&cand, names, class) {
            cur = cand;
            break 'one;
        }
    }
    if cur.n > 2 {
        'two: for i in 0..cur.n {
            for j in (i + 1)..cur.n {
                let cand = cur.only(&[i, j]);
                if rfails(&cand, names, class) {
                    cur = cand;
                    break 'two;
                }
            }
        }
    }
    let idx: Vec<usize> = (0..cur.events.len()).collect();
    let kept = shrink_list(&idx, &mut |keep: &[usize]| rfails(&cur.with_events(keep), names, class));
    cur = cur.with_events(&kept);
    let idx: Vec<usize> = (0..cur.setup.len()).collect();
    let kept = shrink_list(&idx, &mut |keep: &[usize]| rfails(&cur.with_setup(keep), names, class));
    cur = cur.with_setup(&kept);
    for which in 0..2 {
        let len = if which == 0 { cur.setup.len() } else { cur.events.len() };
        for i in 0..len {
            let ev = if which == 0 { cur.setup[i].clone() } else { cur.events[i].clone() };
            if let LEv::Merge(b) = ev {
                if b.len() > 1 {
                    let put = |c: &RScript, nb: Vec<Upd>| {
                        let mut c = c.clone();
                        if which == 0 {
                            c.setup[i] = LEv::Merge(nb);
                        } else {
                            c.events[i] = LEv::Merge(nb);
                        }
                        c
                    };
                    let kept = shrink_list(&b, &mut |nb: &[Upd]| rfails(&put(&cur, nb.to_vec()), names, class));
                    cur = put(&cur, kept);
                }
            }
        }
    }
    let run = rrun(&cur, names);
    let what = run.viol.iter().find(|(c, _)| c == class).map(|(_, w)| w.clone()).unwrap_or_default();
    let hist: Vec<Value> = (0..cur.n).map(|r| json!(run.lines[r].iter().map(|(l, a)| format!("{l}  ->  {a}")).collect::<Vec<_>>())).collect();
    let views: Vec<String> = run.views.iter().map(|(v, c)| view_txt(*c, v)).collect();
    rep.violation_capped(
        class,
        &what,
        json!({"stream": stream, "case": case, "replicas": cur.n, "history_per_replica": hist, "final_views": views,
               "steps_before_shrinking": sc.setup.len() + sc.events.len(), "replicas_before_shrinking": sc.n}),
    );
}

/// one script: real replicas + oracles to the end, the model asked until the first disagreement
fn rcase(rep: &mut Report, m: &mut Model, stream: &str, case: &str, sc: &RScript, names: &[String]) {
    let run = rrun(sc, names);
    m.ask("reset");
    let mut live = true;
    for r in 0..sc.n {
        for (i, (line, imp)) in run.lines[r].iter().enumerate() {
            if live {
                let ans = m.ask(line);
                live = rep.compare(stream, || json!({"case": case, "history": run.lines[r][..=i].iter().map(|x| x.0.clone()).collect::<Vec<_>>()}), imp, &ans);
                if !live {
                    rep.hit("rvs.real_only_after_divergence");
                }
            }
        }
    }
    for h in &run.hits {
        rep.hit(h);
    }
    rep.hit_n("rvs.members_checked_for_order_independence", run.targets as u64);
    for (class, _) in &run.viol {
        rreport(rep, stream, case, sc, names, class);
    }
    let key = format!("{case}|{}", (0..sc.n).map(|r| run.lines[r].iter().map(|x| x.0.clone()).collect::<Vec<_>>().join("/")).collect::<Vec<_>>().join("||"));
    rep.case(stream, if run.targets > 0 { Some(&key) } else { None });
}

/// directed scripts, run before every random stream: the refutation reaches a replica that sees the
/// member as Healthy (and as Degraded / Failed / Unknown), before / between / after the stale suspicion
fn directed_refute(rep: &mut Report, m: &mut Model, names: &[String]) {
    let stream = "refute_vs_stale.directed";
    let mut cases: Vec<(String, RScript)> = vec![];
    let base = |h: char| LEv::Merge(vec![up(1, h, 1, 0)]);
    // the minimal histories
    cases.push((
        "refute_while_healthy_then_stale_suspect".into(),
        RScript { n: 2, setup: vec![base('H')], events: vec![LEv::Refute(1, 1), LEv::Suspect(1, 0)], orders: vec![vec![0, 1], vec![1, 0]] },
    ));
    cases.push((
        "refute_while_healthy_then_stale_failed_state".into(),
        RScript { n: 2, setup: vec![base('H')], events: vec![LEv::Refute(1, 1), LEv::Merge(vec![up(1, 'F', 7, 0)])], orders: vec![vec![0, 1], vec![1, 0]] },
    ));
    cases.push((
        "refute_while_healthy_then_stale_degraded_and_unknown_states".into(),
        RScript {
            n: 3,
            setup: vec![base('H')],
            events: vec![LEv::Refute(1, 1), LEv::Merge(vec![up(1, 'D', 9, 0)]), LEv::Merge(vec![up(1, 'U', 4, 0), up(1, 'D', 2, 0)])],
            orders: vec![vec![0, 1, 2], vec![1, 0, 2], vec![2, 1, 0]],
        },
    ));
    // every health the member can be seen in when the refutation arrives, as merged in and as written
    // by a local event; refutation first / in the middle / last
    let starts: Vec<(&str, Vec<LEv>)> = vec![
        ("merged_healthy", vec![base('H')]),
        ("merged_degraded", vec![base('D')]),
        ("merged_failed", vec![base('F')]),
        ("merged_unknown", vec![base('U')]),
        ("suspected_locally", vec![base('H'), LEv::Suspect(1, 0)]),
        ("failed_locally", vec![base('H'), LEv::Fail(1)]),
        ("marked_healthy_locally", vec![base('F'), LEv::MarkHealthy(1)]),
        ("suspected_then_marked_healthy", vec![base('U'), LEv::Suspect(1, 0), LEv::MarkHealthy(1)]),
    ];
    for (name, setup) in starts {
        cases.push((
            format!("refute_on_{name}_vs_stale_suspect_and_states"),
            RScript {
                n: 3,
                setup,
                events: vec![LEv::Refute(1, 1), LEv::Suspect(1, 0), LEv::Merge(vec![up(1, 'D', 9, 0)]), LEv::Merge(vec![up(1, 'F', 2, 0)])],
                orders: vec![vec![0, 1, 2, 3], vec![1, 2, 0, 3], vec![3, 2, 1, 0]],
            },
        ));
    }
    // a ping ack (mark_healthy) makes the member Healthy right before the refutation arrives
    cases.push((
        "mark_healthy_then_refute_then_stale_suspect".into(),
        RScript {
            n: 3,
            setup: vec![base('D')],
            events: vec![LEv::MarkHealthy(1), LEv::Refute(1, 1), LEv::Suspect(1, 0), LEv::Tick],
            orders: vec![vec![0, 1, 2, 3], vec![2, 0, 3, 1], vec![1, 2, 3, 0]],
        },
    ));
    // two announcements in a row (1 -> 2 -> 3), the older one and suspicions of both older incarnations late
    cases.push((
        "second_announcement_vs_older_announcement_and_suspicions".into(),
        RScript {
            n: 4,
            setup: vec![LEv::Merge(vec![up(2, 'H', 3, 1), up(0, 'H', 1, 0)])],
            events: vec![LEv::Refute(2, 3), LEv::Refute(2, 2), LEv::Suspect(2, 1), LEv::Suspect(2, 2), LEv::Merge(vec![up(2, 'F', 50, 2), up(2, 'D', 8, 1)]), LEv::SyncTime(30)],
            orders: vec![vec![0, 1, 2, 3, 4, 5], vec![1, 2, 3, 4, 5, 0], vec![2, 1, 3, 0, 5, 4], vec![4, 3, 5, 1, 0, 2]],
        },
    ));
    // two members refuting at once, stale news about both interleaved
    cases.push((
        "two_members_refute_stale_news_interleaved".into(),
        RScript {
            n: 2,
            setup: vec![LEv::Merge(vec![up(0, 'H', 2, 0), up(1, 'D', 5, 1)])],
            events: vec![LEv::Refute(0, 1), LEv::Refute(1, 2), LEv::Suspect(0, 0), LEv::Suspect(1, 1), LEv::Merge(vec![up(0, 'F', 6, 0), up(1, 'F', 6, 1)])],
            orders: vec![vec![0, 1, 2, 3, 4], vec![4, 3, 2, 1, 0]],
        },
    ));
    // a member nobody knows: refute answers false and records nothing (no oracle applies; model only)
    cases.push((
        "refute_on_unknown_member".into(),
        RScript { n: 1, setup: vec![base('H')], events: vec![LEv::Refute(3, 1), LEv::Suspect(3, 0)], orders: vec![vec![0, 1]] },
    ));
    for (name, sc) in cases {
        rcase(rep, m, stream, &name, &sc, names);
        rep.hit("rvs.directed_scripts");
    }
}

/// seeded scripts: 1-3 members, each left in a random health (merged or written by a local event) by
/// the common setup, then refute(m, top) and 1-4 pieces of news about lower incarnations per member,
/// handed to 2-4 replicas in different orders (one replica refutes first, one last)
fn refute_stream(rep: &mut Report, m: &mut Model, names: &[String], root: &Rng, cases: u64) {
    let stream = "refute_vs_stale";
    let mut r = root.fork("refute_vs_stale");
    for case in 0..cases {
        let n = 2 + r.below(3) as usize;
        let members = 1 + r.below(3) as usize;
        let mut setup: Vec<LEv> = vec![];
        let mut events: Vec<LEv> = vec![];
        for mm in 0..members {
            let inc0 = r.below(3);
            if !r.chance(1, 12) {
                setup.push(LEv::Merge(vec![Upd { m: mm, h: r.below(4) as usize, ts: 1 + r.below(6), inc: inc0 }]));
                match r.below(7) {
                    0 => setup.push(LEv::Suspect(mm, inc0)),
                    1 => setup.push(LEv::Fail(mm)),
                    2 => setup.push(LEv::MarkHealthy(mm)),
                    3 => {
                        setup.push(LEv::Suspect(mm, inc0));
                        setup.push(LEv::MarkHealthy(mm));
                    }
                    _ => {}
                }
            }
            if r.chance(1, 10) {
                continue;
            }
            let top = inc0 + 1 + r.below(2);
            events.push(LEv::Refute(mm, top));
            for _ in 0..1 + r.below(4) {
                let j = if r.chance(2, 3) { inc0 } else { r.below(top) };
                events.push(match r.below(10) {
                    0..=3 => LEv::Suspect(mm, j),
                    4..=6 => LEv::Merge(
                        (0..1 + r.below(2))
                            .map(|_| Upd { m: mm, h: *r.pick(&[1usize, 1, 2, 2, 3, 0]), ts: r.below(14), inc: if r.chance(2, 3) { j } else { r.below(top) } })
                            .collect(),
                    ),
                    7 => LEv::MarkHealthy(mm),
                    8 => LEv::Refute(mm, j),
                    _ => {
                        if r.chance(1, 2) {
                            LEv::Tick
                        } else {
                            LEv::SyncTime(r.below(12))
                        }
                    }
                });
            }
        }
        let is_ref = |e: &LEv| matches!(e, LEv::Refute(..));
        let mut orders: Vec<Vec<usize>> = vec![];
        for rr in 0..n {
            let mut o: Vec<usize> = (0..events.len()).collect();
            r.shuffle(&mut o);
            match rr {
                0 => o.sort_by_key(|&i| !is_ref(&events[i])), // refutations overtake everything (stable)
                1 => o.sort_by_key(|&i| is_ref(&events[i])),  // refutations arrive last
                _ => {}
            }
            orders.push(o);
        }
        let sc = RScript { n, setup, events, orders };
        rcase(rep, m, stream, &format!("seeded case {case}"), &sc, names);
        if case == 0 {
            rep.sample(json!({"stream": stream, "replicas": n, "setup": sc.setup.iter().map(|e| e.op(0).line()).collect::<Vec<_>>(),
                "events": sc.events.iter().map(|e| e.op(0).line()).collect::<Vec<_>>(), "orders": sc.orders}));
        }
    }
}

// ---- the same through GossipMembershipManager::handle_gossip

fn mop_stale_for(op: &MOp, m: usize, n: u64) -> bool {
    match op {
        MOp::Sync(s, _, b) => *s != m && b.iter().all(|u| u.m != m || u.inc < n),
        MOp::Suspect(k, i) | MOp::Alive(k, i) => *k != m || *i < n,
        MOp::AddPeer(_) => true,
    }
}

#[derive(Clone, Debug)]
struct MScript {
    n: usize,
    delta: u64,
    setup: Vec<MOp>,
    events: Vec<MOp>,
    orders: Vec<Vec<usize>>,
}

impl MScript {
    fn with_events(&self, keep: &[usize]) -> MScript {
        MScript {
            events: keep.iter().map(|&i| self.events[i].clone()).collect(),
            orders: self.orders.iter().map(|o| o.iter().filter_map(|i| keep.iter().position(|k| k == i)).collect()).collect(),
            ..self.clone()
        }
    }
    fn with_setup(&self, keep: &[usize]) -> MScript {
        MScript { setup: keep.iter().map(|&i| self.setup[i].clone()).collect(), ..self.clone() }
    }
    fn only(&self, gs: &[usize]) -> MScript {
        MScript { n: gs.len(), orders: gs.iter().map(|&g| self.orders[g].clone()).collect(), ..self.clone() }
    }
    fn seq(&self, g: usize) -> Vec<&MOp> {
        self.setup.iter().chain(self.orders[g].iter().map(|&i| &self.events[i])).collect()
    }
}

const MVS_LOCAL: usize = K - 1;
const MVS_SENDER: usize = K - 2;

/// run an `mgr.alive_vs_stale` script on fresh real managers, with every oracle (no model in here)
fn mrun(sc: &MScript, names: &[String]) -> RRun {
    let site = "tensor_chain.gossip.handle_gossip";
    let mut out = RRun { viol: vec![], lines: vec![vec![]; sc.n], views: vec![], hits: vec![], targets: 0 };
    let flag = |viol: &mut Vec<(String, String)>, class: &str, what: String| {
        if !viol.iter().any(|(c, _)| c == class) {
            viol.push((class.to_string(), what));
        }
    };
    let mut after_setup: Vec<CView> = vec![];
    for g in 0..sc.n {
        let mgr = new_mgr(MVS_LOCAL, sc.delta, names);
        out.lines[g].push((format!("mgr_new {g} {MVS_LOCAL} {}", sc.delta), String::new()));
        let mut told: [Option<u64>; K] = [None; K];
        let mut prev = (cview_of_list(&mgr.membership_view(), names), mgr.lamport_time(), mgr.incarnation_rejected_count());
        for (k, op) in sc.seq(g).into_iter().enumerate() {
            if k == sc.setup.len() {
                after_setup.push(prev.0);
            }
            op.apply(&mgr, names);
            let now = (cview_of_list(&mgr.membership_view(), names), mgr.lamport_time(), mgr.incarnation_rejected_count());
            let at = format!("(manager {g}, step {}: `{}`)", k + 1, op.line(g));
            for (c, w) in mono_classes(site, "msg", (&prev.0, prev.1), (&now.0, now.1)) {
                flag(&mut out.viol, &c, format!("{w} {at}"));
            }
            if let MOp::AddPeer(p) = op {
                out.hits.push(add_peer_hit(*p, &prev.0));
                for (c, w) in add_peer_classes(*p, &prev.0, &now.0) {
                    flag(&mut out.viol, &c, format!("{w} {at}"));
                }
            }
            if let MOp::Alive(x, i) = op {
                match prev.0[*x] {
                    Some(b) if now.2 == prev.2 => {
                        told[*x] = Some(told[*x].map_or(*i, |t| t.max(*i)));
                        out.hits.push(format!("mvs.alive.on_{}{}", ["healthy", "degraded", "failed", "unknown"][b.0], if *i > b.2 { "" } else { ".not_higher" }));
                        let got = now.0[*x].map(|a| a.2);
                        if got.map_or(true, |v| v < *i) {
                            flag(
                                &mut out.viol,
                                "tensor_chain.gossip.handle_alive/announced_incarnation_dropped",
                                format!(
                                    "Alive(member {x}, incarnation {i}) was handled (within max_incarnation_delta {}, rejected counter unchanged) and member {x}, held as {} before, is recorded at incarnation {} afterwards {at}",
                                    sc.delta,
                                    reg_txt(prev.0[*x]),
                                    got.map_or("- (forgotten)".to_string(), |v| v.to_string())
                                ),
                            );
                        }
                    }
                    Some(_) => out.hits.push("mvs.alive.rejected_delta".to_string()),
                    None => out.hits.push("mvs.alive.on_absent".to_string()),
                }
            }
            for mm in 0..K {
                if let (Some(t), Some(a)) = (told[mm], now.0[mm]) {
                    if a.2 < t && (a.0 == 1 || a.0 == 2) && now.0[mm] != prev.0[mm] {
                        flag(
                            &mut out.viol,
                            &format!("{site}/degraded_or_failed_at_refuted_incarnation"),
                            format!("manager {g} handled an Alive announcing incarnation {t} of member {mm}; it now records member {mm} as {} (was {}) {at}", reg_txt(now.0[mm]), reg_txt(prev.0[mm])),
                        );
                    }
                }
            }
            prev = now;
            out.lines[g].push((op.line(g), mgr_answer(&mgr, names)));
        }
        if sc.seq(g).len() == sc.setup.len() {
            after_setup.push(prev.0);
        }
        out.views.push((prev.0, prev.1));
    }
    let tops = top_refutes(&sc.events, &|e| if let MOp::Alive(m, n) = e { Some((*m, *n)) } else { None }, &|e, m, n| mop_stale_for(e, m, n));
    for (m, n) in tops {
        if !(0..sc.n).all(|g| after_setup[g][m].is_some_and(|e| e.2 < n && n - e.2 <= sc.delta)) {
            continue;
        }
        out.targets += 1;
        let hi = |g: usize| out.views[g].0[m].map(|e| (e.0, e.2));
        'pairs: for i in 0..sc.n {
            for j in (i + 1)..sc.n {
                if hi(i) != hi(j) {
                    let w = format!(
                        "managers {i} and {j} started from the same view and handled the same messages (Alive(member {m}, {n}) and Sync / Suspect / Alive messages about incarnations of member {m} below {n}) in different orders; they record member {m} as {} and {}",
                        reg_txt(out.views[i].0[m]),
                        reg_txt(out.views[j].0[m])
                    );
                    flag(&mut out.viol, &format!("{site}/managers_diverge_on_message_order"), w);
                    break 'pairs;
                }
            }
        }
        if let Some(g) = (0..sc.n).find(|&g| hi(g) != Some((0, n))) {
            let w = format!(
                "manager {g} held member {m} below incarnation {n}, handled Alive(member {m}, {n}) and otherwise only messages about incarnations below {n}; it records member {m} as {} instead of Healthy at {n}",
                reg_txt(out.views[g].0[m])
            );
            flag(&mut out.viol, &format!("{site}/not_healthy_at_announced_incarnation_after_stale_news"), w);
        }
    }
    out
}

fn mfails(sc: &MScript, names: &[String], class: &str) -> bool {
    mrun(sc, names).viol.iter().any(|(c, _)| c == class)
}

fn mreport(rep: &mut Report, stream: &str, case: &str, sc: &MScript, names: &[String], class: &str) {
    if rep.violations.iter().filter(|v| v["class"] == class).count() >= 4 {
        return;
    }
    let mut cur = sc.clone();
    'one: for i in 0..cur.n {
        let cand = cur.only(&[i]);
        if mfails(&cand, names, class) {
            cur = cand;
            break 'one;
        }
    }
    if cur.n > 2 {
        'two: for i in 0..cur.n {
            for j in (i + 1)..cur.n {
                let cand = cur.only(&[i, j]);
                if mfails(&cand, names, class) {
                    cur = cand;
                    break 'two;
                }
            }
        }
    }
    let idx: Vec<usize> = (0..cur.events.len()).collect();
    let kept = shrink_list(&idx, &mut |keep: &[usize]| mfails(&cur.with_events(keep), names, class));
    cur = cur.with_events(&kept);
    let idx: Vec<usize> = (0..cur.setup.len()).collect();
    let kept = shrink_list(&idx, &mut |keep: &[usize]| mfails(&cur.with_setup(keep), names, class));
    cur = cur.with_setup(&kept);
    let run = mrun(&cur, names);
    let what = run.viol.iter().find(|(c, _)| c == class).map(|(_, w)| w.clone()).unwrap_or_default();
    let hist: Vec<Value> = (0..cur.n).map(|g| json!(run.lines[g].iter().map(|(l, a)| if a.is_empty() { l.clone() } else { format!("{l}  ->  {a}") }).collect::<Vec<_>>())).collect();
    let views: Vec<String> = run.views.iter().map(|(v, c)| view_txt(*c, v)).collect();
    rep.violation_capped(
        class,
        &what,
        json!({"stream": stream, "case": case, "managers": cur.n, "local_node": MVS_LOCAL, "max_incarnation_delta": cur.delta,
               "history_per_manager": hist, "final_views": views,
               "steps_before_shrinking": sc.setup.len() + sc.events.len(), "managers_before_shrinking": sc.n}),
    );
}

fn mcase(rep: &mut Report, m: &mut Model, stream: &str, case: &str, sc: &MScript, names: &[String]) {
    let run = mrun(sc, names);
    let mut live = true;
    for g in 0..sc.n {
        for (i, (line, imp)) in run.lines[g].iter().enumerate() {
            if imp.is_empty() {
                m.ask(line); // mgr_new
                continue;
            }
            if live {
                let ans = strip_mgr(&m.ask(line));
                live = rep.compare(stream, || json!({"case": case, "max_incarnation_delta": sc.delta, "history": run.lines[g][..=i].iter().map(|x| x.0.clone()).collect::<Vec<_>>()}), imp, &ans);
                if !live {
                    rep.hit("mvs.real_only_after_divergence");
                }
            }
        }
    }
    for h in &run.hits {
        rep.hit(h);
    }
    rep.hit_n("mvs.members_checked_for_order_independence", run.targets as u64);
    for (class, _) in &run.viol {
        mreport(rep, stream, case, sc, names, class);
    }
    let key = format!("{case}|{}", (0..sc.n).map(|g| run.lines[g].iter().map(|x| x.0.clone()).collect::<Vec<_>>().join("/")).collect::<Vec<_>>().join("||"));
    rep.case(stream, if run.targets > 0 { Some(&key) } else { None });
}

fn directed_alive_mgr(rep: &mut Report, m: &mut Model, names: &[String]) {
    let rt = tokio::runtime::Builder::new_current_thread().build().unwrap();
    let _guard = rt.enter();
    let stream = "mgr.alive_vs_stale.directed";
    let s = MVS_SENDER;
    let learn = |h: char| MOp::Sync(s, 1, vec![up(2, h, 1, 0)]);
    let mut cases: Vec<(String, MScript)> = vec![];
    // the Alive broadcast overtakes the Suspect it answers (node that never suspected) / trails it
    cases.push((
        "alive_before_and_after_stale_suspect".into(),
        MScript { n: 2, delta: 100, setup: vec![MOp::AddPeer(2), learn('H')], events: vec![MOp::Alive(2, 1), MOp::Suspect(2, 0)], orders: vec![vec![0, 1], vec![1, 0]] },
    ));
    cases.push((
        "alive_before_and_after_stale_failed_state_in_a_sync".into(),
        MScript { n: 2, delta: 100, setup: vec![learn('H')], events: vec![MOp::Alive(2, 1), MOp::Sync(s, 3, vec![up(2, 'F', 7, 0)])], orders: vec![vec![0, 1], vec![1, 0]] },
    ));
    for (name, setup) in [
        ("synced_healthy", vec![learn('H')]),
        ("synced_degraded", vec![learn('D')]),
        ("synced_failed", vec![learn('F')]),
        ("synced_unknown", vec![learn('U')]),
        ("added_as_peer", vec![MOp::AddPeer(2)]),
        ("suspected_by_a_peer", vec![learn('H'), MOp::Suspect(2, 0)]),
    ] {
        cases.push((
            format!("alive_on_{name}_vs_stale_suspect_and_syncs"),
            MScript {
                n: 3,
                delta: 100,
                setup,
                events: vec![MOp::Alive(2, 1), MOp::Suspect(2, 0), MOp::Sync(s, 2, vec![up(2, 'D', 9, 0), up(1, 'H', 3, 0)]), MOp::Sync(1, 0, vec![up(2, 'F', 2, 0)])],
                orders: vec![vec![0, 1, 2, 3], vec![1, 2, 0, 3], vec![3, 2, 1, 0]],
            },
        ));
    }
    // jump limit 2: announcements 1 -> 3 (delta 2, accepted), the older Alive(2) and suspicions late
    cases.push((
        "second_announcement_within_the_jump_limit".into(),
        MScript {
            n: 3,
            delta: 2,
            setup: vec![MOp::Sync(s, 1, vec![up(0, 'H', 4, 1)])],
            events: vec![MOp::Alive(0, 3), MOp::Alive(0, 2), MOp::Suspect(0, 1), MOp::Suspect(0, 2), MOp::Sync(s, 9, vec![up(0, 'F', 30, 2)])],
            orders: vec![vec![0, 1, 2, 3, 4], vec![1, 2, 3, 4, 0], vec![4, 2, 0, 3, 1]],
        },
    ));
    // outside the jump limit the Alive is refused and counted (no oracle applies; model only)
    cases.push((
        "announcement_outside_the_jump_limit".into(),
        MScript { n: 1, delta: 1, setup: vec![learn('H')], events: vec![MOp::Alive(2, 3), MOp::Suspect(2, 0), MOp::Alive(3, 1)], orders: vec![vec![0, 1, 2]] },
    ));
    for (name, sc) in cases {
        mcase(rep, m, stream, &name, &sc, names);
        rep.hit("mvs.directed_scripts");
    }
}

fn alive_stream(rep: &mut Report, m: &mut Model, names: &[String], root: &Rng, cases: u64) {
    let rt = tokio::runtime::Builder::new_current_thread().build().unwrap();
    let _guard = rt.enter();
    let stream = "mgr.alive_vs_stale";
    let mut r = root.fork("mgr.alive_vs_stale");
    for case in 0..cases {
        let n = 2 + r.below(3) as usize;
        let members = 1 + r.below(3) as usize;
        let delta: u64 = if r.chance(1, 4) { 2 } else { 100 };
        let mut setup: Vec<MOp> = vec![];
        let mut events: Vec<MOp> = vec![];
        for mm in 0..members {
            let inc0 = r.below(3).min(delta);
            match r.below(12) {
                0 => {}
                1 if inc0 == 0 => setup.push(MOp::AddPeer(mm)),
                _ => {
                    setup.push(MOp::Sync(MVS_SENDER, r.below(5), vec![Upd { m: mm, h: r.below(4) as usize, ts: 1 + r.below(6), inc: inc0 }]));
                    if r.chance(1, 4) {
                        setup.push(MOp::Suspect(mm, inc0));
                    }
                }
            }
            if r.chance(1, 10) {
                continue;
            }
            let top = inc0 + 1 + r.below(2);
            events.push(MOp::Alive(mm, top));
            for _ in 0..1 + r.below(4) {
                let j = if r.chance(2, 3) { inc0 } else { r.below(top) };
                events.push(match r.below(10) {
                    0..=3 => MOp::Suspect(mm, j),
                    4..=7 => {
                        // a Sync from the outside sender or from another member, carrying old states of mm
                        let from = if members > 1 && r.chance(1, 3) { (mm + 1 + r.below(members as u64 - 1) as usize) % members } else { MVS_SENDER };
                        MOp::Sync(
                            from,
                            r.below(8),
                            (0..1 + r.below(2))
                                .map(|_| Upd { m: mm, h: *r.pick(&[1usize, 1, 2, 2, 3, 0]), ts: r.below(14), inc: if r.chance(2, 3) { j } else { r.below(top) } })
                                .collect(),
                        )
                    }
                    8 => MOp::Alive(mm, j),
                    _ => MOp::AddPeer(mm),
                });
            }
        }
        let is_alive = |e: &MOp| matches!(e, MOp::Alive(..));
        let mut orders: Vec<Vec<usize>> = vec![];
        for g in 0..n {
            let mut o: Vec<usize> = (0..events.len()).collect();
            r.shuffle(&mut o);
            match g {
                0 => o.sort_by_key(|&i| !is_alive(&events[i])),
                1 => o.sort_by_key(|&i| is_alive(&events[i])),
                _ => {}
            }
            orders.push(o);
        }
        let sc = MScript { n, delta, setup, events, orders };
        mcase(rep, m, stream, &format!("seeded case {case}"), &sc, names);
        if case == 0 {
            rep.sample(json!({"stream": stream, "managers": n, "setup": sc.setup.iter().map(|e| e.line(0)).collect::<Vec<_>>(),
                "events": sc.events.iter().map(|e| e.line(0)).collect::<Vec<_>>(), "orders": sc.orders}));
        }
    }
}

// ------------------------------------------------------------------ add_peer: late registration
//
// Entries of the view are created by add_peer (placeholder Unknown@0, fresh tick) AND by gossip (a
// Sync that carries the member or that the member sent), independently of known_peers.  Registering
// a member the view already holds is bookkeeping: it must leave every entry alone
// (add_peer_of_known_member_is_identity, add_peer_keeps_every_entry), so managers handed the same
// messages agree whenever — after learning the member — they registered it
// (registration_point_does_not_matter).

const ADD_PEER_SITE: &str = "tensor_chain.gossip.add_peer";

/// `add_peer(p)`: every member that had an entry before the call holds exactly that entry afterwards
fn add_peer_classes(p: usize, before: &CView, after: &CView) -> Vec<(String, String)> {
    for mm in 0..K {
        if let Some(b) = before[mm] {
            if after[mm] != Some(b) {
                return vec![(
                    format!("{ADD_PEER_SITE}/known_member_overwritten"),
                    format!(
                        "add_peer(member {p}) is local bookkeeping and no membership update about member {mm} arrived, yet the entry the view held for member {mm} changed from {} to {}",
                        reg_txt(Some(b)),
                        reg_txt(after[mm])
                    ),
                )];
            }
        }
    }
    vec![]
}

fn add_peer_hit(p: usize, before: &CView) -> String {
    match before[p] {
        None => "reg.add_peer.on_absent".to_string(),
        Some(b) => format!("reg.add_peer.on_{}.{}", ["healthy", "degraded", "failed", "unknown"][b.0], if b.2 == 0 { "inc0" } else { "inc_ge1" }),
    }
}

/// the same messages for every manager; manager `g` additionally calls add_peer(member) right
/// before message number `pos` (`pos == msgs.len()`: after the last one) for every (pos, member)
/// in `regs[g]`
#[derive(Clone, Debug)]
struct AScript {
    delta: u64,
    msgs: Vec<MOp>,
    regs: Vec<Vec<(usize, usize)>>,
}

impl AScript {
    fn seq(&self, g: usize) -> Vec<MOp> {
        let mut out = vec![];
        for pos in 0..=self.msgs.len() {
            for (q, mm) in &self.regs[g] {
                if *q == pos {
                    out.push(MOp::AddPeer(*mm));
                }
            }
            if pos < self.msgs.len() {
                out.push(self.msgs[pos].clone());
            }
        }
        out
    }
    fn only(&self, gs: &[usize]) -> AScript {
        AScript { regs: gs.iter().map(|&g| self.regs[g].clone()).collect(), ..self.clone() }
    }
    fn with_msgs(&self, keep: &[usize]) -> AScript {
        AScript {
            delta: self.delta,
            msgs: keep.iter().map(|&i| self.msgs[i].clone()).collect(),
            regs: self.regs.iter().map(|rs| rs.iter().map(|(q, mm)| (keep.iter().filter(|&&k| k < *q).count(), *mm)).collect()).collect(),
        }
    }
    fn with_regs(&self, g: usize, keep: &[(usize, usize)]) -> AScript {
        let mut c = self.clone();
        c.regs[g] = keep.to_vec();
        c
    }
}

/// run a late-registration script on fresh real managers, with every oracle (no model in here)
fn arun(sc: &AScript, names: &[String]) -> RRun {
    let n = sc.regs.len();
    let mut out = RRun { viol: vec![], lines: vec![vec![]; n], views: vec![], hits: vec![], targets: 0 };
    let flag = |viol: &mut Vec<(String, String)>, class: &str, what: String| {
        if !viol.iter().any(|(c, _)| c == class) {
            viol.push((class.to_string(), what));
        }
    };
    // did manager g call add_peer only for members its view already held?
    let mut late_only = vec![true; n];
    for g in 0..n {
        let mgr = new_mgr(MVS_LOCAL, sc.delta, names);
        out.lines[g].push((format!("mgr_new {g} {MVS_LOCAL} {}", sc.delta), String::new()));
        let mut prev = (cview_of_list(&mgr.membership_view(), names), mgr.lamport_time());
        for (k, op) in sc.seq(g).iter().enumerate() {
            op.apply(&mgr, names);
            let now = (cview_of_list(&mgr.membership_view(), names), mgr.lamport_time());
            let at = format!("(manager {g}, step {}: `{}`)", k + 1, op.line(g));
            for (c, w) in mono_classes("tensor_chain.gossip.handle_gossip", "msg", (&prev.0, prev.1), (&now.0, now.1)) {
                flag(&mut out.viol, &c, format!("{w} {at}"));
            }
            if let MOp::AddPeer(p) = op {
                out.hits.push(add_peer_hit(*p, &prev.0));
                if prev.0[*p].is_none() {
                    late_only[g] = false;
                }
                for (c, w) in add_peer_classes(*p, &prev.0, &now.0) {
                    flag(&mut out.viol, &c, format!("{w} {at}"));
                }
            }
            prev = now;
            out.lines[g].push((op.line(g), mgr_answer(&mgr, names)));
        }
        out.views.push(prev);
    }
    // managers that registered only members they had already learned received the same updates
    // and generated none of their own: identical health and incarnation for every member
    let hi = |g: usize| -> Vec<Option<(usize, u64)>> { out.views[g].0.iter().map(|e| e.map(|e| (e.0, e.2))).collect() };
    let late: Vec<usize> = (0..n).filter(|&g| late_only[g]).collect();
    out.targets = if late.len() >= 2 && late.iter().any(|&g| !sc.regs[g].is_empty()) { 1 } else { 0 };
    'pairs: for (a, &i) in late.iter().enumerate() {
        for &j in &late[a + 1..] {
            if hi(i) != hi(j) {
                let mm = (0..K).find(|&mm| hi(i)[mm] != hi(j)[mm]).unwrap_or(0);
                flag(
                    &mut out.viol,
                    &format!("{ADD_PEER_SITE}/managers_diverge_on_registration_point"),
                    format!(
                        "managers {i} and {j} handled the same messages in the same order and called add_peer only for members their view already held (at different points / not at all); they record member {mm} as {} and {}",
                        reg_txt(out.views[i].0[mm]),
                        reg_txt(out.views[j].0[mm])
                    ),
                );
                break 'pairs;
            }
        }
    }
    out
}

fn afails(sc: &AScript, names: &[String], class: &str) -> bool {
    arun(sc, names).viol.iter().any(|(c, _)| c == class)
}

fn areport(rep: &mut Report, stream: &str, case: &str, sc: &AScript, names: &[String], class: &str) {
    if rep.violations.iter().filter(|v| v["class"] == class).count() >= 4 {
        return;
    }
    let mut cur = sc.clone();
    let n = cur.regs.len();
    let mut done = false;
    for i in 0..n {
        let cand = cur.only(&[i]);
        if afails(&cand, names, class) {
            cur = cand;
            done = true;
            break;
        }
    }
    if !done && n > 2 {
        'two: for i in 0..n {
            for j in (i + 1)..n {
                let cand = cur.only(&[i, j]);
                if afails(&cand, names, class) {
                    cur = cand;
                    break 'two;
                }
            }
        }
    }
    let idx: Vec<usize> = (0..cur.msgs.len()).collect();
    let kept = shrink_list(&idx, &mut |keep: &[usize]| afails(&cur.with_msgs(keep), names, class));
    cur = cur.with_msgs(&kept);
    for g in 0..cur.regs.len() {
        if cur.regs[g].len() > 1 {
            let rs = cur.regs[g].clone();
            let kept = shrink_list(&rs, &mut |keep: &[(usize, usize)]| afails(&cur.with_regs(g, keep), names, class));
            cur = cur.with_regs(g, &kept);
        }
    }
    // entries of Sync batches
    for i in 0..cur.msgs.len() {
        if let MOp::Sync(s, t, b) = cur.msgs[i].clone() {
            if b.len() > 1 {
                let kept = shrink_list(&b, &mut |keep: &[Upd]| {
                    let mut c = cur.clone();
                    c.msgs[i] = MOp::Sync(s, t, keep.to_vec());
                    afails(&c, names, class)
                });
                cur.msgs[i] = MOp::Sync(s, t, kept);
            }
        }
    }
    let run = arun(&cur, names);
    let what = run.viol.iter().find(|(c, _)| c == class).map(|(_, w)| w.clone()).unwrap_or_default();
    let hist: Vec<Value> = (0..cur.regs.len()).map(|g| json!(run.lines[g].iter().map(|(l, a)| if a.is_empty() { l.clone() } else { format!("{l}  ->  {a}") }).collect::<Vec<_>>())).collect();
    let views: Vec<String> = run.views.iter().map(|(v, c)| view_txt(*c, v)).collect();
    rep.violation_capped(
        class,
        &what,
        json!({"stream": stream, "case": case, "managers": cur.regs.len(), "local_node": MVS_LOCAL, "max_incarnation_delta": cur.delta,
               "history_per_manager": hist, "final_views": views,
               "messages_before_shrinking": sc.msgs.len(), "managers_before_shrinking": sc.regs.len()}),
    );
}

fn acase(rep: &mut Report, m: &mut Model, stream: &str, case: &str, sc: &AScript, names: &[String]) {
    let run = arun(sc, names);
    let mut live = true;
    for g in 0..sc.regs.len() {
        for (i, (line, imp)) in run.lines[g].iter().enumerate() {
            if imp.is_empty() {
                m.ask(line); // mgr_new
                continue;
            }
            if live {
                let ans = strip_mgr(&m.ask(line));
                live = rep.compare(stream, || json!({"case": case, "max_incarnation_delta": sc.delta, "history": run.lines[g][..=i].iter().map(|x| x.0.clone()).collect::<Vec<_>>()}), imp, &ans);
                if !live {
                    rep.hit("reg.real_only_after_divergence");
                }
            }
        }
    }
    for h in &run.hits {
        rep.hit(h);
    }
    rep.hit_n("reg.cases_checked_for_registration_point_independence", run.targets as u64);
    for (class, _) in &run.viol {
        areport(rep, stream, case, sc, names, class);
    }
    let key = format!("{case}|{}", (0..sc.regs.len()).map(|g| run.lines[g].iter().map(|x| x.0.clone()).collect::<Vec<_>>().join("/")).collect::<Vec<_>>().join("||"));
    rep.case(stream, if run.targets > 0 { Some(&key) } else { None });
}

fn directed_add_peer(rep: &mut Report, m: &mut Model, names: &[String]) {
    let rt = tokio::runtime::Builder::new_current_thread().build().unwrap();
    let _guard = rt.enter();
    let stream = "mgr.late_add_peer.directed";
    let s = MVS_SENDER;
    let mut cases: Vec<(String, AScript)> = vec![];
    // the minimal history: one Sync from a third node tells of member 2, then member 2 is registered
    // (manager 0 never registers it, manager 2 registered it before the Sync)
    for (hn, h) in [("healthy", 'H'), ("degraded", 'D'), ("failed", 'F'), ("unknown", 'U')] {
        for inc in [0u64, 1, 2] {
            cases.push((
                format!("learned_{hn}_at_{inc}_by_sync_then_registered"),
                AScript { delta: 100, msgs: vec![MOp::Sync(s, 50, vec![up(2, h, 50, inc)])], regs: vec![vec![], vec![(1, 2)], vec![(0, 2)]] },
            ));
            // ... with more traffic: registered right away / after a Suspect of it and news of others / twice / never
            cases.push((
                format!("learned_{hn}_at_{inc}_registered_early_late_twice_never"),
                AScript {
                    delta: 100,
                    msgs: vec![
                        MOp::Sync(s, 0, vec![up(2, h, 1, inc), up(1, 'H', 2, 0)]),
                        MOp::Suspect(2, inc),
                        MOp::Sync(s, 3, vec![up(0, 'F', 9, 0)]),
                        MOp::Sync(1, 4, vec![up(2, h, 1, inc)]),
                    ],
                    regs: vec![vec![], vec![(1, 2)], vec![(4, 2)], vec![(2, 2), (3, 2), (4, 0), (4, 1)]],
                },
            ));
        }
    }
    // learned because the member itself sent a Sync (the receiver stamps the sender Healthy)
    cases.push((
        "learned_as_the_sender_of_a_sync_then_registered".into(),
        AScript { delta: 100, msgs: vec![MOp::Sync(2, 5, vec![]), MOp::Sync(s, 1, vec![up(1, 'D', 3, 0)])], regs: vec![vec![], vec![(1, 2)], vec![(2, 2), (2, 1)], vec![(2, s)]] },
    ));
    // failed by gossip, registered, then the same Failed news again and a stale Healthy one
    cases.push((
        "failed_member_registered_between_redeliveries".into(),
        AScript {
            delta: 100,
            msgs: vec![MOp::Sync(s, 7, vec![up(2, 'F', 7, 0)]), MOp::Sync(s, 7, vec![up(2, 'F', 7, 0)]), MOp::Sync(1, 2, vec![up(2, 'H', 2, 0)])],
            regs: vec![vec![], vec![(1, 2)], vec![(2, 2)], vec![(3, 2)]],
        },
    ));
    // refuted to incarnation 1 by an Alive, registered afterwards; the local node registered as its own peer
    cases.push((
        "refuted_member_and_the_local_node_registered".into(),
        AScript {
            delta: 100,
            msgs: vec![MOp::Sync(s, 2, vec![up(0, 'D', 2, 0)]), MOp::Alive(0, 1), MOp::Suspect(0, 1)],
            regs: vec![vec![], vec![(2, 0)], vec![(3, 0), (3, MVS_LOCAL)], vec![(1, 0), (1, MVS_LOCAL)]],
        },
    ));
    // the Sync is refused by the jump limit: the member is NOT in the view, add_peer enters the placeholder
    cases.push((
        "state_refused_by_the_jump_limit_then_registered".into(),
        AScript { delta: 1, msgs: vec![MOp::Sync(s, 4, vec![up(2, 'H', 4, 3), up(1, 'H', 4, 1)])], regs: vec![vec![], vec![(1, 2)], vec![(1, 1)]] },
    ));
    for (name, sc) in cases {
        acase(rep, m, stream, &name, &sc, names);
        rep.hit("reg.directed_scripts");
    }
}

fn add_peer_stream(rep: &mut Report, m: &mut Model, names: &[String], root: &Rng, cases: u64) {
    let rt = tokio::runtime::Builder::new_current_thread().build().unwrap();
    let _guard = rt.enter();
    let stream = "mgr.late_add_peer";
    let mut r = root.fork("mgr.late_add_peer");
    for case in 0..cases {
        let n = 2 + r.below(3) as usize;
        let members = 1 + r.below(3) as usize;
        let delta: u64 = if r.chance(1, 5) { 2 } else { 100 };
        let nmsgs = 2 + r.below(8) as usize;
        let mut msgs: Vec<MOp> = vec![];
        // first message that can put member mm into the view
        let mut first: Vec<Option<usize>> = vec![None; members];
        for k in 0..nmsgs {
            let mm = r.below(members as u64) as usize;
            let small_inc = |r: &mut Rng| if r.chance(2, 3) { 0 } else { 1 + r.below(2) };
            let op = match r.below(10) {
                0..=5 => {
                    let from = if r.chance(1, 4) { r.below(members as u64) as usize } else { MVS_SENDER };
                    let b: Vec<Upd> = (0..r.below(3) + if from == MVS_SENDER { 1 } else { 0 })
                        .map(|_| Upd { m: r.below(members as u64) as usize, h: r.below(4) as usize, ts: r.below(5) + if r.chance(1, 3) { 3 * k as u64 + 10 } else { 0 }, inc: small_inc(&mut r) })
                        .collect();
                    MOp::Sync(from, r.below(6) + if r.chance(1, 3) { 20 } else { 0 }, b)
                }
                6 | 7 => MOp::Suspect(mm, small_inc(&mut r)),
                _ => MOp::Alive(mm, 1 + r.below(2)),
            };
            if let MOp::Sync(from, _, b) = &op {
                for x in 0..members {
                    if first[x].is_none() && (*from == x || b.iter().any(|u| u.m == x)) {
                        first[x] = Some(k);
                    }
                }
            }
            msgs.push(op);
        }
        let mut regs: Vec<Vec<(usize, usize)>> = vec![vec![]];
        for _ in 1..n {
            let mut rs = vec![];
            for _ in 0..1 + r.below(3) {
                let mm = r.below(members as u64) as usize;
                let pos = match first[mm] {
                    Some(f) if !r.chance(1, 6) => f + 1 + r.below((nmsgs - f) as u64) as usize,
                    _ => r.below(nmsgs as u64 + 1) as usize,
                };
                rs.push((pos, mm));
            }
            regs.push(rs);
        }
        let sc = AScript { delta, msgs, regs };
        acase(rep, m, stream, &format!("seeded case {case}"), &sc, names);
        if case == 0 {
            rep.sample(json!({"stream": stream, "managers": n, "messages": sc.msgs.iter().map(|e| e.line(0)).collect::<Vec<_>>(), "add_peer_before_message(position, member)_per_manager": sc.regs}));
        }
    }
}

fn main() {
    let args = parse_args();
    let mut rep = Report::new(
        "exhaustive small-scope enumeration (every multiset of the stated update universe x every distinct \
         permutation x every batching) + seeded random histories; a case is non-trivial when at least two \
         distinct updates/events target the same member (a conflict the CRDT has to resolve); distinct = \
         distinct canonical multiset / history text",
    );
    rep.expected_branches = [
        "merge.insert_new", "merge.superseded", "merge.tie_broken_by_health", "merge.ignored", "merge.empty_batch",
        "suspect.true", "suspect.false", "fail.true", "fail.false", "refute.true", "refute.false",
        "mark_healthy.true", "mark_healthy.false", "update_local.fresh", "update_local.raise",
        "tick", "sync_time.ahead_of_clock", "sync_time.behind_clock",
        "mgr.sync", "mgr.sync.rejected_delta", "mgr.suspect.remote", "mgr.suspect.self", "mgr.suspect.already_pending",
        "mgr.alive.refuted", "mgr.alive.ignored", "mgr.alive.rejected_delta", "mgr.add_peer",
        "reg.add_peer.on_absent", "reg.add_peer.on_healthy.inc0", "reg.add_peer.on_healthy.inc_ge1", "reg.add_peer.on_degraded.inc0",
        "reg.add_peer.on_degraded.inc_ge1", "reg.add_peer.on_failed.inc0", "reg.add_peer.on_failed.inc_ge1", "reg.add_peer.on_unknown.inc0",
        "reg.add_peer.on_unknown.inc_ge1",
        "cluster.add_peer", "cluster.round", "cluster.round.no_targets", "cluster.round.suspicion_expired",
        "cluster.round.several_suspicions_expired", "cluster.round.view_truncated", "cluster.round.timestamp_tie_at_the_cut",
        "cluster.suspect_node", "cluster.suspect_node.degraded", "cluster.deliver.sync", "cluster.deliver.sync_to_its_own_sender",
        "cluster.deliver.suspect", "cluster.deliver.suspect_about_self", "cluster.deliver.alive", "cluster.deliver.alive.refuted",
        "cluster.ping_ack.success", "cluster.ping_ack.failure", "cluster.ping_ack.marked_healthy", "cluster.member_recorded_failed",
        "cluster.exchange_checked",
        "rvs.refute.on_healthy", "rvs.refute.on_degraded", "rvs.refute.on_failed", "rvs.refute.on_unknown", "rvs.refute.on_absent",
        "rvs.refute.on_healthy.not_higher", "rvs.members_checked_for_order_independence",
        "mvs.alive.on_healthy", "mvs.alive.on_degraded", "mvs.alive.on_failed", "mvs.alive.on_unknown", "mvs.alive.on_absent",
        "mvs.alive.rejected_delta", "mvs.members_checked_for_order_independence",
        "cluster.deliver.alive.member_seen_healthy",
    ]
    .iter()
    .map(|s| s.to_string())
    .collect();
    rep.expected_branches.extend(hlc_expected_branches());
    let names: Vec<String> = (0..K).map(|i| format!("n{i}")).collect();
    let mut m = Model::spawn(&args.driver);
    let root = Rng::new(args.seed);
    let t_start = std::time::Instant::now();

    // ---------------------------------------------------------------- corpus (run first)
    corpus_stream(&mut rep, &mut m, &names);
    {
        let t0 = std::time::Instant::now();
        hlc_directed(&mut rep, &mut m);
        hlc_saturation(&mut rep, &mut m);
        rep.note(&format!("hlc.directed: {:.2}s", t0.elapsed().as_secs_f64()));
    }
    directed_unsorted(&mut rep, &mut m, &names);
    directed_refute(&mut rep, &mut m, &names);
    directed_manager(&mut rep, &mut m, &names);
    directed_alive_mgr(&mut rep, &mut m, &names);
    directed_add_peer(&mut rep, &mut m, &names);
    {
        let rt = tokio::runtime::Builder::new_current_thread().build().unwrap();
        let _guard = rt.enter();
        cluster_directed(&mut rep, &mut m, &names, &rt);
    }

    // ---------------------------------------------------------------- exhaustive streams
    {
        // (members, values of inc/ts, sizes, model_every)
        let mut plans: Vec<(&str, usize, Vec<u64>, Vec<usize>, u64)> = vec![
            ("exh.m3.v012.n1-3", 3, vec![0, 1, 2], vec![1, 2, 3], 2),
            ("exh.m1.v012.n4", 1, vec![0, 1, 2], vec![4], 2),
            ("exh.m2.v01.n4", 2, vec![0, 1], vec![4], 2),
        ];
        if args.thorough {
            plans.push(("exh.m3.v01.n4", 3, vec![0, 1], vec![4], 4));
            plans.push(("exh.m2.v012.n4", 2, vec![0, 1, 2], vec![4], 16));
            plans.push(("exh.m1.v01.n5", 1, vec![0, 1], vec![5], 1));
        }
        for (stream, members, vals, sizes, every) in plans {
            let t0 = std::time::Instant::now();
            let mut e = Exh::new(&names, members, &vals, stream);
            for n in sizes {
                e.all_of_size(n, &mut rep, &mut m, every);
            }
            e.finish(&mut rep);
            rep.note(&format!(
                "{stream}: {} multisets, {} delivery sequences, {} real merge calls, {} model lines, {:.1}s",
                e.multisets, e.sequences, e.merges, e.model_lines, t0.elapsed().as_secs_f64()
            ));
        }
    }

    {
        let t0 = std::time::Instant::now();
        let maxlen = if args.thorough { 4 } else { 3 };
        exhaustive_local(&mut rep, &mut m, &names, maxlen);
        rep.note(&format!("exh.local (32-op alphabet on one member, every sequence up to length {maxlen}): {:.1}s", t0.elapsed().as_secs_f64()));
    }

    // ---------------------------------------------------------------- random histories
    let scale: u64 = if args.thorough { 12 } else { 1 };
    {
        let mut r = root.fork("lww.random");
        for case in 0..1500 * scale {
            m.ask("reset");
            let nrep = 3usize;
            let members = 2 + r.below(3) as usize; // 2..4
            let maxv = 1 + r.below(3); // inc/ts in 0..=maxv
            let mut reps: Vec<LWWMembershipState> = (0..nrep).map(|_| LWWMembershipState::new()).collect();
            let nops = 10 + r.below(50) as usize;
            let mut hist: Vec<String> = Vec::new();
            let mut seen: Vec<Vec<Upd>> = vec![Vec::new(); nrep];
            let mut conflict = false;
            let mut ok = true;
            for _ in 0..nops {
                let rr = r.below(nrep as u64) as usize;
                let mm = r.below(members as u64) as usize;
                let cur = current_inc(&reps[rr], &names[mm]);
                let op = match r.below(13) {
                    12 => {
                        if r.chance(1, 2) {
                            Op::Tick(rr)
                        } else {
                            Op::SyncTime(rr, r.below(2 * maxv + 6))
                        }
                    }
                    0..=2 => {
                        let n = r.below(5) as usize;
                        Op::Merge(rr, (0..n).map(|_| gen_upd(&mut r, members, maxv)).collect())
                    }
                    3 | 4 => {
                        // real gossip: (part of) another replica's registers
                        let from = (rr + 1 + r.below(nrep as u64 - 1) as usize) % nrep;
                        let k = 1 + r.below(4) as usize;
                        let mut g = to_upds(&reps[from].states_for_gossip(k), &names);
                        g.sort();
                        Op::Merge(rr, g)
                    }
                    5 | 6 => Op::Suspect(rr, mm, if r.chance(3, 4) { cur.unwrap_or(0) } else { r.below(maxv + 2) }),
                    7 => Op::Fail(rr, mm),
                    8 | 9 => Op::Refute(rr, mm, cur.unwrap_or(0) + r.below(3)),
                    10 => Op::MarkHealthy(rr, mm),
                    _ => Op::UpdateLocal(rr, mm, r.below(4) as usize, cur.map_or(r.below(maxv + 1), |c| c + r.below(2))),
                };
                let line = op.line();
                hist.push(line.clone());
                let before = (cview(&reps[rr], &names), reps[rr].lamport_time());
                let imp = apply_real(&mut reps, &op, &names);
                let after = (cview(&reps[rr], &names), reps[rr].lamport_time());
                seen[rr].extend(emitted_real(&op, &imp, &after.0));
                // branch accounting from the implementation's own outputs
                match &op {
                    Op::Merge(_, b) => {
                        if b.is_empty() {
                            rep.hit("merge.empty_batch");
                        }
                        for u in b {
                            let tag = match (before.0[u.m], after.0[u.m]) {
                                (None, _) => "merge.insert_new",
                                (Some(b0), Some(a0)) if a0 == (u.h, u.ts, u.inc) && b0 != a0 => {
                                    if b0.1 == u.ts && b0.2 == u.inc { "merge.tie_broken_by_health" } else { "merge.superseded" }
                                }
                                _ => "merge.ignored",
                            };
                            if b.len() == 1 {
                                rep.hit(tag);
                            }
                            if before.0[u.m].is_some() {
                                conflict = true;
                            }
                        }
                    }
                    Op::UpdateLocal(_, mm, ..) => {
                        rep.hit(if before.0[*mm].is_none() { "update_local.fresh" } else { "update_local.raise" });
                        conflict |= before.0[*mm].is_some();
                    }
                    Op::Tick(_) => rep.hit("tick"),
                    Op::SyncTime(_, t) => rep.hit(if *t > before.1 { "sync_time.ahead_of_clock" } else { "sync_time.behind_clock" }),
                    _ => {
                        let res = imp.starts_with("true");
                        rep.hit(&format!("{}.{}", op.name(), res));
                        conflict |= res;
                    }
                }
                let h = hist.clone();
                mono_oracles(&mut rep, "tensor_chain.gossip", op.name(), (&before.0, before.1), (&after.0, after.1), &|| json!({"history": h}));
                refute_oracle(&mut rep, &op, &before.0, &after.0, &|| json!({"stream": "lww.random", "history": h}));
                // the model is asked until the first disagreement; the real replicas and every
                // oracle on them keep running to the end of the history
                if ok {
                    let ans = m.ask(&line);
                    if !rep.compare("lww.random", || json!({"history": hist}), &imp, &ans) {
                        ok = false;
                        rep.hit("random.real_only_after_divergence");
                    }
                }
            }
            {
                for rr in 0..nrep {
                    let mut sn = seen[rr].clone();
                    r.shuffle(&mut sn);
                    let h = hist.clone();
                    seen_oracle(&mut rep, &sn, &cview(&reps[rr], &names), &names, &|| json!(h));
                }
                rep.hit("random.join_of_seen_checked");
            }
            let hkey = hist.join("/");
            rep.case("lww.random", if conflict { Some(&hkey) } else { None });
            if case < 2 {
                rep.sample(json!({"stream": "lww.random", "history": hist[..hist.len().min(12)]}));
            }
        }
    }

    // ---------------------------------------------------------------- unsorted batches, local events, re-deliveries
    {
        let t0 = std::time::Instant::now();
        unsorted_stream(&mut rep, &mut m, &names, &root, 2000 * scale);
        rep.note(&format!("unsorted_batches: {:.1}s", t0.elapsed().as_secs_f64()));
    }

    // ---------------------------------------------------------------- a refutation against old news, in every order
    {
        let t0 = std::time::Instant::now();
        refute_stream(&mut rep, &mut m, &names, &root, 1500 * scale);
        alive_stream(&mut rep, &mut m, &names, &root, 800 * scale);
        add_peer_stream(&mut rep, &mut m, &names, &root, 600 * scale);
        rep.note(&format!("refute_vs_stale + mgr.alive_vs_stale: {:.1}s", t0.elapsed().as_secs_f64()));
    }

    // ---------------------------------------------------------------- hybrid logical clock histories
    {
        let t0 = std::time::Instant::now();
        hlc_stream(&mut rep, &mut m, &root, 3000 * scale);
        rep.note(&format!("hlc.random: {:.1}s", t0.elapsed().as_secs_f64()));
    }

    // ---------------------------------------------------------------- multi-node system runs
    {
        let mut r = root.fork("lww.system");
        for case in 0..600 * scale {
            m.ask("reset");
            let n = 2 + r.below(3) as usize; // 2..4 nodes = members = replicas
            let mut reps: Vec<LWWMembershipState> = (0..n).map(|_| LWWMembershipState::new()).collect();
            let mut announced = vec![0u64; n];
            let mut alive: Vec<(usize, u64)> = Vec::new();
            let mut hist: Vec<String> = Vec::new();
            let live = std::cell::Cell::new(true);
            let run = |op: Op, reps: &mut Vec<LWWMembershipState>, hist: &mut Vec<String>, rep: &mut Report, m: &mut Model| {
                let line = op.line();
                hist.push(line.clone());
                let rr = op.replica();
                let before = (cview(&reps[rr], &names), reps[rr].lamport_time());
                let imp = apply_real(reps, &op, &names);
                let after = (cview(&reps[rr], &names), reps[rr].lamport_time());
                let h = hist.clone();
                mono_oracles(rep, "tensor_chain.gossip", op.name(), (&before.0, before.1), (&after.0, after.1), &|| json!({"history": h}));
                refute_oracle(rep, &op, &before.0, &after.0, &|| json!({"stream": "lww.system", "history": h}));
                if !matches!(op, Op::Merge(..) | Op::UpdateLocal(..)) {
                    rep.hit(&format!("{}.{}", op.name(), imp.starts_with("true")));
                }
                // model asked until the first disagreement only; the real run and its oracles go on
                if live.get() {
                    let ans = m.ask(&line);
                    if !rep.compare("lww.system", || json!({"history": hist}), &imp, &ans) {
                        live.set(false);
                        rep.hit("system.real_only_after_divergence");
                    }
                }
            };
            for i in 0..n {
                run(Op::UpdateLocal(i, i, 0, 0), &mut reps, &mut hist, &mut rep, &mut m);
            }
            let nops = 20 + r.below(60) as usize;
            for _ in 0..nops {
                let rr = r.below(n as u64) as usize;
                let mm = r.below(n as u64) as usize;
                let cur = current_inc(&reps[rr], &names[mm]);
                match r.below(10) {
                    0 => {
                        // member mm refutes: bumps its own counter, Alive goes in flight
                        announced[mm] += 1;
                        alive.push((mm, announced[mm]));
                        hist.push(format!("# announce {mm} -> {}", announced[mm]));
                        rep.hit("system.announce");
                        continue;
                    }
                    1 | 2 if !alive.is_empty() => {
                        let (am, ai) = *r.pick(&alive);
                        run(Op::Refute(rr, am, ai), &mut reps, &mut hist, &mut rep, &mut m);
                    }
                    3..=5 => {
                        let from = (rr + 1 + r.below(n as u64 - 1) as usize) % n;
                        let k = 1 + r.below(n as u64) as usize;
                        let mut g = to_upds(&reps[from].states_for_gossip(k), &names);
                        r.shuffle(&mut g);
                        run(Op::Merge(rr, g), &mut reps, &mut hist, &mut rep, &mut m);
                    }
                    6 | 7 => run(Op::Suspect(rr, mm, cur.unwrap_or(0)), &mut reps, &mut hist, &mut rep, &mut m),
                    8 => run(Op::Fail(rr, mm), &mut reps, &mut hist, &mut rep, &mut m),
                    _ => run(Op::MarkHealthy(rr, mm), &mut reps, &mut hist, &mut rep, &mut m),
                }
                // oracle: nobody records (in particular: fails) m at an incarnation m never announced
                for (ri, rp) in reps.iter().enumerate() {
                    let v = cview(rp, &names);
                    for mm in 0..n {
                        if let Some((h, _, inc)) = v[mm] {
                            if inc > announced[mm] {
                                let class = if h == 2 { "tensor_chain.gossip/failed_above_announced_incarnation" } else { "tensor_chain.gossip/recorded_above_announced_incarnation" };
                                rep.violation_capped(class, &format!("replica {ri} records member {mm} at incarnation {inc} > announced {}", announced[mm]), json!({"history": hist}));
                            }
                            if h == 2 {
                                rep.hit("system.failed_register_checked");
                            }
                        }
                    }
                }
            }
            // anti-entropy: everybody receives everybody's registers (two different orders) => identical views
            {
                let mut union: Vec<Upd> = Vec::new();
                for rp in &reps {
                    union.extend(to_upds(&all_real(rp), &names));
                }
                for i in 0..n {
                    let mut u = union.clone();
                    r.shuffle(&mut u);
                    if i % 2 == 0 {
                        run(Op::Merge(i, u), &mut reps, &mut hist, &mut rep, &mut m);
                    } else {
                        let cut = r.below(u.len() as u64 + 1) as usize;
                        run(Op::Merge(i, u[..cut].to_vec()), &mut reps, &mut hist, &mut rep, &mut m);
                        run(Op::Merge(i, u[cut..].to_vec()), &mut reps, &mut hist, &mut rep, &mut m);
                    }
                }
                let v0 = cview(&reps[0], &names);
                for i in 1..n {
                    let vi = cview(&reps[i], &names);
                    if let Some((mm, tie)) = diff_kind(&v0, &vi) {
                        let class = if tie { "tensor_chain.gossip.merge/order_dependent_tie" } else { "tensor_chain.gossip.merge/order_dependent" };
                        rep.violation_capped(class, &format!("after a full exchange replicas 0 and {i} differ on member {mm}"), json!({"history": hist, "view_0": regs_txt(&v0), "view_i": regs_txt(&vi)}));
                    }
                }
                rep.hit("system.anti_entropy_checked");
            }
            rep.case("lww.system", Some(&hist.join("/")));
            if case == 0 {
                rep.sample(json!({"stream": "lww.system", "history": hist[..hist.len().min(14)]}));
            }
        }
    }

    // ---------------------------------------------------------------- update_local outside its precondition
    {
        // `update_local` inserts unconditionally: with a lower incarnation than recorded it moves the
        // incarnation backwards.  Production code calls it only on an empty state (manager constructors),
        // and the property's quantifier lists suspect/fail/refute/mark_healthy as the local events, so
        // this is recorded as an observation, and as the Lean witness `updateLocal_inc_decrease_witness`.
        let mut st = LWWMembershipState::new();
        st.update_local(names[1].clone(), NodeHealth::Healthy, 5);
        st.update_local(names[1].clone(), NodeHealth::Healthy, 0);
        let inc = st.get(&names[1]).map(|s| s.incarnation);
        m.ask("reset");
        m.ask("update_local 0 1 H 5");
        let ans = m.ask("update_local 0 1 H 0");
        let imp = format!("H:2:0 | {}", view_txt(st.lamport_time(), &cview(&st, &names)));
        rep.compare("lww.update_local_lowering", || json!({"ops": ["update_local 0 1 H 5", "update_local 0 1 H 0"]}), &imp, &ans);
        rep.case("lww.update_local_lowering", None);
        if inc == Some(0) {
            rep.observe(json!({
                "what": "LWWMembershipState::update_local(node, health, inc) with inc below the recorded incarnation lowers the recorded incarnation (unconditional insert); only reachable through the public CRDT API, not through GossipMembershipManager (constructors call it on an empty state)",
                "ops": ["update_local n1 Healthy 5", "update_local n1 Healthy 0"],
                "recorded_incarnation_after": 0,
                "class_if_counted": "tensor_chain.gossip/update_local_incarnation_decreased"
            }));
        }
    }

    // ---------------------------------------------------------------- manager streams
    manager_streams(&args, &root, &mut rep, &mut m, &names, scale);

    // ---------------------------------------------------------------- cluster of real managers
    {
        let t0 = std::time::Instant::now();
        let rt = tokio::runtime::Builder::new_current_thread().build().unwrap();
        let _guard = rt.enter();
        cluster_stream(&mut rep, &mut m, &names, &root, &rt, 500 * scale);
        rep.note(&format!("cluster: {:.1}s", t0.elapsed().as_secs_f64()));
    }

    rep.note(&format!("corr_gossip wall {:.1}s", t_start.elapsed().as_secs_f64()));
    rep.note("u64 lamport/incarnation counters modelled as Nat (no overflow within 2^64 ticks)");
    rep.note("manager streams: suspicion timers as time (the cluster stream uses suspicion_timeout_ms 0 or never), target selection, flap tracking, signing, ping-req forwarding and transport failures are not modelled; compared: the CRDT effects of Sync/Suspect/Alive/PingAck/add_peer/gossip_round/suspect_node and the Sync/Suspect/Alive handed to the transport");
    rep.write(&args.out);
}

/// what the op fed into replica `r` (the batch, or the register a successful local event wrote)
fn emitted_real(op: &Op, imp_answer: &str, after: &CView) -> Vec<Upd> {
    match op {
        Op::Merge(_, b) => b.clone(),
        Op::UpdateLocal(_, m, ..) => after[*m].map(|(h, ts, inc)| vec![Upd { m: *m, h, ts, inc }]).unwrap_or_default(),
        Op::Suspect(_, m, _) | Op::Fail(_, m) | Op::Refute(_, m, _) | Op::MarkHealthy(_, m) => {
            if imp_answer.starts_with("true") {
                after[*m].map(|(h, ts, inc)| vec![Upd { m: *m, h, ts, inc }]).unwrap_or_default()
            } else {
                vec![]
            }
        }
        Op::Tick(_) | Op::SyncTime(..) => vec![],
    }
}

/// `view_is_join` evaluated on the implementation: a fresh real replica that merges everything
/// `seen` in one batch must hold exactly the registers of the replica that lived the history
fn seen_oracle(rep: &mut Report, seen: &[Upd], view: &CView, names: &[String], hist: &dyn Fn() -> Value) {
    let mut fresh = LWWMembershipState::new();
    let st: Vec<GossipNodeState> = seen.iter().map(|u| u.real(names)).collect();
    fresh.merge(&st);
    let fv = cview(&fresh, names);
    if let Some((m, tie)) = diff_kind(&fv, view) {
        let class = if tie { "tensor_chain.gossip/view_not_join_of_seen_tie" } else { "tensor_chain.gossip/view_not_join_of_seen" };
        rep.violation_capped(class, &format!("replica's register for member {m} is not the greatest of the updates it merged or generated"),
            json!({"history": hist(), "seen": batch_txt(seen), "view": regs_txt(view), "join_of_seen": regs_txt(&fv)}));
    }
}

/// every sequence of <= `maxlen` operations from a small alphabet on one real replica, op by op
/// against the model, with the monotonicity and join-of-seen oracles
fn exhaustive_local(rep: &mut Report, m: &mut Model, names: &[String], maxlen: usize) {
    let mut alpha: Vec<Op> = vec![];
    for h in 0..4 {
        for inc in [0u64, 1] {
            for ts in [0u64, 1, 3] {
                alpha.push(Op::Merge(0, vec![Upd { m: 0, h, ts, inc }]));
            }
        }
    }
    alpha.push(Op::Suspect(0, 0, 0));
    alpha.push(Op::Suspect(0, 0, 1));
    alpha.push(Op::Fail(0, 0));
    alpha.push(Op::Refute(0, 0, 1));
    alpha.push(Op::Refute(0, 0, 2));
    alpha.push(Op::MarkHealthy(0, 0));
    alpha.push(Op::UpdateLocal(0, 0, 0, 0));
    alpha.push(Op::UpdateLocal(0, 0, 1, 1));
    let a = alpha.len();
    let stream = format!("exh.local.len1-{maxlen}");
    let mut lines_sent = 0u64;
    for len in 1..=maxlen {
        let mut idx = vec![0usize; len];
        'seqs: loop {
            // run
            let mut reps = vec![LWWMembershipState::new()];
            let mut hist: Vec<String> = vec![];
            let mut seen: Vec<Upd> = vec![];
            let mut admissible = true;
            m.ask("reset");
            lines_sent += 1;
            for &i in &idx {
                let op = &alpha[i];
                if let Op::UpdateLocal(_, mm, _, inc) = op {
                    if current_inc(&reps[0], &names[*mm]).is_some_and(|c| c > *inc) {
                        admissible = false; // outside OpOk: observed separately
                        break;
                    }
                }
                let line = op.line();
                hist.push(line.clone());
                let before = (cview(&reps[0], names), reps[0].lamport_time());
                let imp = apply_real(&mut reps, op, names);
                let after = (cview(&reps[0], names), reps[0].lamport_time());
                let h = hist.clone();
                mono_oracles(rep, "tensor_chain.gossip", op.name(), (&before.0, before.1), (&after.0, after.1), &|| json!({"history": h}));
                refute_oracle(rep, op, &before.0, &after.0, &|| json!({"stream": "exh.local", "history": h}));
                seen.extend(emitted_real(op, &imp, &after.0));
                let ans = m.ask(&line);
                lines_sent += 1;
                rep.compare(&stream, || json!({"history": hist}), &imp, &ans);
            }
            if admissible {
                let v = cview(&reps[0], names);
                let h = hist.clone();
                seen_oracle(rep, &seen, &v, names, &|| json!(h));
                let key = hist.join("/");
                rep.case(&stream, if len >= 2 { Some(&key) } else { None });
            }
            // next index vector
            let mut k = len;
            loop {
                if k == 0 {
                    break 'seqs;
                }
                k -= 1;
                idx[k] += 1;
                if idx[k] < a {
                    break;
                }
                idx[k] = 0;
            }
        }
    }
    rep.hit_n(&format!("{stream}.model_lines"), lines_sent);
}

fn parse_upd(w: &str) -> Option<Upd> {
    let p: Vec<&str> = w.split(':').collect();
    if p.len() != 4 {
        return None;
    }
    let h = HL.iter().position(|c| p[1].len() == 1 && p[1].starts_with(*c))?;
    Some(Upd { m: p[0].parse().ok().filter(|m| *m < K)?, h, ts: p[2].parse().ok()?, inc: p[3].parse().ok()? })
}

/// corpus/C17/*.ops : `conv` scenarios (past failures, hand-written adversarial cases)
fn corpus_stream(rep: &mut Report, m: &mut Model, names: &[String]) {
    let mut files: Vec<_> = std::fs::read_dir("corpus/C17").map(|d| d.filter_map(|e| e.ok()).map(|e| e.path()).collect()).unwrap_or_else(|_| vec![]);
    files.sort();
    for f in files {
        if f.extension().and_then(|e| e.to_str()) != Some("ops") {
            continue;
        }
        let text = std::fs::read_to_string(&f).unwrap_or_default();
        for line in text.lines() {
            let line = line.trim();
            if line.is_empty() || line.starts_with('#') {
                continue;
            }
            let words: Vec<&str> = line.split_whitespace().collect();
            if words.first() != Some(&"conv") {
                rep.note(&format!("corpus line ignored: {line}"));
                continue;
            }
            let mut batches: Vec<Vec<Upd>> = vec![];
            let mut okp = true;
            for w in &words[1..] {
                if *w == "-" {
                    batches.push(vec![]);
                } else {
                    let b: Vec<Option<Upd>> = w.split(';').map(parse_upd).collect();
                    if b.iter().any(Option::is_none) {
                        okp = false;
                    }
                    batches.push(b.into_iter().flatten().collect());
                }
            }
            if !okp {
                rep.note(&format!("corpus line unparsable: {line}"));
                continue;
            }
            // as written: real vs model
            let mut r = LWWMembershipState::new();
            let mut ch = vec![];
            for b in &batches {
                let st: Vec<GossipNodeState> = b.iter().map(|u| u.real(names)).collect();
                ch.push(changed_txt(&r.merge(&st), names));
            }
            let v = cview(&r, names);
            let imp = format!("{} | {}", ch.join("/"), view_txt(r.lamport_time(), &v));
            let ans = m.ask(line);
            rep.compare("corpus", || json!({"file": f.display().to_string(), "line": line}), &imp, &ans);
            // every permutation x batching of the flattened updates must give the same registers
            let mut flat: Vec<Upd> = batches.iter().flatten().copied().collect();
            flat.sort();
            let n = flat.len();
            if n >= 1 && n <= 6 {
                let mut idx: Vec<usize> = (0..n).collect();
                // indices into `flat` (sorted, equal elements adjacent => distinct permutations of values)
                let mut keyed: Vec<usize> = idx.iter().map(|&i| flat.iter().position(|x| *x == flat[i]).unwrap()).collect();
                idx.clear();
                loop {
                    let states: Vec<GossipNodeState> = keyed.iter().map(|&i| flat[i].real(names)).collect();
                    for mask in 0..(1u32 << (n - 1)) {
                        let mut rr = LWWMembershipState::new();
                        for (a, b) in batches_of(n, mask) {
                            rr.merge(&states[a..b]);
                        }
                        let vv = cview(&rr, names);
                        if let Some((mm, tie)) = diff_kind(&vv, &v) {
                            let class = if tie { "tensor_chain.gossip.merge/order_dependent_tie" } else { "tensor_chain.gossip.merge/order_dependent" };
                            rep.violation_capped(class, "corpus scenario: a re-ordered / re-batched delivery of the same updates ends in different registers",
                                json!({"file": f.display().to_string(), "replica_A": line,
                                       "replica_B_batches": batches_of(n, mask).iter().map(|&(a, b)| batch_txt(&keyed[a..b].iter().map(|&i| flat[i]).collect::<Vec<_>>())).collect::<Vec<_>>(),
                                       "member": mm, "view_A": regs_txt(&v), "view_B": regs_txt(&vv)}));
                        }
                        rep.hit("corpus.delivery_sequences");
                    }
                    if !next_permutation(&mut keyed) {
                        break;
                    }
                }
            }
            rep.case("corpus", Some(line));
        }
    }
}

fn mgr_answer(g: &GossipMembershipManager, names: &[String]) -> String {
    format!("rej={} | {}", g.incarnation_rejected_count(), view_txt(g.lamport_time(), &cview_of_list(&g.membership_view(), names)))
}

/// drop the unobservable `own=.. sus=..` fields of the model's manager answer
fn strip_mgr(ans: &str) -> String {
    let mut parts = ans.splitn(2, " | ");
    let head = parts.next().unwrap_or("");
    let tail = parts.next().unwrap_or("");
    let rej = head.split(' ').next().unwrap_or("");
    format!("{rej} | {tail}")
}

#[derive(Clone, Debug)]
enum MOp {
    AddPeer(usize),
    Sync(usize, u64, Vec<Upd>),
    Suspect(usize, u64),
    Alive(usize, u64),
}

impl MOp {
    fn line(&self, g: usize) -> String {
        match self {
            MOp::AddPeer(p) => format!("mgr_add_peer {g} {p}"),
            MOp::Sync(s, t, b) => format!("mgr_sync {g} {s} {t} {}", batch_txt(b)),
            MOp::Suspect(mm, i) => format!("mgr_suspect {g} {mm} {i}"),
            MOp::Alive(mm, i) => format!("mgr_alive {g} {mm} {i}"),
        }
    }
    fn apply(&self, g: &GossipMembershipManager, names: &[String]) {
        match self {
            MOp::AddPeer(p) => g.add_peer(names[*p].clone()),
            MOp::Sync(s, t, b) => g.handle_gossip(GossipMessage::Sync {
                sender: names[*s].clone(),
                states: b.iter().map(|u| u.real(names)).collect(),
                sender_time: *t,
            }),
            MOp::Suspect(mm, i) => g.handle_gossip(GossipMessage::Suspect {
                reporter: names[K - 2].clone(),
                suspect: names[*mm].clone(),
                incarnation: *i,
            }),
            MOp::Alive(mm, i) => g.handle_gossip(GossipMessage::Alive { node_id: names[*mm].clone(), incarnation: *i }),
        }
    }
}

fn new_mgr(local: usize, max_delta: u64, names: &[String]) -> GossipMembershipManager {
    let cfg = GossipConfig { max_incarnation_delta: max_delta, geometric_routing: false, ..GossipConfig::default() };
    GossipMembershipManager::new(names[local].clone(), cfg, Arc::new(MemoryTransport::new(names[local].clone())))
}

/// directed manager scripts: a Sync whose `sender_time` is behind the timestamps of its own states
/// and whose states are not newest-first, a Suspect on a member received that way, the Sync again
fn directed_manager(rep: &mut Report, m: &mut Model, names: &[String]) {
    let rt = tokio::runtime::Builder::new_current_thread().build().unwrap();
    let _guard = rt.enter();
    let local = K - 1;
    let sender = K - 2;
    let scripts: Vec<(&str, Vec<MOp>)> = vec![
        (
            "sync_behind_its_states_then_suspect_then_sync_again",
            vec![
                MOp::Sync(sender, 0, vec![up(2, 'H', 3, 1), up(1, 'H', 9, 1)]),
                MOp::Suspect(1, 1),
                MOp::Sync(sender, 0, vec![up(2, 'H', 3, 1), up(1, 'H', 9, 1)]),
            ],
        ),
        (
            "sync_behind_its_states_then_suspect_then_late_update",
            vec![
                MOp::AddPeer(2),
                MOp::Sync(sender, 1, vec![up(2, 'H', 4, 0), up(0, 'D', 6, 0), up(1, 'H', 14, 2)]),
                MOp::Suspect(1, 2),
                MOp::Sync(sender, 2, vec![up(1, 'H', 12, 2)]),
            ],
        ),
    ];
    for (name, ops) in scripts {
        let g = new_mgr(local, 100, names);
        m.ask(&format!("mgr_new 0 {local} 100"));
        let mut lines: Vec<String> = vec![];
        let mut prev = (cview_of_list(&g.membership_view(), names), g.lamport_time());
        let mut seen_max: [Option<(u64, u64, usize)>; K] = [None; K];
        let mut suspected: [Option<(usize, u64, u64)>; K] = [None; K];
        for op in &ops {
            let line = op.line(0);
            lines.push(line.clone());
            op.apply(&g, names);
            let now = (cview_of_list(&g.membership_view(), names), g.lamport_time());
            let l = lines.clone();
            mono_oracles(rep, "tensor_chain.gossip.handle_gossip", "msg", (&prev.0, prev.1), (&now.0, now.1), &|| json!({"case": name, "history": l}));
            match op {
                MOp::Sync(_, _, b) => {
                    for mm in 0..sender {
                        let dominated = b.iter().any(|u| u.m == mm) && b.iter().filter(|u| u.m == mm).all(|u| seen_max[mm].is_some_and(|mx| ukey(u) <= mx));
                        if dominated && suspected[mm].is_some() && suspected[mm] == prev.0[mm] && now.0[mm] != prev.0[mm] {
                            rep.violation_capped(
                                "tensor_chain.gossip.handle_sync/local_event_lost_to_redelivery",
                                &format!("the manager's own Degraded verdict on member {mm} was replaced when a Sync of already-seen / older states was handled"),
                                json!({"case": name, "history": lines, "before": regs_txt(&prev.0), "after": regs_txt(&now.0)}),
                            );
                        }
                    }
                    for u in b {
                        if seen_max[u.m].map_or(true, |mx| ukey(u) > mx) {
                            seen_max[u.m] = Some(ukey(u));
                        }
                    }
                }
                MOp::Suspect(mm, _) => {
                    if now.0[*mm] != prev.0[*mm] {
                        suspected[*mm] = now.0[*mm];
                        if let Some(e) = now.0[*mm] {
                            if seen_max[*mm].map_or(true, |mx| vkey(e) > mx) {
                                seen_max[*mm] = Some(vkey(e));
                            }
                        }
                    }
                }
                _ => {}
            }
            prev = now;
            let imp = mgr_answer(&g, names);
            let ans = strip_mgr(&m.ask(&line));
            rep.compare("mgr.directed", || json!({"case": name, "history": lines}), &imp, &ans);
        }
        rep.case("mgr.directed", Some(name));
    }
}

fn manager_streams(_args: &Args, root: &Rng, rep: &mut Report, m: &mut Model, names: &[String], scale: u64) {
    // handle_suspect on the local node spawns a broadcast task: needs a runtime context (tasks never run)
    let rt = tokio::runtime::Builder::new_current_thread().build().unwrap();
    let _guard = rt.enter();
    let local = K - 1; // n5
    let sender = K - 2; // n4: sends the Sync messages, never a tracked member of the comparison

    // ---- mgr.conv: the same set of Sync messages in two different orders on two real managers
    let mut r = root.fork("mgr.conv");
    for case in 0..800 * scale {
        let members = 2 + r.below(2) as usize; // 2..3
        let maxv = 1 + r.below(2);
        let nmsg = 2 + r.below(4) as usize;
        let msgs: Vec<MOp> = (0..nmsg)
            .map(|_| {
                let n = 1 + r.below(3) as usize;
                MOp::Sync(sender, r.below(4), (0..n).map(|_| gen_upd(&mut r, members, maxv)).collect())
            })
            .collect();
        let mut order_b = msgs.clone();
        r.shuffle(&mut order_b);
        if r.chance(1, 3) {
            // repetition
            let dup = order_b[r.below(order_b.len() as u64) as usize].clone();
            order_b.push(dup);
        }
        let mut views: Vec<CView> = Vec::new();
        let mut lines_all: Vec<Vec<String>> = Vec::new();
        for (gi, order) in [msgs.clone(), order_b].iter().enumerate() {
            let g = new_mgr(local, 100, names);
            m.ask(&format!("mgr_new {gi} {local} 100"));
            let mut lines = vec![];
            let mut prev = (cview_of_list(&g.membership_view(), names), g.lamport_time());
            for op in order {
                let line = op.line(gi);
                lines.push(line.clone());
                op.apply(&g, names);
                rep.hit("mgr.sync");
                let imp = mgr_answer(&g, names);
                let now = (cview_of_list(&g.membership_view(), names), g.lamport_time());
                let l = lines.clone();
                mono_oracles(rep, "tensor_chain.gossip.handle_sync", "sync", (&prev.0, prev.1), (&now.0, now.1), &|| json!({"history": l}));
                prev = now;
                let ans = strip_mgr(&m.ask(&line));
                rep.compare("mgr.conv", || json!({"history": lines}), &imp, &ans);
            }
            views.push(cview_of_list(&g.membership_view(), names));
            lines_all.push(lines);
        }
        // members 0..members-1 only: the sender's own register carries the receiver-local "alive" stamp
        let (mut a, mut b) = (views[0], views[1]);
        a[sender] = None;
        b[sender] = None;
        if let Some((mm, tie)) = diff_kind(&a, &b) {
            let class = if tie { "tensor_chain.gossip.merge/order_dependent_tie" } else { "tensor_chain.gossip.handle_sync/order_dependent" };
            rep.violation_capped(class, &format!("two GossipMembershipManagers fed the same Sync set differ on member {mm}"),
                json!({"manager_A": lines_all[0], "manager_B": lines_all[1], "view_A": regs_txt(&a), "view_B": regs_txt(&b)}));
        }
        rep.case("mgr.conv", Some(&lines_all[0].join("/")));
        if case == 0 {
            rep.sample(json!({"stream": "mgr.conv", "manager_A": lines_all[0], "manager_B": lines_all[1]}));
        }
    }

    // ---- mgr.mixed: Sync / Suspect / Alive / add_peer against the model, op by op
    let mut r = root.fork("mgr.mixed");
    for case in 0..800 * scale {
        let small_delta = r.chance(1, 4);
        let max_delta: u64 = if small_delta { 2 } else { 100 };
        let g = new_mgr(local, max_delta, names);
        m.ask(&format!("mgr_new 0 {local} {max_delta}"));
        let members = 2 + r.below(3) as usize;
        let nops = 8 + r.below(30) as usize;
        let mut lines: Vec<String> = vec![];
        let mut pending: Vec<usize> = vec![]; // harness-side mirror only for branch accounting
        let mut live = true;
        let mut prev = (cview_of_list(&g.membership_view(), names), g.lamport_time(), g.incarnation_rejected_count());
        for _ in 0..nops {
            let mm = r.below(members as u64) as usize;
            let cur = prev.0[mm].map(|x| x.2);
            let op = match r.below(10) {
                0 => MOp::AddPeer(mm),
                1..=4 => {
                    let s = if r.chance(1, 2) { sender } else { r.below(members as u64) as usize };
                    let n = r.below(4) as usize;
                    let hi = if small_delta { 5 } else { 3 };
                    let mut b: Vec<Upd> = (0..n).map(|_| gen_upd(&mut r, members, hi)).collect();
                    if r.chance(1, 3) {
                        // states stamped around / ahead of the receiver's clock, `sender_time` left behind them
                        for u in &mut b {
                            u.ts = 2 * u.ts + prev.1.saturating_sub(1);
                        }
                        rep.hit("mgr.sync.states_ahead_of_sender_time");
                    }
                    MOp::Sync(s, r.below(6), b)
                }
                5 | 6 => MOp::Suspect(if r.chance(1, 8) { local } else { mm }, if r.chance(3, 4) { cur.unwrap_or(0) } else { r.below(3) }),
                _ => MOp::Alive(mm, cur.unwrap_or(0) + r.below(if small_delta { 5 } else { 3 })),
            };
            let line = op.line(0);
            lines.push(line.clone());
            op.apply(&g, names);
            let now = (cview_of_list(&g.membership_view(), names), g.lamport_time(), g.incarnation_rejected_count());
            match &op {
                MOp::AddPeer(p) => {
                    rep.hit("mgr.add_peer");
                    rep.hit(&add_peer_hit(*p, &prev.0));
                    for (c, w) in add_peer_classes(*p, &prev.0, &now.0) {
                        rep.violation_capped(&c, &w, json!({"stream": "mgr.mixed", "history": lines, "max_incarnation_delta": max_delta, "before": regs_txt(&prev.0), "after": regs_txt(&now.0)}));
                    }
                }
                MOp::Sync(s, ..) => {
                    rep.hit("mgr.sync");
                    if now.2 > prev.2 {
                        rep.hit("mgr.sync.rejected_delta");
                    }
                    pending.retain(|x| x != s);
                }
                MOp::Suspect(x, _) => {
                    if *x == local {
                        rep.hit("mgr.suspect.self");
                    } else if pending.contains(x) {
                        rep.hit("mgr.suspect.already_pending");
                    } else {
                        rep.hit("mgr.suspect.remote");
                        pending.push(*x);
                    }
                }
                MOp::Alive(x, _) => {
                    if now.2 > prev.2 {
                        rep.hit("mgr.alive.rejected_delta");
                    } else if now.0 != prev.0 {
                        rep.hit("mgr.alive.refuted");
                        pending.retain(|y| y != x);
                    } else {
                        rep.hit("mgr.alive.ignored");
                    }
                }
            }
            let l = lines.clone();
            mono_oracles(rep, "tensor_chain.gossip.handle_gossip", "msg", (&prev.0, prev.1), (&now.0, now.1), &|| json!({"history": l, "max_incarnation_delta": max_delta}));
            prev = now;
            let imp = mgr_answer(&g, names);
            if live {
                let ans = strip_mgr(&m.ask(&line));
                if !rep.compare("mgr.mixed", || json!({"history": lines, "max_incarnation_delta": max_delta}), &imp, &ans) {
                    live = false; // real manager + oracles continue without the model
                    rep.hit("mgr.real_only_after_divergence");
                }
            }
        }
        rep.case("mgr.mixed", Some(&lines.join("/")));
        if case == 0 {
            rep.sample(json!({"stream": "mgr.mixed", "history": lines[..lines.len().min(10)]}));
        }
    }
}

// ------------------------------------------------------------------ cluster of real managers

/// a CRDT-relevant gossip message captured from a manager's transport
#[derive(Clone, Debug, PartialEq, Eq)]
enum GMsg {
    Sync(usize, u64, Vec<Upd>),
    Suspect(usize, u64),
    Alive(usize, u64),
}

impl GMsg {
    fn txt(&self) -> String {
        match self {
            GMsg::Sync(s, t, b) => format!("sync/{s}/{t}/{}", batch_txt(b)),
            GMsg::Suspect(m, i) => format!("suspect/{m}/{i}"),
            GMsg::Alive(m, i) => format!("alive/{m}/{i}"),
        }
    }
    fn real(&self, names: &[String], reporter: usize) -> GossipMessage {
        match self {
            GMsg::Sync(s, t, b) => GossipMessage::Sync {
                sender: names[*s].clone(),
                states: b.iter().map(|u| u.real(names)).collect(),
                sender_time: *t,
            },
            GMsg::Suspect(m, i) => GossipMessage::Suspect { reporter: names[reporter].clone(), suspect: names[*m].clone(), incarnation: *i },
            GMsg::Alive(m, i) => GossipMessage::Alive { node_id: names[*m].clone(), incarnation: *i },
        }
    }
}

/// one step of a cluster script (replayable on fresh real managers: every delivery carries its message)
#[derive(Clone, Debug)]
enum COp {
    AddPeer(usize, usize),
    /// `gossip_round` at node r
    Round(usize),
    /// `suspect_node(m)` at node r
    SuspectNode(usize, usize),
    /// `handle_gossip(msg)` at node r — skipped on replay when no manager has sent `msg`
    Deliver(usize, GMsg),
    /// `handle_gossip(PingAck { target, success })` at node r
    PingAck(usize, usize, bool),
    /// a runs a round, b handles that Sync, b runs a round, a handles that Sync; then the
    /// exchange oracle: a and b agree on every member other than a and b
    Exchange(usize, usize),
}

#[derive(Clone, Copy, Debug)]
struct CCfg {
    n: usize,
    /// max_states_per_message
    k: usize,
    /// suspicion_timeout_ms = 0 (every pending suspicion expires at the next round) or never
    t0: bool,
    delta: u64,
}

struct Clu<'a> {
    names: &'a [String],
    cfg: CCfg,
    rt: &'a tokio::runtime::Runtime,
    nodes: Vec<GossipMembershipManager>,
    rx: Vec<Vec<tokio::sync::mpsc::Receiver<(String, tensor_chain::network::Message)>>>,
    /// does node r know a peer other than itself (otherwise nothing is ever sent)
    has_peer: Vec<bool>,
    /// every CRDT-relevant message any manager has handed to its transport so far
    net: Vec<GMsg>,
    last_sync: Vec<Option<GMsg>>,
    /// largest incarnation member m itself has put into an Alive
    announced: Vec<u64>,
    /// told[r][m]: largest incarnation of member m an Alive handled (and not refused) by node r announced
    told: Vec<[Option<u64>; K]>,
    viol: Vec<(String, String)>,
    nsteps: usize,
    /// model lines + implementation answers of the primitive steps of the last `run`
    trace: Vec<(Option<String>, String)>,
    hits: Vec<&'static str>,
}

fn idx_of(names: &[String], id: &str) -> usize {
    names.iter().position(|n| n == id).unwrap_or(K)
}

impl<'a> Clu<'a> {
    fn new(cfg: CCfg, names: &'a [String], rt: &'a tokio::runtime::Runtime) -> Self {
        let mut nodes = vec![];
        let mut rx = vec![];
        for r in 0..cfg.n {
            let tr = Arc::new(MemoryTransport::new(names[r].clone()));
            let mut rxs = vec![];
            for p in 0..K {
                let (tx, rcv) = tokio::sync::mpsc::channel(4096);
                tr.connect_to(names[p].clone(), tx);
                rxs.push(rcv);
            }
            let gc = GossipConfig {
                max_incarnation_delta: cfg.delta,
                geometric_routing: false,
                fanout: 16,
                indirect_ping_count: 1,
                max_states_per_message: cfg.k,
                suspicion_timeout_ms: if cfg.t0 { 0 } else { 1 << 40 },
                ..GossipConfig::default()
            };
            nodes.push(GossipMembershipManager::new(names[r].clone(), gc, tr));
            rx.push(rxs);
        }
        Clu {
            names,
            cfg,
            rt,
            nodes,
            rx,
            has_peer: vec![false; cfg.n],
            net: vec![],
            last_sync: vec![None; cfg.n],
            announced: vec![0; K],
            told: vec![[None; K]; cfg.n],
            viol: vec![],
            nsteps: 0,
            trace: vec![],
            hits: vec![],
        }
    }

    fn flag(&mut self, class: &str, what: String) {
        if !self.viol.iter().any(|(c, _)| c == class) {
            self.viol.push((class.to_string(), what));
        }
    }

    fn view(&self, r: usize) -> (CView, u64) {
        (cview_of_list(&self.nodes[r].membership_view(), self.names), self.nodes[r].lamport_time())
    }

    /// let the spawned send tasks run, then collect what node r handed to its transport
    fn drain(&mut self, r: usize) -> Vec<GMsg> {
        self.rt.block_on(async {
            for _ in 0..4 {
                tokio::task::yield_now().await;
            }
        });
        let mut out: Vec<GMsg> = vec![];
        for p in 0..K {
            while let Ok((_, msg)) = self.rx[r][p].try_recv() {
                if let tensor_chain::network::Message::Gossip(gm) = msg {
                    let g = match gm {
                        GossipMessage::Sync { sender, states, sender_time } => Some(GMsg::Sync(idx_of(self.names, &sender), sender_time, to_upds(&states, self.names))),
                        GossipMessage::Suspect { suspect, incarnation, .. } => Some(GMsg::Suspect(idx_of(self.names, &suspect), incarnation)),
                        GossipMessage::Alive { node_id, incarnation } => Some(GMsg::Alive(idx_of(self.names, &node_id), incarnation)),
                        _ => None,
                    };
                    if let Some(g) = g {
                        if !out.contains(&g) {
                            out.push(g);
                        }
                    }
                }
            }
        }
        out
    }

    /// one primitive step on the real managers + every oracle; pushes (model line, implementation answer)
    fn prim(&mut self, op: &COp) {
        let names = self.names;
        let r = match op {
            COp::AddPeer(r, _) | COp::Round(r) | COp::SuspectNode(r, _) | COp::Deliver(r, _) | COp::PingAck(r, ..) => *r,
            COp::Exchange(..) => unreachable!(),
        };
        if let COp::Deliver(_, msg) = op {
            if !self.net.contains(msg) {
                return; // replay of a shrunk script: this message was never sent here
            }
        }
        self.nsteps += 1;
        let before = self.view(r);
        let rej_before = self.nodes[r].incarnation_rejected_count();
        let order: Vec<usize> = self.nodes[r].membership_view().iter().map(|s| idx_of(names, &s.node_id)).collect();
        let opname = match op {
            COp::AddPeer(_, p) => {
                self.nodes[r].add_peer(names[*p].clone());
                if *p != r {
                    self.has_peer[r] = true;
                }
                "add_peer"
            }
            COp::Round(_) => {
                let _ = self.rt.block_on(self.nodes[r].gossip_round());
                "gossip_round"
            }
            COp::SuspectNode(_, m) => {
                let _ = self.rt.block_on(self.nodes[r].suspect_node(&names[*m]));
                "suspect_node"
            }
            COp::Deliver(_, msg) => {
                self.nodes[r].handle_gossip(msg.real(names, (r + 1) % self.cfg.n));
                match msg {
                    GMsg::Sync(..) => "handle_sync",
                    GMsg::Suspect(..) => "handle_suspect",
                    GMsg::Alive(..) => "handle_alive",
                }
            }
            COp::PingAck(_, t, ok) => {
                self.nodes[r].handle_gossip(GossipMessage::PingAck { origin: names[(r + 1) % self.cfg.n].clone(), target: names[*t].clone(), sequence: 0, success: *ok });
                "handle_ping_ack"
            }
            COp::Exchange(..) => unreachable!(),
        };
        let out = self.drain(r);
        let after = self.view(r);
        let at = format!("(step {} at node {r}: {opname})", self.nsteps);
        let txt = |e: Option<(usize, u64, u64)>| e.map_or("-".to_string(), |e| format!("{}:{}:{}", HL[e.0], e.1, e.2));

        // ---- oracles on the real managers' own outputs
        for (c, w) in mono_classes("tensor_chain.gossip.cluster", opname, (&before.0, before.1), (&after.0, after.1)) {
            self.flag(&c, format!("{w} {at}"));
        }
        // add_peer leaves every entry of the view alone (add_peer_keeps_every_entry)
        if let COp::AddPeer(_, p) = op {
            for (c, w) in add_peer_classes(*p, &before.0, &after.0) {
                self.flag(&c, format!("{w} {at}"));
            }
        }
        // an Alive that was not refused by the jump limit leaves a known member at >= the announced
        // incarnation, whatever health the node saw it in (mgr_alive_records_announced) ...
        if let COp::Deliver(_, GMsg::Alive(m, i)) = op {
            if let Some(b) = before.0.get(*m).copied().flatten() {
                if self.nodes[r].incarnation_rejected_count() == rej_before {
                    self.told[r][*m] = Some(self.told[r][*m].map_or(*i, |t| t.max(*i)));
                    if b.0 == 0 && *i > b.2 {
                        self.hits.push("cluster.deliver.alive.member_seen_healthy");
                    }
                    let got = after.0[*m].map(|a| a.2);
                    if got.map_or(true, |v| v < *i) {
                        self.flag(
                            "tensor_chain.gossip.cluster/announced_incarnation_dropped",
                            format!("node {r} handled Alive(member {m}, incarnation {i}) (not refused by the jump limit) while holding {} and records member {m} at incarnation {} afterwards {at}", txt(Some(b)), got.map_or("-".to_string(), |v| v.to_string())),
                        );
                    }
                }
            }
        }
        // ... and no later step records the member Degraded / Failed below that incarnation
        for m in 0..K {
            if let (Some(t), Some(a)) = (self.told[r][m], after.0[m]) {
                if a.2 < t && (a.0 == 1 || a.0 == 2) && after.0[m] != before.0[m] {
                    self.flag(
                        "tensor_chain.gossip.cluster/degraded_or_failed_at_refuted_incarnation",
                        format!("node {r} has handled an Alive announcing incarnation {t} of member {m}; it now records member {m} as {} (was {}) {at}", txt(after.0[m]), txt(before.0[m])),
                    );
                }
            }
        }
        for g in &out {
            match g {
                GMsg::Sync(s, _, b) => {
                    if *s != r {
                        self.flag("tensor_chain.gossip.cluster/sync_names_another_sender", format!("node {r} sent a Sync naming node {s} as sender {at}"));
                    }
                    for u in b {
                        // states_for_gossip runs before expire_suspicions: the pre-round view
                        if u.m < K && before.0[u.m] != Some((u.h, u.ts, u.inc)) {
                            self.flag(
                                "tensor_chain.gossip.cluster/sync_state_not_held",
                                format!("node {r} published {} for member {} while holding {} {at}", u.txt(), u.m, txt(before.0[u.m])),
                            );
                        }
                    }
                    // truncation drops only the oldest (statesForGossip_keeps_newest / _full_view)
                    let held = (0..K).filter(|&m| before.0[m].is_some()).count();
                    let oldest_sent = b.iter().map(|u| u.ts).min();
                    for m in 0..K {
                        if let Some(e) = before.0[m] {
                            if !b.iter().any(|u| u.m == m) && (b.len() < self.cfg.k.min(held) || oldest_sent.is_some_and(|t| e.1 > t)) {
                                self.flag(
                                    "tensor_chain.gossip.cluster/sync_omits_newer_state",
                                    format!("node {r} left {} of member {m} out of a Sync of {} states (max {}) whose oldest timestamp is {:?} {at}", txt(Some(e)), b.len(), self.cfg.k, oldest_sent),
                                );
                            }
                        }
                    }
                    self.last_sync[r] = Some(g.clone());
                }
                GMsg::Alive(m, i) => {
                    if *m != r {
                        self.flag("tensor_chain.gossip.cluster/alive_for_another_member", format!("node {r} announced incarnation {i} for member {m} {at}"));
                    } else {
                        if *i <= self.announced[r] {
                            self.flag("tensor_chain.gossip.cluster/announced_incarnation_not_increasing", format!("node {r} announced incarnation {i} after {} {at}", self.announced[r]));
                        }
                        self.announced[r] = self.announced[r].max(*i);
                    }
                }
                GMsg::Suspect(..) => {}
            }
            if !self.net.contains(g) {
                self.net.push(g.clone());
            }
        }
        if let COp::Deliver(_, GMsg::Sync(_, _, b)) = op {
            for u in b {
                let d = match before.0[u.m] {
                    Some(e) => u.inc.saturating_sub(e.2),
                    None => u.inc,
                };
                if d <= self.cfg.delta && after.0[u.m].map_or(true, |e| vkey(e) < ukey(u)) {
                    self.flag(
                        "tensor_chain.gossip.cluster/sync_state_lost",
                        format!("node {r} handled a Sync carrying {} (within the incarnation jump limit) and holds {} for that member afterwards {at}", u.txt(), txt(after.0[u.m])),
                    );
                }
            }
        }
        for q in 0..self.cfg.n {
            let v = if q == r { after.0 } else { self.view(q).0 };
            for m in 0..K {
                if let Some((h, _, inc)) = v[m] {
                    if inc > self.announced[m] {
                        let class = if h == 2 { "tensor_chain.gossip.cluster/failed_above_announced_incarnation" } else { "tensor_chain.gossip.cluster/recorded_above_announced_incarnation" };
                        self.flag(class, format!("node {q} records member {m} as {} while member {m} has announced at most incarnation {} {at}", txt(v[m]), self.announced[m]));
                    }
                    if h == 2 && q == r && before.0[m].map_or(true, |b| b.0 != 2) {
                        self.hits.push("cluster.member_recorded_failed");
                    }
                }
            }
        }

        // ---- the model line of this step
        let out_txt = if out.is_empty() { "-".to_string() } else { out.iter().map(GMsg::txt).collect::<Vec<_>>().join("+") };
        let state_txt = format!("rej={} | {}", self.nodes[r].incarnation_rejected_count(), view_txt(after.1, &after.0));
        let nats = |v: &[usize]| if v.is_empty() { "-".to_string() } else { v.iter().map(|x| x.to_string()).collect::<Vec<_>>().join(",") };
        let (line, imp) = match op {
            COp::AddPeer(_, p) => (Some(format!("ev_add_peer {r} {p}")), format!("{out_txt} | {state_txt}")),
            COp::Round(_) => {
                if !self.has_peer[r] {
                    self.hits.push("cluster.round.no_targets");
                    if before != after || !out.is_empty() {
                        self.flag("tensor_chain.gossip.cluster/idle_round_changed_state", format!("a gossip round without targets changed the view or sent something {at}"));
                    }
                    (None, String::new())
                } else {
                    // the suspicions that expired, in the order they were failed: read off the fresh stamps
                    let mut exp: Vec<(u64, usize)> = (0..K)
                        .filter_map(|m| match (before.0[m], after.0[m]) {
                            (Some(b), Some(a)) if a != b && a.0 == 2 => Some((a.1, m)),
                            _ => None,
                        })
                        .collect();
                    exp.sort();
                    if !exp.is_empty() {
                        self.hits.push("cluster.round.suspicion_expired");
                    }
                    if exp.len() > 1 {
                        self.hits.push("cluster.round.several_suspicions_expired");
                    }
                    if let Some(GMsg::Sync(_, _, b)) = out.first() {
                        if b.len() < order.len() {
                            self.hits.push("cluster.round.view_truncated");
                            let cut = b.last().map_or(0, |u| u.ts);
                            if (0..K).any(|m| before.0[m].is_some_and(|e| e.1 == cut && !b.iter().any(|u| u.m == m))) {
                                self.hits.push("cluster.round.timestamp_tie_at_the_cut");
                            }
                        }
                    }
                    let exp: Vec<usize> = exp.into_iter().map(|x| x.1).collect();
                    (
                        Some(format!("ev_round {r} {} {} {} {}", self.cfg.k, u8::from(self.cfg.t0), nats(&order), nats(&exp))),
                        format!("{out_txt} | {state_txt}"),
                    )
                }
            }
            COp::SuspectNode(_, m) => {
                // without a known peer nothing is sent: only the state is compared
                let o = if self.has_peer[r] { out_txt.clone() } else { "*".to_string() };
                (Some(format!("ev_suspect_node {r} {m}")), format!("{o} | {state_txt}"))
            }
            COp::Deliver(_, msg) => {
                let l = match msg {
                    GMsg::Sync(s, t, b) => format!("ev_sync {r} {s} {t} {}", batch_txt(b)),
                    GMsg::Suspect(m, i) => format!("ev_suspect {r} {m} {i}"),
                    GMsg::Alive(m, i) => format!("ev_alive {r} {m} {i}"),
                };
                let o = if self.has_peer[r] || !matches!(msg, GMsg::Suspect(m, _) if *m == r) { out_txt.clone() } else { "*".to_string() };
                (Some(l), format!("{o} | {state_txt}"))
            }
            COp::PingAck(_, t, ok) => (Some(format!("ev_ping_ack {r} {t} {}", u8::from(*ok))), format!("{out_txt} | {state_txt}")),
            COp::Exchange(..) => unreachable!(),
        };
        self.hits.push(match op {
            COp::AddPeer(..) => "cluster.add_peer",
            COp::Round(_) => "cluster.round",
            COp::SuspectNode(..) => "cluster.suspect_node",
            COp::Deliver(_, GMsg::Sync(s, ..)) if *s == r => "cluster.deliver.sync_to_its_own_sender",
            COp::Deliver(_, GMsg::Sync(..)) => "cluster.deliver.sync",
            COp::Deliver(_, GMsg::Suspect(m, _)) if *m == r => "cluster.deliver.suspect_about_self",
            COp::Deliver(_, GMsg::Suspect(..)) => "cluster.deliver.suspect",
            COp::Deliver(_, GMsg::Alive(..)) => "cluster.deliver.alive",
            COp::PingAck(_, _, true) => "cluster.ping_ack.success",
            COp::PingAck(..) => "cluster.ping_ack.failure",
            COp::Exchange(..) => unreachable!(),
        });
        if before.0 != after.0 {
            match op {
                COp::PingAck(..) => self.hits.push("cluster.ping_ack.marked_healthy"),
                COp::SuspectNode(..) => self.hits.push("cluster.suspect_node.degraded"),
                COp::Deliver(_, GMsg::Alive(..)) => self.hits.push("cluster.deliver.alive.refuted"),
                _ => {}
            }
        }
        self.trace.push((line, imp));
    }

    fn step(&mut self, op: &COp) {
        match op {
            COp::Exchange(a, b) => {
                let (a, b) = (*a, *b);
                if a == b || !self.has_peer[a] || !self.has_peer[b] {
                    return;
                }
                let rej0 = self.nodes[a].incarnation_rejected_count() + self.nodes[b].incarnation_rejected_count();
                let mut quiet = true; // no suspicion expired inside the exchange
                let va = self.view(a).0;
                self.prim(&COp::Round(a));
                quiet &= va == self.view(a).0;
                let Some(sa) = self.last_sync[a].clone() else { return };
                self.prim(&COp::Deliver(b, sa));
                let vb = self.view(b).0;
                self.prim(&COp::Round(b));
                quiet &= vb == self.view(b).0;
                let Some(sb) = self.last_sync[b].clone() else { return };
                self.prim(&COp::Deliver(a, sb));
                let rej1 = self.nodes[a].incarnation_rejected_count() + self.nodes[b].incarnation_rejected_count();
                if quiet && rej0 == rej1 && self.cfg.k >= K {
                    let (mut x, mut y) = (self.view(a).0, self.view(b).0);
                    x[a] = None;
                    x[b] = None;
                    y[a] = None;
                    y[b] = None;
                    self.hits.push("cluster.exchange_checked");
                    if let Some((m, _)) = diff_kind(&x, &y) {
                        self.flag(
                            "tensor_chain.gossip.cluster/exchange_did_not_converge",
                            format!("nodes {a} and {b} exchanged their full views through gossip_round / handle_sync and still differ on member {m}: {} vs {} (step {})", regs_txt(&x), regs_txt(&y), self.nsteps),
                        );
                    }
                }
            }
            o => self.prim(o),
        }
    }
}

fn cop_txt(op: &COp) -> String {
    match op {
        COp::AddPeer(r, p) => format!("add_peer {r} {p}"),
        COp::Round(r) => format!("gossip_round {r}"),
        COp::SuspectNode(r, m) => format!("suspect_node {r} {m}"),
        COp::Deliver(r, g) => format!("handle_gossip {r} {}", g.txt()),
        COp::PingAck(r, t, ok) => format!("ping_ack {r} {t} {ok}"),
        COp::Exchange(a, b) => format!("exchange {a} {b}"),
    }
}

fn cluster_fails(ops: &[COp], cfg: CCfg, names: &[String], rt: &tokio::runtime::Runtime, class: &str) -> bool {
    let mut c = Clu::new(cfg, names, rt);
    for op in ops {
        c.step(op);
    }
    c.viol.iter().any(|(k, _)| k == class)
}

/// replay a finished script on fresh managers, shrink it for every oracle class it raised, report
fn cluster_report(rep: &mut Report, stream: &str, case: &str, ops: &[COp], cfg: CCfg, names: &[String], rt: &tokio::runtime::Runtime, viol: &[(String, String)]) {
    for (class, what0) in viol {
        if rep.violations.iter().filter(|v| v["class"] == *class).count() >= 4 {
            continue;
        }
        // map iteration order differs from run to run: a class that does not reproduce is reported unshrunk
        let cur = if cluster_fails(ops, cfg, names, rt, class) {
            shrink_list(ops, &mut |cand: &[COp]| cluster_fails(cand, cfg, names, rt, class))
        } else {
            ops.to_vec()
        };
        let mut c = Clu::new(cfg, names, rt);
        for op in &cur {
            c.step(op);
        }
        let what = c.viol.iter().find(|(k, _)| k == class).map(|(_, w)| w.clone()).unwrap_or_else(|| what0.clone());
        let views: Vec<String> = (0..cfg.n).map(|r| { let v = c.view(r); view_txt(v.1, &v.0) }).collect();
        rep.violation_capped(
            class,
            &what,
            json!({"stream": stream, "case": case, "nodes": cfg.n, "max_states_per_message": cfg.k, "suspicion_timeout_zero": cfg.t0,
                   "max_incarnation_delta": cfg.delta, "script": cur.iter().map(cop_txt).collect::<Vec<_>>(), "final_views": views,
                   "steps_before_shrinking": ops.len()}),
        );
    }
}

/// drive one script: real managers + oracles to the end, the model until the first disagreement
fn cluster_run(rep: &mut Report, m: &mut Model, stream: &str, case: &str, cfg: CCfg, names: &[String], rt: &tokio::runtime::Runtime, gen: &mut dyn FnMut(&Clu, usize) -> Option<COp>) -> Vec<COp> {
    let mut c = Clu::new(cfg, names, rt);
    for r in 0..cfg.n {
        m.ask(&format!("mgr_new {r} {r} {}", cfg.delta));
    }
    let mut ops: Vec<COp> = vec![];
    let mut hist: Vec<String> = vec![];
    let mut live = true;
    let mut i = 0;
    while let Some(op) = gen(&c, i) {
        i += 1;
        c.trace.clear();
        c.step(&op);
        hist.push(cop_txt(&op));
        for (line, imp) in std::mem::take(&mut c.trace) {
            let Some(line) = line else { continue };
            if live {
                let ans = strip_ev(&m.ask(&line), imp.starts_with("* |"));
                if !rep.compare(stream, || json!({"case": case, "script": hist, "model_line": line, "cfg": format!("{cfg:?}")}), &imp, &ans) {
                    live = false;
                    rep.hit("cluster.real_only_after_divergence");
                }
            }
        }
        for h in std::mem::take(&mut c.hits) {
            rep.hit(h);
        }
        ops.push(op);
    }
    let viol = c.viol.clone();
    cluster_report(rep, stream, case, &ops, cfg, names, rt, &viol);
    rep.case(stream, Some(&format!("{case}|{cfg:?}|{}", hist.join("/"))));
    ops
}

/// `<out> | rej=R own=O sus=S | <view>`  ->  `<out> | rej=R | <view>` (`*` for an out that cannot be observed)
fn strip_ev(ans: &str, hide_out: bool) -> String {
    let p: Vec<&str> = ans.splitn(3, " | ").collect();
    if p.len() != 3 {
        return ans.to_string();
    }
    let rej = p[1].split(' ').next().unwrap_or("");
    format!("{} | {rej} | {}", if hide_out { "*" } else { p[0] }, p[2])
}

fn cluster_directed(rep: &mut Report, m: &mut Model, names: &[String], rt: &tokio::runtime::Runtime) {
    let stream = "cluster.directed";
    let sy = |s: usize, t: u64, b: &[Upd]| GMsg::Sync(s, t, b.to_vec());
    let full = |n: usize| -> Vec<COp> {
        let mut v = vec![];
        for r in 0..n {
            for p in 0..n {
                if p != r {
                    v.push(COp::AddPeer(r, p));
                }
            }
        }
        v
    };
    let mut cases: Vec<(&str, CCfg, Vec<COp>)> = vec![];
    // the run of the Lean witness `self_view_lags_announced_witness`
    cases.push((
        "self_view_lags_announced",
        CCfg { n: 2, k: 20, t0: true, delta: 100 },
        vec![
            COp::AddPeer(1, 0),
            COp::AddPeer(0, 1),
            COp::Round(1),
            COp::Deliver(0, sy(1, 1, &[up(1, 'H', 1, 0)])),
            COp::SuspectNode(0, 1),
            COp::Deliver(1, GMsg::Suspect(1, 0)),
            COp::Deliver(0, GMsg::Alive(1, 1)),
            COp::SuspectNode(0, 1),
            COp::Round(0),
        ],
    ));
    // a refuted suspicion must not be failed by the next expiring round; a ping ack clears one too
    {
        let mut ops = full(3);
        ops.extend([
            COp::Exchange(1, 0),
            COp::Exchange(2, 0),
            COp::SuspectNode(0, 1),
            COp::SuspectNode(0, 2),
            COp::Deliver(1, GMsg::Suspect(1, 0)),
            COp::Deliver(0, GMsg::Alive(1, 1)),
            COp::PingAck(0, 2, false),
            COp::PingAck(0, 2, true),
            COp::PingAck(0, 4, true),
            COp::Round(0),
            COp::Exchange(0, 1),
        ]);
        cases.push(("refuted_or_acked_suspicion_is_not_failed", CCfg { n: 3, k: 20, t0: true, delta: 100 }, ops));
    }
    // ghost member 3: suspected by two nodes, expires at both, the Failed verdict travels, an old
    // Sync that still says Unknown is re-delivered afterwards (to every node, the sender included)
    {
        let mut ops = full(3);
        ops.extend([COp::AddPeer(0, 3), COp::AddPeer(1, 3), COp::Round(0), COp::Round(1)]);
        ops.extend([COp::SuspectNode(0, 3), COp::SuspectNode(1, 3), COp::SuspectNode(0, 2), COp::Round(0), COp::Round(1), COp::Exchange(0, 2), COp::Exchange(1, 2)]);
        cases.push(("ghost_member_fails_everywhere", CCfg { n: 3, k: 20, t0: true, delta: 100 }, ops));
    }
    // truncated views: 1 and 2 states per message, timestamp ties at the cut
    for k in [1usize, 2] {
        let mut ops = full(4);
        ops.extend([COp::AddPeer(0, 4), COp::Round(0), COp::Round(1), COp::Round(2), COp::Round(3)]);
        ops.extend([COp::SuspectNode(2, 0), COp::SuspectNode(2, 1), COp::Round(2), COp::SuspectNode(3, 4), COp::Round(3), COp::Round(0), COp::Round(1)]);
        cases.push((if k == 1 { "one_state_per_message" } else { "two_states_per_message" }, CCfg { n: 4, k, t0: false, delta: 100 }, ops));
    }
    // incarnation jump limit 1: a node suspected three times in a row announces 3; a node that
    // missed the first two Alives refuses the third (delta 3 > 1) and the Sync states above the jump
    {
        let mut ops = full(3);
        ops.extend([COp::Exchange(0, 1), COp::Exchange(0, 2)]);
        for _ in 0..3 {
            ops.push(COp::Deliver(0, GMsg::Suspect(0, 0)));
        }
        ops.extend([
            COp::Deliver(1, GMsg::Alive(0, 1)),
            COp::Deliver(1, GMsg::Alive(0, 2)),
            COp::Deliver(1, GMsg::Alive(0, 3)),
            COp::Deliver(2, GMsg::Alive(0, 3)),
            COp::Exchange(1, 2),
            COp::Deliver(2, GMsg::Alive(0, 1)),
            COp::Exchange(1, 2),
            COp::Exchange(1, 2),
        ]);
        cases.push(("incarnation_jump_limit", CCfg { n: 3, k: 20, t0: false, delta: 1 }, ops));
    }
    // the Alive a suspected node broadcasts overtakes the Suspect it answers: node 0 (never suspected,
    // sees member 1 Healthy) gets Alive then Suspect, node 2 Suspect then Alive, node 3 raised the suspicion
    {
        let mut ops = full(4);
        ops.extend([
            COp::Exchange(1, 0),
            COp::Exchange(1, 2),
            COp::Exchange(1, 3),
            COp::SuspectNode(3, 1),
            COp::Deliver(1, GMsg::Suspect(1, 0)),
            COp::Deliver(0, GMsg::Alive(1, 1)),
            COp::Deliver(0, GMsg::Suspect(1, 0)),
            COp::Deliver(2, GMsg::Suspect(1, 0)),
            COp::Deliver(2, GMsg::Alive(1, 1)),
            COp::Deliver(3, GMsg::Alive(1, 1)),
            COp::Exchange(0, 2),
            COp::Exchange(0, 3),
        ]);
        cases.push(("alive_overtakes_the_suspect_it_answers", CCfg { n: 4, k: 20, t0: false, delta: 100 }, ops));
    }
    // the run of the Lean witness `stale_suspicion_stays_pending_witness` (observation): the stale Suspect
    // after the Alive is refused by the CRDT but stays pending, the next expiring round fails the member
    {
        let mut ops = full(3);
        ops.extend([
            COp::Exchange(1, 0),
            COp::Exchange(1, 2),
            COp::SuspectNode(2, 1),
            COp::Deliver(1, GMsg::Suspect(1, 0)),
            COp::Deliver(0, GMsg::Alive(1, 1)),
            COp::Deliver(0, GMsg::Suspect(1, 0)),
            COp::Round(0),
        ]);
        cases.push(("stale_suspect_after_alive_stays_pending", CCfg { n: 3, k: 20, t0: true, delta: 100 }, ops));
    }
    for (name, cfg, ops) in cases {
        let mut it = ops.clone().into_iter();
        // deliveries of a directed script name the message they expect; a `Deliver` of a Sync is
        // replaced by the sender's actual last Sync when the expected one was not sent
        let done = cluster_run(rep, m, stream, name, cfg, names, rt, &mut |c: &Clu, _| {
            let op = it.next()?;
            Some(match op {
                COp::Deliver(r, GMsg::Sync(s, t, b)) if !c.net.contains(&GMsg::Sync(s, t, b.clone())) => match c.last_sync.get(s).cloned().flatten() {
                    Some(g) => COp::Deliver(r, g),
                    None => COp::Deliver(r, GMsg::Sync(s, t, b)),
                },
                o => o,
            })
        });
        rep.hit("cluster.directed_scripts");
        if name == "stale_suspect_after_alive_stays_pending" {
            let mut c = Clu::new(cfg, names, rt);
            for op in &done {
                c.step(op);
            }
            if let Some((2, _, inc)) = c.view(0).0[1] {
                rep.observe(json!({
                    "what": "GossipMembershipManager::handle_suspect records a pending suspicion also when LWWMembershipState::suspect refused it as stale (the member had already announced a higher incarnation through Alive), and expire_suspicions fails the member at whatever incarnation is recorded when the timer runs out (PendingSuspicion::incarnation is not consulted): a node that handles Alive(m, 1) BEFORE the Suspect(m, 0) it answers records m Failed at incarnation 1 at the next expiring round, a node that handles them in the other order keeps m Healthy at 1 (the Alive clears the suspicion). Failed at 1 <= announced 1, and the expiry is a local fail event, so no clause of C17 is violated; Lean: stale_suspicion_stays_pending_witness; mgr_alive_wins_over_stale_news excludes rounds in which a suspicion of m expires",
                    "script": done.iter().map(cop_txt).collect::<Vec<_>>(),
                    "node_0_records_member_1": format!("F:{inc}"),
                    "member_1_announced": c.announced[1],
                    "class_if_counted": "tensor_chain.gossip.expire_suspicions/failed_on_a_suspicion_of_a_refuted_incarnation",
                    "proposed": "proposed/C17-expire-only-unrefuted-suspicions.diff"
                }));
            }
        }
        if name == "self_view_lags_announced" {
            // replay on fresh managers and look at the two views
            let mut c = Clu::new(cfg, names, rt);
            for op in &done {
                c.step(op);
            }
            let (v0, v1) = (c.view(0).0, c.view(1).0);
            if let (Some((2, _, i0)), Some((_, _, i1))) = (v0[1], v1[1]) {
                if i0 > i1 {
                    rep.observe(json!({
                        "what": "GossipMembershipManager::handle_suspect on the local node bumps only the `incarnation` counter and broadcasts Alive; the node's own register in its own view keeps the old incarnation. specs/tla/Membership.tla (RefuteSuspicion, NoFalsePositivesSafety) compares a Failed entry with the member's SELF-VIEW incarnation: that form does not hold of the code (Lean: self_view_lags_announced_witness); the property's form — never failed above an incarnation the member ANNOUNCED — does (cluster_failed_inc_le_announced)",
                        "script": done.iter().map(cop_txt).collect::<Vec<_>>(),
                        "node_0_records_member_1": format!("F:{}", i0),
                        "node_1_self_view_incarnation": i1,
                        "member_1_announced": c.announced[1],
                        "class_if_counted": "tensor_chain.gossip.handle_suspect/self_view_behind_announced_incarnation"
                    }));
                }
            }
        }
    }
}

fn cluster_stream(rep: &mut Report, m: &mut Model, names: &[String], root: &Rng, rt: &tokio::runtime::Runtime, cases: u64) {
    let stream = "cluster";
    let mut r = root.fork("cluster");
    for case in 0..cases {
        let n = 2 + r.below(3) as usize;
        let ghost = n; // a member without a manager: never answers, never refutes
        let cfg = CCfg {
            n,
            k: *r.pick(&[1usize, 2, 3, 20, 20, 20]),
            t0: r.chance(1, 2),
            delta: if r.chance(1, 4) { 1 + r.below(2) } else { 100 },
        };
        let mut setup: Vec<COp> = vec![];
        for a in 0..n {
            for b in 0..=n {
                if a != b && (b < n || r.chance(1, 2)) && !r.chance(1, 10) {
                    setup.push(COp::AddPeer(a, b));
                }
            }
        }
        r.shuffle(&mut setup);
        let nops = setup.len() + 25 + r.below(40) as usize;
        let mut rr = r.fork(&format!("case{case}"));
        let ops = cluster_run(rep, m, stream, &format!("seeded case {case}"), cfg, names, rt, &mut |c: &Clu, i: usize| {
            if i >= nops {
                return None;
            }
            if i < setup.len() {
                return Some(setup[i].clone());
            }
            let a = rr.below(n as u64) as usize;
            let members = n + 1;
            Some(match rr.below(20) {
                0..=4 => COp::Round(a),
                5..=10 if !c.net.is_empty() => {
                    // mostly a recent message, sometimes an old one (re-delivery), to any node
                    let i = if rr.chance(2, 3) { c.net.len() - 1 - rr.below(c.net.len().min(4) as u64) as usize } else { rr.below(c.net.len() as u64) as usize };
                    let msg = c.net[i].clone();
                    // a Suspect goes to its subject half of the time (that is what makes it announce)
                    let to = match &msg {
                        GMsg::Suspect(mm, _) if *mm < n && rr.chance(1, 2) => *mm,
                        _ => a,
                    };
                    COp::Deliver(to, msg)
                }
                11..=13 => COp::SuspectNode(a, if rr.chance(1, 4) { ghost } else { rr.below(members as u64) as usize }),
                14 | 15 => COp::PingAck(a, rr.below(members as u64) as usize, rr.chance(3, 4)),
                16 => COp::AddPeer(a, rr.below(members as u64) as usize),
                _ => COp::Exchange(a, (a + 1 + rr.below(n as u64 - 1) as usize) % n),
            })
        });
        if case == 0 {
            rep.sample(json!({"stream": stream, "cfg": format!("{cfg:?}"), "script": ops.iter().take(16).map(cop_txt).collect::<Vec<_>>()}));
        }
    }
}

// ====================================================================================================
// hybrid logical clock (tensor_chain/src/hlc.rs): "a node's ... logical clock never decrease[s]"
// ====================================================================================================
//
// The physical time a call reads (`wall_with_drift()` = wall-clock start + monotonic elapsed + drift
// offset) cannot be injected, but the public drift offset pins or brackets it:
//   * `HPhys::Pin`     drift offset i64::MIN: the reading saturates to EXACTLY 0 (a physical clock far
//                      behind / stalled: every tie is then decided by the clock's own wall component and
//                      the received one — deterministic);
//   * `HPhys::Live(d)` drift offset d: the reading is real time + d (set back, or ahead of everything);
//                      `estimated_wall_ms()` is read immediately before and after the call, the reading
//                      the call used lies in that bracket (the monotonic clock does not go back) and is
//                      passed to the model as the input of the step.
// Every clock is calibrated by one pinned `now()` (answer = (wall-clock start, 1)); walls in scripts and
// traces are written relative to B = the wall-clock start of clock 0.

/// received walls are pushed at least this far (ms) ahead of real time: real time never catches up
const HLC_FAR: u64 = 40_000_000;

#[derive(Clone, Debug, PartialEq)]
enum HPhys {
    Pin,
    Live(i64),
}

/// where a received timestamp comes from (wall, logical, node)
#[derive(Clone, Debug, PartialEq)]
enum HSrc {
    /// wall = B + off
    Off(u64, u64, u32),
    /// wall = the wall component the receiving clock last handed out + dw
    Held(i64, u64, u32),
    /// wall = the physical reading taken just before the call + dw
    Phys(i64, u64, u32),
    /// exact copy of the k-th timestamp handed out so far by any clock (a message; k modulo the count)
    Issued(usize),
    /// the k-th timestamp received so far by any clock, once more (re-delivery)
    Again(usize),
}

#[derive(Clone, Debug, PartialEq)]
enum HStep {
    Now { c: usize, phys: HPhys },
    Recv { c: usize, phys: HPhys, src: HSrc },
}

fn hphys_txt(p: &HPhys) -> String {
    match p {
        HPhys::Pin => "pinned-to-0".to_string(),
        HPhys::Live(d) => format!("real-time{d:+}"),
    }
}

impl HStep {
    fn txt(&self) -> String {
        match self {
            HStep::Now { c, phys } => format!("clock{c}.now() physical={}", hphys_txt(phys)),
            HStep::Recv { c, phys, src } => {
                let s = match src {
                    HSrc::Off(o, l, n) => format!("(B+{o}, {l}, node {n})"),
                    HSrc::Held(dw, l, n) => format!("(own wall{dw:+}, {l}, node {n})"),
                    HSrc::Phys(dw, l, n) => format!("(physical reading{dw:+}, {l}, node {n})"),
                    HSrc::Issued(k) => format!("(copy of the timestamp handed out {k}-th, counting from 0 over all clocks incl. calibrations)"),
                    HSrc::Again(k) => format!("(the timestamp received {k}-th, counting from 0 modulo the number received, once more)"),
                };
                format!("clock{c}.receive{s} physical={}", hphys_txt(phys))
            }
        }
    }
    fn with_phys(&self, p: HPhys) -> HStep {
        match self {
            HStep::Now { c, .. } => HStep::Now { c: *c, phys: p },
            HStep::Recv { c, src, .. } => HStep::Recv { c: *c, phys: p, src: src.clone() },
        }
    }
    fn phys(&self) -> &HPhys {
        match self {
            HStep::Now { phys, .. } | HStep::Recv { phys, .. } => phys,
        }
    }
}

fn hts(t: &HLCTimestamp, base: u64) -> String {
    if t.wall_ms() >= base {
        format!("(B+{}, {}, node {})", t.wall_ms() - base, t.logical(), t.node_id_hash())
    } else {
        format!("({}, {}, node {})", t.wall_ms(), t.logical(), t.node_id_hash())
    }
}

fn hwall(w: u64, base: u64) -> String {
    if w >= base { format!("B+{}", w - base) } else { format!("{w}") }
}

fn add_i64(w: u64, d: i64) -> u64 {
    if d >= 0 { w.saturating_add(d as u64) } else { w.saturating_sub(d.unsigned_abs()) }
}

/// what one real call did
struct HRec {
    c: usize,
    recv: Option<HLCTimestamp>,
    before: HLCTimestamp,
    p0: u64,
    p1: u64,
    out: HLCTimestamp,
}

/// real clocks + the oracles on their outputs (no model in here: the shrinker re-runs scripts on it)
struct HLab {
    clocks: Vec<HybridLogicalClock>,
    base: u64,
    starts: Vec<u64>,
    cur: Vec<HLCTimestamp>,
    issued: Vec<Vec<HLCTimestamp>>,
    all: Vec<HLCTimestamp>,
    received: Vec<HLCTimestamp>,
    trace: Vec<String>,
    viol: Vec<(String, String)>,
}

impl HLab {
    fn new(n: usize) -> HLab {
        let mut lab = HLab { clocks: vec![], base: 0, starts: vec![], cur: vec![], issued: vec![], all: vec![], received: vec![], trace: vec![], viol: vec![] };
        for i in 0..n {
            let c = HybridLogicalClock::new(i as u64 + 1).expect("clock");
            c.set_drift_offset(i64::MIN);
            let t = c.now().expect("now");
            if i == 0 {
                lab.base = t.wall_ms();
            }
            lab.starts.push(t.wall_ms());
            lab.cur.push(t);
            lab.issued.push(vec![t]);
            lab.all.push(t);
            lab.clocks.push(c);
        }
        lab
    }

    fn flag(&mut self, class: String, what: String) {
        if !self.viol.iter().any(|(c, _)| *c == class) {
            self.viol.push((class, what));
        }
    }

    fn step(&mut self, s: &HStep) -> HRec {
        let (c, phys, src) = match s {
            HStep::Now { c, phys } => (*c % self.clocks.len(), phys, None),
            HStep::Recv { c, phys, src } => (*c % self.clocks.len(), phys, Some(src)),
        };
        let base = self.base;
        let before = self.cur[c];
        self.clocks[c].set_drift_offset(match phys {
            HPhys::Pin => i64::MIN,
            HPhys::Live(d) => *d,
        });
        let p0 = self.clocks[c].estimated_wall_ms();
        let recv = src.map(|src| match src {
            HSrc::Off(o, l, n) => HLCTimestamp::new(base + o, *l, *n),
            HSrc::Held(dw, l, n) => HLCTimestamp::new(add_i64(before.wall_ms(), *dw), *l, *n),
            HSrc::Phys(dw, l, n) => HLCTimestamp::new(add_i64(p0, *dw), *l, *n),
            HSrc::Issued(k) => self.all[*k % self.all.len()],
            HSrc::Again(k) => {
                if self.received.is_empty() { self.all[*k % self.all.len()] } else { self.received[*k % self.received.len()] }
            }
        });
        let p0 = self.clocks[c].estimated_wall_ms();
        let out = match &recv {
            Some(r) => self.clocks[c].receive(r).expect("receive"),
            None => self.clocks[c].now().expect("now"),
        };
        let p1 = self.clocks[c].estimated_wall_ms();
        let (site, call) = if recv.is_some() { ("tensor_chain.hlc.receive", "receive") } else { ("tensor_chain.hlc.now", "now") };
        self.trace.push(match &recv {
            Some(r) => format!("clock{c}.receive{} physical reading {} -> {}", hts(r, base), hwall(p0, base), hts(&out, base)),
            None => format!("clock{c}.now() physical reading {} -> {}", hwall(p0, base), hts(&out, base)),
        });
        // ORACLES (the property, on the real outputs alone)
        // 1. strictly after everything this clock handed out before
        if let Some(prev) = self.issued[c].iter().rev().find(|u| !(out > **u)).copied() {
            self.flag(
                format!("{site}/timestamp_not_after_previously_issued"),
                format!("clock{c}: {call}() returned {} after this clock had already handed out {}", hts(&out, base), hts(&prev, base)),
            );
        }
        // 2. strictly after the received timestamp
        if let Some(r) = &recv {
            if !(out > *r) {
                self.flag(
                    format!("{site}/timestamp_not_after_received"),
                    format!("clock{c}: receive{} returned {}", hts(r, base), hts(&out, base)),
                );
            }
            self.received.push(*r);
        }
        self.cur[c] = out;
        self.issued[c].push(out);
        self.all.push(out);
        HRec { c, recv, before, p0, p1, out }
    }
}

fn hlc_fails(script: &[HStep], n: usize, class: &str) -> bool {
    let mut lab = HLab::new(n);
    for s in script {
        lab.step(s);
    }
    lab.viol.iter().any(|(c, _)| c == class)
}

/// shrink a failing clock script (steps; real-time readings replaced by the pinned reading where the
/// failure survives) and report it with the concrete trace of the shrunk run
fn hlc_report(rep: &mut Report, stream: &str, case: &str, class: &str, script: &[HStep], n: usize, first: &HLab) {
    if rep.violations.iter().filter(|v| v["class"] == class).count() >= 3 {
        rep.hit(&format!("violations.{class}"));
        return;
    }
    let mut cur = shrink_list(script, &mut |cand: &[HStep]| hlc_fails(cand, n, class));
    for i in 0..cur.len() {
        if *cur[i].phys() != HPhys::Pin {
            let mut cand = cur.clone();
            cand[i] = cur[i].with_phys(HPhys::Pin);
            if hlc_fails(&cand, n, class) {
                cur = cand;
            }
        }
    }
    cur = shrink_list(&cur, &mut |cand: &[HStep]| hlc_fails(cand, n, class));
    // the shrunk run (scripts with real-time readings depend on the millisecond: retry, else keep the original)
    for _ in 0..3 {
        let mut lab = HLab::new(n);
        for s in &cur {
            lab.step(s);
        }
        if let Some((_, what)) = lab.viol.iter().find(|(c, _)| c == class) {
            rep.violation(
                class,
                what,
                json!({"stream": stream, "case": case, "clocks": n,
                       "script": cur.iter().map(|s| s.txt()).collect::<Vec<_>>(),
                       "trace": lab.trace,
                       "B": format!("wall-clock start of clock 0 (this run: {} ms); every clock is first calibrated by one now() with the physical reading pinned to 0, answer (start, 1)", lab.base),
                       "steps_before_shrinking": script.len()}),
            );
            return;
        }
    }
    let what = first.viol.iter().find(|(c, _)| c == class).map(|(_, w)| w.clone()).unwrap_or_default();
    rep.violation(
        class,
        &what,
        json!({"stream": stream, "case": case, "clocks": n, "script": script.iter().map(|s| s.txt()).collect::<Vec<_>>(),
               "trace": first.trace, "B": format!("wall-clock start of clock 0 (this run: {} ms)", first.base), "shrunk": false}),
    );
}

/// weak order of the three wall times of a receive, e.g. `p<l=r` (p physical reading, l the clock's, r received)
fn ord3(p: u64, l: u64, r: u64) -> String {
    let mut v = [('l', l), ('p', p), ('r', r)];
    v.sort_by_key(|x| (x.1, x.0));
    let mut s = String::new();
    for i in 0..3 {
        if i > 0 {
            s.push(if v[i].1 == v[i - 1].1 { '=' } else { '<' });
        }
        s.push(v[i].0);
    }
    s
}

fn hlc_expected_branches() -> Vec<String> {
    let mut v = vec!["hlc.now.p<l".to_string(), "hlc.now.p=l".to_string(), "hlc.now.p>l".to_string()];
    for o in ["l<p<r", "l<r<p", "p<l<r", "p<r<l", "r<l<p", "r<p<l", "l=p<r", "l=r<p", "p=r<l", "l<p=r", "p<l=r", "r<l=p", "l=p=r"] {
        for k in ["counter_smaller", "counter_equal", "counter_larger"] {
            v.push(format!("hlc.recv.{o}.{k}"));
        }
    }
    v
}

/// run one clock case: `gen(lab, i)` produces the i-th step looking at the real clocks' answers so far;
/// every step is sent to the model until the first disagreement, the real run and its oracles continue
fn hlc_case(rep: &mut Report, m: &mut Model, stream: &str, case: &str, n: usize, gen: &mut dyn FnMut(&HLab, usize) -> Option<HStep>) {
    let mut lab = HLab::new(n);
    let mut live = true;
    let mut ms: Vec<(u64, u64)> = Vec::new();
    for i in 0..n {
        let node = lab.cur[i].node_id_hash();
        let ans = m.ask(&format!("hlc_now {} 0 {} 0", lab.starts[i], node));
        let imp = format!("{}:{}:{} {} 1", lab.starts[i], lab.cur[i].logical(), node, lab.starts[i]);
        if !rep.compare(stream, || json!({"case": case, "step": "calibration: now() with the physical reading pinned to 0 on a fresh clock"}), &imp, &ans) {
            live = false;
        }
        ms.push((lab.starts[i], 1));
    }
    let mut script: Vec<HStep> = Vec::new();
    let mut tied = false;
    let mut i = 0;
    while let Some(s) = gen(&lab, i) {
        i += 1;
        let rec = lab.step(&s);
        script.push(s);
        // which case of the code this was, from the real side's own numbers
        match &rec.recv {
            None => {
                let l = rec.before.wall_ms();
                rep.hit(if rec.p0 < l { "hlc.now.p<l" } else if rec.p0 == l { "hlc.now.p=l" } else { "hlc.now.p>l" });
            }
            Some(r) => {
                let o = ord3(rec.p0, rec.before.wall_ms(), r.wall_ms());
                let k = match r.logical().cmp(&rec.before.logical()) {
                    std::cmp::Ordering::Less => "counter_smaller",
                    std::cmp::Ordering::Equal => "counter_equal",
                    std::cmp::Ordering::Greater => "counter_larger",
                };
                rep.hit(&format!("hlc.recv.{o}.{k}"));
                if r.wall_ms() == rec.before.wall_ms() || r.wall_ms() == rec.p0 {
                    tied = true;
                }
            }
        }
        if rec.p0 != rec.p1 {
            rep.hit("hlc.physical_reading_changed_during_call");
        }
        if live {
            let node = rec.out.node_id_hash();
            let imp = format!("{}:{}:{}", rec.out.wall_ms(), rec.out.logical(), node);
            // the reading the call used lies in [p0, p1]; when it exceeded both other walls it IS the
            // answer's wall component, otherwise every reading of the bracket gives the same answer
            let mut cands = vec![rec.p0];
            if rec.out.wall_ms() > rec.p0 && rec.out.wall_ms() <= rec.p1 {
                cands.push(rec.out.wall_ms());
            }
            let mut first_ans = String::new();
            let mut matched = false;
            for p in cands {
                let line = match &rec.recv {
                    None => format!("hlc_now {} {} {} {}", ms[rec.c].0, ms[rec.c].1, node, p),
                    Some(r) => format!("hlc_recv {} {} {} {} {} {} {}", ms[rec.c].0, ms[rec.c].1, node, p, r.wall_ms(), r.logical(), r.node_id_hash()),
                };
                let ans = m.ask(&line);
                let mut it = ans.split(' ');
                let ts = it.next().unwrap_or("").to_string();
                if first_ans.is_empty() {
                    first_ans = ts.clone();
                }
                if ts == imp {
                    let a: u64 = it.next().and_then(|x| x.parse().ok()).unwrap_or(0);
                    let b: u64 = it.next().and_then(|x| x.parse().ok()).unwrap_or(0);
                    ms[rec.c] = (a, b);
                    matched = true;
                    break;
                }
            }
            if !matched {
                let sc: Vec<String> = script.iter().map(|s| s.txt()).collect();
                rep.disagree(stream, json!({"case": case, "script": sc, "trace": lab.trace, "B": lab.base}), &imp, &first_ans);
                live = false;
                rep.hit("hlc.real_only_after_divergence");
            }
        }
    }
    for (class, _) in lab.viol.clone() {
        hlc_report(rep, stream, case, &class, &script, n, &lab);
    }
    let key = format!("{case}|{}", script.iter().map(|s| s.txt()).collect::<Vec<_>>().join("/"));
    rep.case(stream, if tied { Some(&key) } else { None });
}

/// directed clock cases, run before every other stream.  The minimal history in which the three-way
/// branch of `receive` is the only thing keeping the clock from going back — the clock is pushed ahead
/// of physical time by a message from a fast peer, stamps k local events, then receives a delayed
/// message whose wall time is EXACTLY its own — and its neighbours: received counter smaller / equal /
/// larger than the local one, received wall one below / one above, physical reading pinned behind, at
/// real time, set back an hour, ahead of everything (ties with the clock's own wall component within a
/// millisecond), the message delivered once more, two clocks exchanging real timestamps out of order.
fn hlc_directed(rep: &mut Report, m: &mut Model) {
    let stream = "hlc.directed";
    let modes = [HPhys::Pin, HPhys::Live(0), HPhys::Live(-3_600_000), HPhys::Live(2 * HLC_FAR as i64)];
    for (mi, mode) in modes.iter().enumerate() {
        for k in 0..4usize {
            for lrel in -2i64..=2 {
                for dw in [0i64, -1, 1] {
                    for node in [1u32, 2] {
                        if node == 1 && (dw != 0 || mi > 1) {
                            continue;
                        }
                        let case = format!("delayed_tie.mode{mi}.k{k}.l{lrel:+}.dw{dw:+}.node{node}");
                        let mut second: Option<HSrc> = None;
                        let mut gen = |lab: &HLab, i: usize| -> Option<HStep> {
                            let cur = lab.cur[0];
                            if i == 0 {
                                Some(HStep::Recv { c: 0, phys: HPhys::Pin, src: HSrc::Off(HLC_FAR, 0, 2) })
                            } else if i <= k {
                                Some(HStep::Now { c: 0, phys: mode.clone() })
                            } else if i == k + 1 {
                                let l = add_i64(cur.logical(), lrel);
                                let src = HSrc::Held(dw, l, node);
                                second = Some(src.clone());
                                Some(HStep::Recv { c: 0, phys: mode.clone(), src })
                            } else if i == k + 2 {
                                Some(HStep::Now { c: 0, phys: mode.clone() })
                            } else if i == k + 3 {
                                // the same message once more (its wall now relative to the wall the clock holds now)
                                Some(HStep::Recv { c: 0, phys: mode.clone(), src: HSrc::Again(1) })
                            } else if i == k + 4 {
                                Some(HStep::Now { c: 0, phys: HPhys::Pin })
                            } else {
                                None
                            }
                        };
                        hlc_case(rep, m, stream, &case, 1, &mut gen);
                    }
                }
            }
        }
    }
    // the same remote timestamp delivered in every round with local events in between
    for mode in &modes {
        let case = format!("redelivery_rounds.{}", hphys_txt(mode));
        let mut gen = |_: &HLab, i: usize| -> Option<HStep> {
            if i >= 12 {
                None
            } else if i % 3 == 0 {
                Some(HStep::Recv { c: 0, phys: mode.clone(), src: HSrc::Off(HLC_FAR + 120_000, 3, 9) })
            } else {
                Some(HStep::Now { c: 0, phys: mode.clone() })
            }
        };
        hlc_case(rep, m, stream, &case, 1, &mut gen);
    }
    // physical reading ahead of everything: ties of the reading with the clock's own wall and with the
    // received wall, then the physical clock is set back below what the clock holds
    for lrel in -1i64..=1 {
        for back in [HPhys::Pin, HPhys::Live(0), HPhys::Live(HLC_FAR as i64)] {
            let case = format!("physical_ahead_then_back.l{lrel:+}.{}", hphys_txt(&back));
            let ahead = HPhys::Live(2 * HLC_FAR as i64);
            let mut gen = |lab: &HLab, i: usize| -> Option<HStep> {
                let cur = lab.cur[0];
                let l = add_i64(cur.logical(), lrel);
                match i {
                    0 | 1 => Some(HStep::Now { c: 0, phys: ahead.clone() }),
                    2 => Some(HStep::Recv { c: 0, phys: ahead.clone(), src: HSrc::Held(0, l, 2) }),
                    3 => Some(HStep::Recv { c: 0, phys: ahead.clone(), src: HSrc::Phys(0, l, 2) }),
                    4 => Some(HStep::Recv { c: 0, phys: ahead.clone(), src: HSrc::Phys(1, l, 2) }),
                    5 => Some(HStep::Recv { c: 0, phys: ahead.clone(), src: HSrc::Held(-1, l + 3, 2) }),
                    6 => Some(HStep::Now { c: 0, phys: back.clone() }),
                    7 => Some(HStep::Recv { c: 0, phys: back.clone(), src: HSrc::Held(0, l, 2) }),
                    8 => Some(HStep::Recv { c: 0, phys: back.clone(), src: HSrc::Phys(0, l, 2) }),
                    9 => Some(HStep::Recv { c: 0, phys: back.clone(), src: HSrc::Held(0, 0, 0) }),
                    10 => Some(HStep::Now { c: 0, phys: back.clone() }),
                    _ => None,
                }
            };
            hlc_case(rep, m, stream, &case, 1, &mut gen);
        }
    }
    // two clocks: clock 1 runs a minute ahead and stamps two messages in the same millisecond; clock 0
    // (physical clock behind) receives the second, stamps local events, then the delayed first one
    for locals in 0..4usize {
        for fast in [HPhys::Live(60_000), HPhys::Live(HLC_FAR as i64)] {
            for slow in [HPhys::Pin, HPhys::Live(0), HPhys::Live(-60_000)] {
                let case = format!("two_clocks_reordered.locals{locals}.{}.{}", hphys_txt(&fast), hphys_txt(&slow));
                let mut gen = |lab: &HLab, i: usize| -> Option<HStep> {
                    // issued so far: #0 #1 calibration, #2 #3 #4 = clock 1's messages
                    if i < 3 {
                        Some(HStep::Now { c: 1, phys: fast.clone() })
                    } else if i == 3 {
                        Some(HStep::Recv { c: 0, phys: slow.clone(), src: HSrc::Issued(4) })
                    } else if i < 4 + locals {
                        Some(HStep::Now { c: 0, phys: slow.clone() })
                    } else if i == 4 + locals {
                        Some(HStep::Recv { c: 0, phys: slow.clone(), src: HSrc::Issued(2) })
                    } else if i == 5 + locals {
                        Some(HStep::Recv { c: 0, phys: slow.clone(), src: HSrc::Issued(3) })
                    } else if i == 6 + locals {
                        Some(HStep::Now { c: 0, phys: slow.clone() })
                    } else if i == 7 + locals {
                        // and back: the fast clock hears from the slow one
                        Some(HStep::Recv { c: 1, phys: fast.clone(), src: HSrc::Issued(lab.all.len() - 1) })
                    } else if i == 8 + locals {
                        Some(HStep::Recv { c: 1, phys: HPhys::Pin, src: HSrc::Issued(lab.all.len() - 3) })
                    } else {
                        None
                    }
                };
                hlc_case(rep, m, stream, &case, 2, &mut gen);
            }
        }
    }
}

/// seeded clock histories on 1-3 real clocks: the clock is usually pushed ahead of physical time first
/// (so that wall ties are made by the received timestamps), then now() / receive() with received walls
/// equal to / one off the clock's own wall or the physical reading, counters around the local counter,
/// copies of timestamps other clocks (or this one) handed out earlier (delayed, duplicated, reordered
/// messages), re-deliveries of earlier received timestamps, and a physical clock that is pinned behind,
/// runs at real time, is set back or jumps ahead between any two calls.
fn hlc_stream(rep: &mut Report, m: &mut Model, root: &Rng, cases: u64) {
    let stream = "hlc.random";
    let mut r = root.fork("hlc.random");
    for case in 0..cases {
        let n = 1 + r.below(3) as usize;
        let steps = 6 + r.below(22) as usize;
        let push_first = r.chance(7, 10);
        // a small set of physical modes per case, so that consecutive calls often share one
        let pool = [0i64, -3_600_000, -60_000, 60_000, HLC_FAR as i64, 2 * HLC_FAR as i64, 3 * HLC_FAR as i64];
        let mut modes: Vec<HPhys> = vec![HPhys::Pin];
        for _ in 0..1 + r.below(2) {
            modes.push(HPhys::Live(*r.pick(&pool)));
        }
        let pin_bias = r.below(4); // 0: mostly live .. 3: mostly pinned
        let offs = [HLC_FAR, HLC_FAR + 1, HLC_FAR + 1000, 2 * HLC_FAR, 2 * HLC_FAR + 1, 5 * HLC_FAR];
        let mut rr = r.fork(&format!("c{case}"));
        let mut gen = |lab: &HLab, i: usize| -> Option<HStep> {
            if i >= steps {
                return None;
            }
            let c = rr.below(n as u64) as usize;
            let phys = if rr.below(4) < pin_bias { HPhys::Pin } else { rr.pick(&modes).clone() };
            if i < n && push_first {
                return Some(HStep::Recv { c: i % n, phys: HPhys::Pin, src: HSrc::Off(*rr.pick(&offs[..3]), rr.below(3), 1 + rr.below(3) as u32) });
            }
            if rr.chance(2, 5) {
                return Some(HStep::Now { c, phys });
            }
            let cur = lab.cur[c];
            let near = |rr: &mut Rng| -> u64 {
                match rr.below(8) {
                    0 => 0,
                    1 => cur.logical() + 1 + rr.below(6),
                    2 => rr.below(cur.logical() + 1),
                    _ => add_i64(cur.logical(), rr.range(-2, 2)),
                }
            };
            let node = match rr.below(3) {
                0 => cur.node_id_hash(),
                1 => 0,
                _ => 1 + rr.below(5) as u32,
            };
            let src = match rr.below(20) {
                0..=6 => HSrc::Held(*rr.pick(&[0i64, 0, 0, 0, -1, 1, -1000, 7]), near(&mut rr), node),
                7..=11 => {
                    // a message: recent ones mostly, old ones sometimes
                    let len = lab.all.len();
                    let k = if rr.chance(2, 3) { len - 1 - rr.below(len.min(4) as u64) as usize } else { rr.below(len as u64) as usize };
                    HSrc::Issued(k)
                }
                12..=14 => HSrc::Again(rr.below(64) as usize),
                15 | 16 => HSrc::Off(*rr.pick(&offs), near(&mut rr), node),
                _ => HSrc::Phys(*rr.pick(&[0i64, 0, 1, -1]), near(&mut rr), node),
            };
            Some(HStep::Recv { c, phys, src })
        };
        hlc_case(rep, m, stream, &format!("{case}"), n, &mut gen);
    }
}

/// u64::MAX as a received counter: outside the property's quantifier (small timestamp ranges).  The
/// model driver runs the exact u64 arithmetic, so the answers are compared; what the clock then does is
/// recorded as an observation (Lean: hlc_saturated_counter_repeats_witness).
fn hlc_saturation(rep: &mut Report, m: &mut Model) {
    let stream = "hlc.saturated_counter";
    let c = HybridLogicalClock::new(1).expect("clock");
    c.set_drift_offset(i64::MIN);
    let t0 = c.now().expect("now");
    let b = t0.wall_ms();
    let r = HLCTimestamp::new(b + HLC_FAR, u64::MAX, 2);
    let t1 = c.receive(&r).expect("receive");
    let t2 = c.now().expect("now");
    let t3 = c.now().expect("now");
    let f = |t: &HLCTimestamp| format!("{}:{}:{}", t.wall_ms(), t.logical(), t.node_id_hash());
    let a1 = m.ask(&format!("hlc_recv {b} 1 1 0 {} {} 2", b + HLC_FAR, u64::MAX));
    rep.compare(stream, || json!({"step": "receive (B+far, u64::MAX, 2)"}), &format!("{} {} {}", f(&t1), b + HLC_FAR, u64::MAX), &a1);
    let a2 = m.ask(&format!("hlc_now {} {} 1 0", b + HLC_FAR, u64::MAX));
    rep.compare(stream, || json!({"step": "now() at counter u64::MAX"}), &format!("{} {} 0", f(&t2), b + HLC_FAR), &a2);
    let a3 = m.ask(&format!("hlc_now {} 0 1 0", b + HLC_FAR));
    rep.compare(stream, || json!({"step": "now() after the stored counter wrapped"}), &format!("{} {} 1", f(&t3), b + HLC_FAR), &a3);
    rep.case(stream, None);
    if !(t1 > r) || !(t2 > t1) || !(t3 > t2) {
        rep.observe(json!({
            "what": "HybridLogicalClock: a received timestamp whose logical counter is u64::MAX saturates the clock's counter: receive() answers with a timestamp that is not after the received one (unless the node id breaks the tie), the next now() repeats it (fetch_add wraps the stored counter to 0 while the returned one saturates) and the following now() goes back to counter 1. Needs a peer that sends logical = u64::MAX; outside the property's quantifier (small timestamp ranges), not counted as a violation",
            "calls": ["receive (B+40000000, 18446744073709551615, node 2)", "now()", "now()"],
            "answers": [hts(&t1, b), hts(&t2, b), hts(&t3, b)],
            "class_if_counted": "tensor_chain.hlc.receive/saturated_counter_not_after_received",
            "lean": "hlc_saturated_counter_repeats_witness, hlc_bounded_counters_refine"
        }));
    }
}
