//! C05 correspondence: the real `GraphEngine` vs the Lean graph model (`drv_graph`).
//!
//!  (i)  sequential differential on random scripts: every result, the full store image
//!       (node records, edge records, `node:N:out` / `node:N:in` lists read from the underlying
//!       `TensorStore`), neighbors / degree / traverse answers; the WF monitor and the
//!       edge-set oracle for neighbors/degree run on the implementation's own outputs.
//!  (ii) concurrent: 2..8 real threads under `nverif::sched::run_threads`; the yield trace of every
//!       real operation must equal the model's atomic step list under the same schedule, results and
//!       final image must equal the model's; the Lean witness schedules of the two remaining (known) races
//!       are replayed deterministically, the schedules of the three races fixed by the list lock
//!       (/repo 81b9c5b4) and of the create_node / create_edge race fixed by /repo e23bf6c3 (lists
//!       written before the node record) are followed as far as the code allows (regression, these
//!       directed cases run first); seeded random schedules with the WF monitor at quiescence.  The scheduler's `choose` mirrors the list
//!       lock (`LockMirror`) so that it does not grant a thread that would run into a held stripe.
//!       Batch calls run under the scheduler too: `regress.batch_vs_writer.*` (every cut point of a batch
//!       call against a writer of the same list, first on every run), `conc.batch_hub` (probing schedules,
//!       shrinker); the list lock has its own regression oracle on the real yield trace
//!       (`graph_engine.edge_list_lock/list_update_not_exclusive`).
use graph_engine::{Direction, EdgeInput, GraphEngine, GraphError, NodeInput, Pagination, PropertyValue};
use nverif::sched::{run_threads, Step};
use nverif::*;
use serde_json::{json, Value};
use std::collections::{BTreeMap, BTreeSet, HashMap};
use std::sync::{Arc, Mutex};
use tensor_store::{ScalarValue, TensorData, TensorValue};

// ------------------------------------------------------------------ operations

#[derive(Clone, Debug, PartialEq)]
enum Op {
    CNode { l: u64, v: u64 },
    CEdge { a: u64, b: u64, d: bool, ty: u64, v: u64 },
    DEdge(u64),
    DNode(u64),
    UNode { n: u64, l: Option<u64>, v: u64 },
    UEdge { e: u64, v: u64 },
    ALabel { n: u64, l: u64 },
    RLabel { n: u64, l: u64 },
    /// batch_create_nodes: (label, v) per item
    BCN(Vec<(u64, u64)>),
    /// batch_create_edges: (from, to, directed, type, v) per item
    BCE(Vec<(u64, u64, bool, u64, u64)>),
    BDE(Vec<u64>),
    BDN(Vec<u64>),
    /// batch_update_nodes: (node, label, v) per item
    BUN(Vec<(u64, Option<u64>, u64)>),
    /// drop the engine, `GraphEngine::with_store` over the same store (sequential scripts only)
    Reopen,
}

fn items<T>(v: &[T], f: impl Fn(&T) -> String) -> String {
    if v.is_empty() {
        "-".to_string()
    } else {
        v.iter().map(f).collect::<Vec<_>>().join("/")
    }
}

impl Op {
    fn name(&self) -> &'static str {
        match self {
            Op::CNode { .. } => "create_node",
            Op::CEdge { .. } => "create_edge",
            Op::DEdge(_) => "delete_edge",
            Op::DNode(_) => "delete_node",
            Op::UNode { .. } => "update_node",
            Op::UEdge { .. } => "update_edge",
            Op::ALabel { .. } => "add_label",
            Op::RLabel { .. } => "remove_label",
            Op::BCN(_) => "batch_create_nodes",
            Op::BCE(_) => "batch_create_edges",
            Op::BDE(_) => "batch_delete_edges",
            Op::BDN(_) => "batch_delete_nodes",
            Op::BUN(_) => "batch_update_nodes",
            Op::Reopen => "reopen",
        }
    }
    /// token of the `run` line (`:` separated); `hint` = edge order of a delete_node
    fn tok(&self, hint: &[u64]) -> String {
        match self {
            Op::CNode { l, v } => format!("cnode:{l}:{v}"),
            Op::CEdge { a, b, d, ty, v } => format!("cedge:{a}:{b}:{}:{ty}:{v}", u8::from(*d)),
            Op::DEdge(e) => format!("dedge:{e}"),
            Op::DNode(n) => {
                let h = if hint.is_empty() { "-".to_string() } else { hint.iter().map(|x| x.to_string()).collect::<Vec<_>>().join(".") };
                format!("dnode:{n}:{h}")
            }
            Op::UNode { n, l, v } => format!("unode:{n}:{}:{v}", l.map_or("-".to_string(), |x| x.to_string())),
            Op::UEdge { e, v } => format!("uedge:{e}:{v}"),
            Op::ALabel { n, l } => format!("alabel:{n}:{l}"),
            Op::RLabel { n, l } => format!("rlabel:{n}:{l}"),
            Op::BCN(v) => format!("bcn:{}", items(v, |(l, x)| format!("{l}.{x}"))),
            Op::BCE(v) => format!("bce:{}", items(v, |(a, b, d, ty, x)| format!("{a}.{b}.{}.{ty}.{x}", u8::from(*d)))),
            Op::BDE(v) => format!("bde:{}", items(v, |e| e.to_string())),
            Op::BDN(v) => format!("bdn:{}", items(v, |n| n.to_string())),
            Op::BUN(v) => format!("bun:{}", items(v, |(n, l, x)| format!("{n}.{}.{x}", l.map_or("-".to_string(), |y| y.to_string())))),
            Op::Reopen => "reopen".to_string(),
        }
    }
    /// sequential protocol line
    fn line(&self) -> String {
        self.tok(&[]).replace(':', " ")
    }
}

fn props(v: u64) -> HashMap<String, PropertyValue> {
    let mut m = HashMap::new();
    m.insert("v".to_string(), PropertyValue::Int(v as i64));
    m
}

fn show_err(e: &GraphError) -> String {
    match e {
        GraphError::NodeNotFound(n) => format!("err node_not_found {n}"),
        GraphError::EdgeNotFound(x) => format!("err edge_not_found {x}"),
        GraphError::StorageError(_) => "err storage".into(),
        GraphError::PartialDeletionError { .. } => "err partial".into(),
        GraphError::CorruptedEdge { edge_id, .. } => format!("err edge_not_found {edge_id}"),
        GraphError::BatchValidationError { index, cause } => match cause.as_ref() {
            GraphError::NodeNotFound(n) => format!("err batch_invalid {index} node_not_found {n}"),
            other => format!("err batch_invalid {index} other:{}", vname(other)),
        },
        other => format!("err other:{}", vname(other)),
    }
}
/// the name of an error's VARIANT (first identifier of its Debug rendering), never its message text
fn vname<T: std::fmt::Debug>(e: &T) -> String {
    format!("{e:?}").chars().take_while(|c| c.is_alphanumeric() || *c == '_').collect()
}
/// Error canonicalisation (BUILDING.md), rule 2. `GraphBatchItemError.cause` is the Display TEXT of the item's
/// `GraphError` (graph_engine lib.rs `cause: e.to_string()`), there is no structured cause. C05 is about the
/// stored graph (compared in full after every operation, and judged by the well-formedness oracle), not about
/// why one item of a batch delete was refused: the COMPARED line lists the failed items as `<index>:<id>` only
/// (`strip_batch_causes` removes the model's `:not_found` / `:storage` / `:partial`), and the cause as the text
/// words it is a coverage statistic (`batch_delete.cause.*`, counted in `CAUSES`).
static CAUSES: std::sync::Mutex<[u64; 4]> = std::sync::Mutex::new([0; 4]);
fn strip_batch_causes(model: &str) -> String {
    model.replace(":not_found", "").replace(":storage", "").replace(":partial", "")
}

fn show_batch_del(r: &graph_engine::BatchDeleteResult) -> String {
    let failed = if r.failed.is_empty() {
        "-".to_string()
    } else {
        r.failed
            .iter()
            .map(|f| {
                let l = f.cause.to_lowercase();
                let c = if l.contains("storage") { 0 } else if l.contains("not found") || l.contains("orrupt") { 1 } else if l.contains("partial") { 2 } else { 3 };
                if let Ok(mut g) = CAUSES.lock() {
                    g[c] += 1;
                }
                format!("{}:{}", f.index, f.id.map_or("?".to_string(), |x| x.to_string()))
            })
            .collect::<Vec<_>>()
            .join(",")
    };
    format!("ok deleted {} failed {failed}", show_ids(&r.deleted_ids))
}

fn exec(g: &GraphEngine, op: &Op) -> String {
    match op {
        Op::CNode { l, v } => match g.create_node(format!("L{l}"), props(*v)) {
            Ok(id) => format!("ok {id}"),
            Err(e) => show_err(&e),
        },
        Op::CEdge { a, b, d, ty, v } => match g.create_edge(*a, *b, format!("T{ty}"), props(*v), *d) {
            Ok(id) => format!("ok {id}"),
            Err(e) => show_err(&e),
        },
        Op::DEdge(e) => g.delete_edge(*e).map_or_else(|e| show_err(&e), |()| "ok".into()),
        Op::DNode(n) => g.delete_node(*n).map_or_else(|e| show_err(&e), |()| "ok".into()),
        Op::UNode { n, l, v } => g
            .update_node(*n, l.map(|x| vec![format!("L{x}")]), props(*v))
            .map_or_else(|e| show_err(&e), |()| "ok".into()),
        Op::UEdge { e, v } => g.update_edge(*e, props(*v)).map_or_else(|e| show_err(&e), |()| "ok".into()),
        Op::ALabel { n, l } => g.add_label(*n, &format!("L{l}")).map_or_else(|e| show_err(&e), |()| "ok".into()),
        Op::RLabel { n, l } => g.remove_label(*n, &format!("L{l}")).map_or_else(|e| show_err(&e), |()| "ok".into()),
        Op::BCN(v) => match g.batch_create_nodes(v.iter().map(|(l, x)| NodeInput::new(vec![format!("L{l}")], props(*x))).collect()) {
            Ok(r) => format!("ok ids {}", show_ids(&r.created_ids)),
            Err(e) => show_err(&e),
        },
        Op::BCE(v) => match g.batch_create_edges(v.iter().map(|(a, b, d, ty, x)| EdgeInput::new(*a, *b, format!("T{ty}"), props(*x), *d)).collect()) {
            Ok(r) => format!("ok ids {}", show_ids(&r.created_ids)),
            Err(e) => show_err(&e),
        },
        Op::BDE(v) => g.batch_delete_edges(v.clone()).map_or_else(|e| show_err(&e), |r| show_batch_del(&r)),
        Op::BDN(v) => g.batch_delete_nodes(v.clone()).map_or_else(|e| show_err(&e), |r| show_batch_del(&r)),
        Op::BUN(v) => match g.batch_update_nodes(v.iter().map(|(n, l, x)| (*n, l.map(|y| vec![format!("L{y}")]), props(*x))).collect()) {
            Ok(c) => format!("ok count {c}"),
            Err(e) => show_err(&e),
        },
        Op::Reopen => "ok".into(),
    }
}

/// `GraphEngine::with_store` over the store of `g` (the store handle is shared, `g` is dropped)
fn reopened(g: GraphEngine) -> GraphEngine {
    let store = g.store().clone();
    drop(g);
    GraphEngine::with_store(store)
}

fn new_engine() -> GraphEngine {
    let g = GraphEngine::new();
    // the lazily created label / edge-type indexes scan the store on first use: create them up front
    // so that no operation under test contains the one-off scan
    let _ = g.create_label_index();
    let _ = g.create_edge_type_index();
    g
}

// ------------------------------------------------------------------ image of the real store

#[derive(Clone, Debug, Default, PartialEq)]
struct EdgeR {
    src: u64,
    dst: u64,
    directed: bool,
    ty: String,
    v: String,
    ok: bool,
}

#[derive(Clone, Debug, Default)]
struct Image {
    nodes: BTreeMap<u64, String>,
    edges: BTreeMap<u64, EdgeR>,
    outs: BTreeMap<u64, Vec<u64>>,
    ins: BTreeMap<u64, Vec<u64>>,
    odd_keys: Vec<String>,
}

fn int_field(t: &TensorData, k: &str) -> Option<i64> {
    match t.get(k) {
        Some(TensorValue::Scalar(ScalarValue::Int(i))) => Some(*i),
        _ => None,
    }
}

fn id_list(t: &TensorData) -> Vec<u64> {
    match t.get("_edges") {
        Some(TensorValue::Pointers(p)) => p.iter().filter_map(|s| s.parse().ok()).collect(),
        _ => Vec::new(),
    }
}

fn image_of(g: &GraphEngine) -> Image {
    let st = g.store();
    let mut im = Image::default();
    for key in st.scan("node:") {
        let Ok(t) = st.get(&key) else { continue };
        let suffix = &key["node:".len()..];
        let parts: Vec<&str> = suffix.split(':').collect();
        match parts.as_slice() {
            [n] => {
                if let Ok(n) = n.parse::<u64>() {
                    let label = match t.get("_labels") {
                        Some(TensorValue::Pointers(ls)) if ls.is_empty() => "-".to_string(),
                        Some(TensorValue::Pointers(ls)) => ls.iter().map(|l| l.trim_start_matches('L').to_string()).collect::<Vec<_>>().join("."),
                        _ => "?".into(),
                    };
                    let v = int_field(&t, "v").map_or("?".into(), |x| x.to_string());
                    im.nodes.insert(n, format!("{label},{v}"));
                } else {
                    im.odd_keys.push(key.clone());
                }
            }
            [n, "out"] => {
                if let Ok(n) = n.parse::<u64>() {
                    im.outs.insert(n, id_list(&t));
                }
            }
            [n, "in"] => {
                if let Ok(n) = n.parse::<u64>() {
                    im.ins.insert(n, id_list(&t));
                }
            }
            _ => im.odd_keys.push(key.clone()),
        }
    }
    for key in st.scan("edge:") {
        let Ok(t) = st.get(&key) else { continue };
        let Ok(e) = key["edge:".len()..].parse::<u64>() else {
            im.odd_keys.push(key.clone());
            continue;
        };
        let (src, dst) = (int_field(&t, "_from"), int_field(&t, "_to"));
        let directed = match t.get("_directed") {
            Some(TensorValue::Scalar(ScalarValue::Bool(b))) => *b,
            _ => true,
        };
        let ty = match t.get("_edge_type") {
            Some(TensorValue::Scalar(ScalarValue::String(s))) => s.trim_start_matches('T').to_string(),
            _ => "?".into(),
        };
        let v = int_field(&t, "v").map_or("?".into(), |x| x.to_string());
        im.edges.insert(
            e,
            EdgeR { src: src.unwrap_or(0) as u64, dst: dst.unwrap_or(0) as u64, directed, ty, v, ok: src.is_some() && dst.is_some() },
        );
    }
    im
}

fn show_ids(v: &[u64]) -> String {
    if v.is_empty() {
        "-".into()
    } else {
        v.iter().map(|x| x.to_string()).collect::<Vec<_>>().join(",")
    }
}

impl Image {
    /// same text as the model driver's `image`
    fn text(&self) -> String {
        let nodes: Vec<String> = self.nodes.iter().map(|(n, s)| format!("{n}({s})")).collect();
        let edges: Vec<String> = self
            .edges
            .iter()
            .map(|(e, r)| if r.ok { format!("{e}({}>{},{},{},{})", r.src, r.dst, u8::from(r.directed), r.ty, r.v) } else { format!("{e}(?)") })
            .collect();
        let outs: Vec<String> = self.outs.iter().map(|(n, l)| format!("{n}=[{}]", show_ids(l))).collect();
        let ins: Vec<String> = self.ins.iter().map(|(n, l)| format!("{n}=[{}]", show_ids(l))).collect();
        format!("N:{}|E:{}|O:{}|I:{}", nodes.join(" "), edges.join(" "), outs.join(" "), ins.join(" "))
    }

    /// The WF monitor (the Lean `WF`, evaluated on the implementation's own store image):
    /// list of (kind, detail).
    fn wf_breaks(&self) -> Vec<(&'static str, String)> {
        let mut bad = Vec::new();
        let empty: Vec<u64> = Vec::new();
        let out = |n: u64| self.outs.get(&n).unwrap_or(&empty);
        let inn = |n: u64| self.ins.get(&n).unwrap_or(&empty);
        for (e, r) in &self.edges {
            if !r.ok {
                bad.push(("corrupted_edge_record", format!("edge {e}")));
                continue;
            }
            if !self.nodes.contains_key(&r.src) || !self.nodes.contains_key(&r.dst) {
                bad.push(("edge_endpoint_missing", format!("edge {e} {}->{}", r.src, r.dst)));
                continue;
            }
            let mut missing = Vec::new();
            if !out(r.src).contains(e) {
                missing.push(format!("node:{}:out", r.src));
            }
            if !inn(r.dst).contains(e) {
                missing.push(format!("node:{}:in", r.dst));
            }
            if !r.directed {
                if !out(r.dst).contains(e) {
                    missing.push(format!("node:{}:out", r.dst));
                }
                if !inn(r.src).contains(e) {
                    missing.push(format!("node:{}:in", r.src));
                }
            }
            if !missing.is_empty() {
                bad.push(("edge_not_listed", format!("edge {e} {}->{} missing from {}", r.src, r.dst, missing.join(","))));
            }
        }
        for (is_out, lists) in [(true, &self.outs), (false, &self.ins)] {
            for (n, l) in lists {
                let nm = if is_out { "out" } else { "in" };
                for e in l {
                    match self.edges.get(e) {
                        None => bad.push(("dangling_entry", format!("node:{n}:{nm} lists missing edge {e}"))),
                        Some(r) => {
                            let touches = if is_out { r.src == *n || (!r.directed && r.dst == *n) } else { r.dst == *n || (!r.directed && r.src == *n) };
                            if !touches {
                                bad.push(("entry_wrong_node", format!("node:{n}:{nm} lists edge {e} {}->{}", r.src, r.dst)));
                            }
                        }
                    }
                }
                let set: BTreeSet<&u64> = l.iter().collect();
                if set.len() != l.len() {
                    bad.push(("duplicate_entry", format!("node:{n}:{nm} = {l:?}")));
                }
            }
        }
        bad
    }

    /// neighbors / degree as the SET OF EXISTING EDGES implies (the spec side of
    /// `neighbors_spec` / `degree_spec`)
    fn spec_neighbors(&self, n: u64, dir: &str, ty: Option<u64>) -> Option<Vec<u64>> {
        if !self.nodes.contains_key(&n) {
            return None;
        }
        let mut s = BTreeSet::new();
        for r in self.edges.values() {
            if let Some(t) = ty {
                if r.ty != t.to_string() {
                    continue;
                }
            }
            let outgoing = dir == "out" || dir == "both";
            let incoming = dir == "in" || dir == "both";
            // an undirected edge is outgoing and incoming at both ends
            if (outgoing && (r.src == n || (!r.directed && r.dst == n))) || (incoming && (r.dst == n || (!r.directed && r.src == n))) {
                let other = if r.src == n { r.dst } else { r.src };
                if other != n && self.nodes.contains_key(&other) {
                    s.insert(other);
                }
            }
        }
        Some(s.into_iter().collect())
    }
    /// `edges_of(n, dir)` as the set of existing edges implies: the edges incident to `n` in that
    /// direction (an undirected edge is outgoing and incoming at both ends), ascending by id
    fn spec_edges_of(&self, n: u64, dir: &str) -> Option<Vec<u64>> {
        if !self.nodes.contains_key(&n) {
            return None;
        }
        let outgoing = dir == "out" || dir == "both";
        let incoming = dir == "in" || dir == "both";
        Some(
            self.edges
                .iter()
                .filter(|(_, r)| r.ok && ((outgoing && (r.src == n || (!r.directed && r.dst == n))) || (incoming && (r.dst == n || (!r.directed && r.src == n)))))
                .map(|(e, _)| *e)
                .collect(),
        )
    }
    /// `traverse(start, dir, depth, ty)` as the set of existing edges implies: the nodes within `depth`
    /// hops (an undirected edge can be walked from either end), ascending
    fn spec_traverse(&self, start: u64, dir: &str, depth: usize, ty: Option<u64>) -> Option<Vec<u64>> {
        if !self.nodes.contains_key(&start) {
            return None;
        }
        let outgoing = dir == "out" || dir == "both";
        let incoming = dir == "in" || dir == "both";
        let mut seen: BTreeSet<u64> = BTreeSet::new();
        seen.insert(start);
        let mut frontier = vec![start];
        for _ in 0..depth {
            let mut next = Vec::new();
            for n in &frontier {
                for r in self.edges.values() {
                    if !r.ok || ty.map_or(false, |t| r.ty != t.to_string()) {
                        continue;
                    }
                    let mut step = |from: u64, to: u64| {
                        if from == *n && seen.insert(to) {
                            next.push(to);
                        }
                    };
                    if outgoing || !r.directed {
                        step(r.src, r.dst);
                    }
                    if incoming || !r.directed {
                        step(r.dst, r.src);
                    }
                }
            }
            if next.is_empty() {
                break;
            }
            frontier = next;
        }
        Some(seen.into_iter().filter(|n| self.nodes.contains_key(n)).collect())
    }
    fn spec_degree_by_type(&self, n: u64, ty: u64) -> Option<(usize, usize)> {
        if !self.nodes.contains_key(&n) {
            return None;
        }
        let t = ty.to_string();
        let o = self.edges.values().filter(|r| r.ty == t && (r.src == n || (!r.directed && r.dst == n))).count();
        let i = self.edges.values().filter(|r| r.ty == t && (r.dst == n || (!r.directed && r.src == n))).count();
        Some((o, i))
    }
    fn show_edge(&self, e: u64) -> String {
        let r = &self.edges[&e];
        format!("{e}({}>{},{},{},{})", r.src, r.dst, u8::from(r.directed), r.ty, r.v)
    }
    fn spec_degree(&self, n: u64) -> Option<(usize, usize)> {
        if !self.nodes.contains_key(&n) {
            return None;
        }
        let o = self.edges.values().filter(|r| r.src == n || (!r.directed && r.dst == n)).count();
        let i = self.edges.values().filter(|r| r.dst == n || (!r.directed && r.src == n)).count();
        Some((o, i))
    }
}

fn dir_of(d: &str) -> Direction {
    match d {
        "out" => Direction::Outgoing,
        "in" => Direction::Incoming,
        _ => Direction::Both,
    }
}

fn q_neigh(g: &GraphEngine, n: u64, dir: &str, ty: Option<u64>) -> String {
    let t = ty.map(|t| format!("T{t}"));
    match g.neighbors(n, t.as_deref(), dir_of(dir), None) {
        Ok(ns) => format!("ok {}", show_ids(&ns.iter().map(|x| x.id).collect::<Vec<_>>())),
        Err(_) => "err node_not_found".into(),
    }
}
fn q_deg(g: &GraphEngine, n: u64) -> String {
    match (g.out_degree(n), g.in_degree(n), g.degree(n)) {
        (Ok(o), Ok(i), Ok(t)) => format!("ok {o} {i} {t}"),
        _ => "err node_not_found".into(),
    }
}
fn q_trav(g: &GraphEngine, n: u64, dir: &str, depth: usize, ty: Option<u64>) -> String {
    let t = ty.map(|t| format!("T{t}"));
    match g.traverse(n, dir_of(dir), depth, t.as_deref(), None) {
        Ok(ns) => {
            let mut ids: Vec<u64> = ns.iter().map(|x| x.id).collect();
            ids.sort_unstable();
            ids.dedup();
            format!("ok {}", show_ids(&ids))
        }
        Err(_) => "err node_not_found".into(),
    }
}

fn show_edge(e: &graph_engine::Edge) -> String {
    let v = match e.properties.get("v") {
        Some(PropertyValue::Int(i)) => i.to_string(),
        _ => "?".into(),
    };
    format!("{}({}>{},{},{},{v})", e.id, e.from, e.to, u8::from(e.directed), e.edge_type.trim_start_matches('T'))
}
fn show_edges(es: &[graph_engine::Edge]) -> String {
    if es.is_empty() {
        "-".into()
    } else {
        es.iter().map(show_edge).collect::<Vec<_>>().join(" ")
    }
}
fn q_eof(g: &GraphEngine, n: u64, dir: &str) -> (String, Vec<u64>) {
    match g.edges_of(n, dir_of(dir)) {
        Ok(es) => (format!("ok {}", show_edges(&es)), es.iter().map(|e| e.id).collect()),
        Err(_) => ("err node_not_found".into(), Vec::new()),
    }
}
fn page(skip: usize, limit: Option<usize>) -> Pagination {
    Pagination { skip, limit, count_total: true }
}
fn q_eofp(g: &GraphEngine, n: u64, dir: &str, skip: usize, limit: Option<usize>) -> (String, Vec<u64>) {
    match g.edges_of_paginated(n, dir_of(dir), page(skip, limit)) {
        Ok(p) => (
            format!("ok {} total={} more={}", show_edges(&p.items), p.total_count.map_or("?".to_string(), |t| t.to_string()), u8::from(p.has_more)),
            p.items.iter().map(|e| e.id).collect(),
        ),
        Err(_) => ("err node_not_found".into(), Vec::new()),
    }
}
fn q_neighp(g: &GraphEngine, n: u64, dir: &str, ty: Option<u64>, skip: usize, limit: Option<usize>) -> (String, Vec<u64>) {
    let t = ty.map(|t| format!("T{t}"));
    match g.neighbors_paginated(n, t.as_deref(), dir_of(dir), None, page(skip, limit)) {
        Ok(p) => {
            let ids: Vec<u64> = p.items.iter().map(|x| x.id).collect();
            (format!("ok {} total={} more={}", show_ids(&ids), p.total_count.map_or("?".to_string(), |t| t.to_string()), u8::from(p.has_more)), ids)
        }
        Err(_) => ("err node_not_found".into(), Vec::new()),
    }
}
fn q_degty(g: &GraphEngine, n: u64, ty: u64) -> String {
    let t = format!("T{ty}");
    match (g.out_degree_by_type(n, &t), g.in_degree_by_type(n, &t), g.degree_by_type(n, &t)) {
        (Ok(o), Ok(i), Ok(d)) => format!("ok {o} {i} {d}"),
        _ => "err node_not_found".into(),
    }
}
fn q_gedge(g: &GraphEngine, e: u64) -> String {
    match g.get_edge(e) {
        Ok(x) => format!("ok {}", show_edge(&x)),
        Err(_) => format!("err edge_not_found {e}"),
    }
}
fn q_gnode(g: &GraphEngine, n: u64) -> String {
    match g.get_node(n) {
        Ok(x) => {
            let ls = if x.labels.is_empty() { "-".to_string() } else { x.labels.iter().map(|l| l.trim_start_matches('L').to_string()).collect::<Vec<_>>().join(".") };
            let v = match x.properties.get("v") {
                Some(PropertyValue::Int(i)) => i.to_string(),
                _ => "?".into(),
            };
            format!("ok {ls},{v}")
        }
        Err(_) => format!("err node_not_found {n}"),
    }
}

// ------------------------------------------------------------------ sequential scripts

struct Gen {
    nodes: Vec<u64>,
    edges: Vec<u64>,
    max_node: u64,
    max_edge: u64,
}

impl Gen {
    fn new() -> Self {
        Gen { nodes: vec![], edges: vec![], max_node: 0, max_edge: 0 }
    }
    fn node(&self, r: &mut Rng) -> u64 {
        if self.nodes.is_empty() || r.chance(1, 12) {
            // dead / never existing id
            r.below(self.max_node + 3)
        } else if r.chance(1, 3) {
            self.nodes[0] // hub bias
        } else {
            *r.pick(&self.nodes)
        }
    }
    fn edge(&self, r: &mut Rng) -> u64 {
        if self.edges.is_empty() || r.chance(1, 10) {
            r.below(self.max_edge + 3)
        } else {
            *r.pick(&self.edges)
        }
    }
    fn op(&self, r: &mut Rng) -> Op {
        let w = r.below(122);
        if w >= 100 && self.nodes.len() >= 2 {
            return match w {
                100..=102 => Op::ALabel { n: self.node(r), l: r.below(3) },
                103..=104 => Op::RLabel { n: self.node(r), l: r.below(3) },
                105..=107 => Op::BCN((0..r.below(5)).map(|_| (r.below(3), r.below(5))).collect()),
                108..=112 => {
                    // endpoints mostly live (a dead one fails the whole batch before any write)
                    let k = r.below(6);
                    let safe = r.chance(3, 4);
                    Op::BCE(
                        (0..k)
                            .map(|_| {
                                let a = if safe { *r.pick(&self.nodes) } else { self.node(r) };
                                let b = if r.chance(1, 8) { a } else if safe { *r.pick(&self.nodes) } else { self.node(r) };
                                (a, b, r.chance(1, 2), r.below(2), r.below(5))
                            })
                            .collect(),
                    )
                }
                113..=115 => Op::BDE((0..r.below(5)).map(|_| self.edge(r)).collect()),
                116..=117 => Op::BDN((0..r.below(4)).map(|_| self.node(r)).collect()),
                118..=119 => {
                    let safe = r.chance(2, 3);
                    Op::BUN((0..r.below(4)).map(|_| (if safe { *r.pick(&self.nodes) } else { self.node(r) }, if r.chance(1, 2) { Some(r.below(3)) } else { None }, r.below(9))).collect())
                }
                _ => Op::Reopen,
            };
        }
        let w = w % 100;
        if self.nodes.len() < 2 || w < 18 {
            Op::CNode { l: r.below(3), v: r.below(5) }
        } else if w < 58 {
            let a = self.node(r);
            let b = if r.chance(1, 8) { a } else { self.node(r) };
            Op::CEdge { a, b, d: r.chance(1, 2), ty: r.below(2), v: r.below(5) }
        } else if w < 72 {
            Op::DEdge(self.edge(r))
        } else if w < 82 {
            Op::DNode(self.node(r))
        } else if w < 91 {
            Op::UNode { n: self.node(r), l: if r.chance(1, 2) { Some(r.below(3)) } else { None }, v: r.below(9) }
        } else {
            Op::UEdge { e: self.edge(r), v: r.below(9) }
        }
    }
    /// track live ids from the implementation's answer and image
    fn note(&mut self, im: &Image) {
        self.nodes = im.nodes.keys().copied().collect();
        self.edges = im.edges.keys().copied().collect();
        self.max_node = self.max_node.max(self.nodes.iter().copied().max().unwrap_or(0));
        self.max_edge = self.max_edge.max(self.edges.iter().copied().max().unwrap_or(0));
    }
}

/// classify a broken WF clause into "<site>/<kind>" from the image, the operations involved and the
/// endpoints of every edge that existed during the run.
///
/// A break that involves a node some thread deletes concurrently (the broken edge has it as an
/// endpoint; the list with the dangling entry belongs to it, or the vanished edge had it as an
/// endpoint) is the node-deletion race `create_edge/edge_to_deleted_node`: an operation that has
/// passed its existence check (or has read the node's lists) keeps writing after `delete_node`
/// removed the node, its lists and its edges.  Only breaks that involve NO concurrently deleted node
/// are attributed to the adjacency-list read-modify-write (`lost_adjacency_entry`, `lost_removal`:
/// fixed by the list lock, regression classes).
fn classify(kind: &str, detail: &str, ops: &[Op], im: &Image, edges: &HashMap<u64, (u64, u64, bool)>) -> String {
    let num_after = |word: &str| -> Option<u64> {
        detail.split_whitespace().skip_while(|w| *w != word).nth(1).and_then(|s| s.trim_matches(|c: char| !c.is_ascii_digit()).parse().ok())
    };
    let edge_id = num_after("edge");
    let updated = |e: u64| ops.iter().any(|o| matches!(o, Op::UEdge { e: x, .. } if *x == e));
    // `batch_delete_nodes` calls `delete_node` for each of its ids
    let node_deleted = |n: u64| ops.iter().any(|o| matches!(o, Op::DNode(x) if *x == n) || matches!(o, Op::BDN(v) if v.contains(&n)));
    let endpoint_deleted = |e: u64| {
        let ends = im.edges.get(&e).map(|r| (r.src, r.dst)).or_else(|| edges.get(&e).map(|(a, b, _)| (*a, *b)));
        ends.map_or(false, |(a, b)| node_deleted(a) || node_deleted(b))
    };
    const NODE_RACE: &str = "graph_engine.create_edge/edge_to_deleted_node";
    match kind {
        "edge_endpoint_missing" => NODE_RACE.into(),
        "edge_not_listed" => {
            if let Some(e) = edge_id {
                let nowhere = !im.outs.values().any(|l| l.contains(&e)) && !im.ins.values().any(|l| l.contains(&e));
                if updated(e) && nowhere {
                    return "graph_engine.update_edge/resurrects_deleted_edge".into();
                }
                if endpoint_deleted(e) {
                    return NODE_RACE.into();
                }
            }
            "graph_engine.add_edge_to_list/lost_adjacency_entry".into()
        }
        "dangling_entry" => {
            // detail: "node:N:dir lists missing edge E"
            let owner: Option<u64> = detail.strip_prefix("node:").and_then(|r| r.split(':').next()).and_then(|n| n.parse().ok());
            if owner.map_or(false, node_deleted) || edge_id.map_or(false, endpoint_deleted) {
                return NODE_RACE.into();
            }
            "graph_engine.remove_edge_from_list/lost_removal".into()
        }
        "entry_wrong_node" => "graph_engine.add_edge_to_list/entry_wrong_node".into(),
        "duplicate_entry" => "graph_engine.add_edge_to_list/duplicate_entry".into(),
        other => format!("graph_engine.store_image/{other}"),
    }
}

/// node / edge ids a broken WF clause talks about: (owner of the list, edge id, endpoints of that edge)
fn break_ids(detail: &str, im: &Image, edges: &HashMap<u64, (u64, u64, bool)>) -> (Option<u64>, Option<u64>, Option<(u64, u64)>) {
    let num_after = |word: &str| -> Option<u64> {
        detail.split_whitespace().skip_while(|w| *w != word).nth(1).and_then(|s| s.trim_matches(|c: char| !c.is_ascii_digit()).parse().ok())
    };
    let edge_id = num_after("edge");
    let owner: Option<u64> = detail.strip_prefix("node:").and_then(|r| r.split(':').next()).and_then(|n| n.parse().ok());
    let ends = edge_id.and_then(|e| im.edges.get(&e).map(|r| (r.src, r.dst)).or_else(|| edges.get(&e).map(|(a, b, _)| (*a, *b))));
    (owner, edge_id, ends)
}

/// did some thread store the record `node:N` and LATER (in the same operation sequence) write one of
/// the lists `node:N:out` / `node:N:in`?  That is `create_node` / `create_node_internal` initialising
/// the lists after the node became visible (the order before /repo e23bf6c3).
fn lists_written_after_record(trace: &[Step], n: u64) -> bool {
    let rec = format!("node:{n}");
    let (out, inn) = (format!("node:{n}:out"), format!("node:{n}:in"));
    trace.iter().enumerate().any(|(i, s)| {
        s.site == "store.put" && s.key == rec && trace[i + 1..].iter().any(|x| x.thread == s.thread && x.site == "store.put" && (x.key == out || x.key == inn))
    })
}

/// Regression oracle of /repo e23bf6c3 (class graph_engine.create_node/lists_initialised_after_node_visible):
/// the broken clause involves a node N handed out DURING the concurrent phase (`> nn0`: N is an endpoint
/// of the broken edge or owns the list) AND the yield trace shows the creator of N writing one of N's
/// lists after N's record: the empty list wiped what a `create_edge` that already saw the node had appended.
fn classify_late_lists(kind: &str, detail: &str, trace: &[Step], im: &Image, edges: &HashMap<u64, (u64, u64, bool)>, nn0: u64) -> Option<String> {
    if !matches!(kind, "edge_not_listed" | "dangling_entry" | "edge_endpoint_missing") {
        return None;
    }
    let (owner, _, ends) = break_ids(detail, im, edges);
    let mut involved: Vec<u64> = owner.into_iter().collect();
    if let Some((a, b)) = ends {
        involved.push(a);
        involved.push(b);
    }
    if involved.iter().any(|n| *n > nn0 && lists_written_after_record(trace, *n)) {
        Some("graph_engine.create_node/lists_initialised_after_node_visible".into())
    } else {
        None
    }
}

/// Breaks that involve an EDGE id handed out during the concurrent phase (`> ne0`) that some thread
/// deletes: `create_edge` stores the record first and appends the list entries afterwards,
/// `delete_edge` in between removes the record only.  Outside the property's quantifier (the id of an
/// edge whose create_edge has not returned can only be guessed): an observation, in the streams that
/// deliberately name such ids.
fn classify_fresh(kind: &str, detail: &str, ops: &[Op], im: &Image, edges: &HashMap<u64, (u64, u64, bool)>, ne0: u64) -> Option<String> {
    let (_, edge_id, _) = break_ids(detail, im, edges);
    let deleted = |e: u64| ops.iter().any(|o| matches!(o, Op::DEdge(x) if *x == e) || matches!(o, Op::BDE(v) if v.contains(&e)));
    match kind {
        "edge_not_listed" | "dangling_entry" | "edge_endpoint_missing" => {
            if let Some(e) = edge_id {
                if e > ne0 && deleted(e) {
                    return Some("graph_engine.delete_edge/edge_still_being_created".into());
                }
            }
            None
        }
        _ => None,
    }
}

/// One read-modify-write of an adjacency list as the yield trace shows it: thread `t` performed
/// `store.get K` (step `get`) and, as its NEXT store call, `store.put K` (step `put`), K a list key.
/// (`create_node` only puts, `delete_node` reads its own two lists without writing them back: neither
/// is a section.)
#[derive(Clone, Debug)]
struct RmwSection {
    thread: usize,
    key: String,
    get: usize,
    put: usize,
}

fn rmw_sections(trace: &[Step]) -> Vec<RmwSection> {
    let mut out = Vec::new();
    for (i, s) in trace.iter().enumerate() {
        if s.site == "store.get" && is_list_key(&s.key) {
            if let Some((j, nx)) = trace.iter().enumerate().skip(i + 1).find(|(_, x)| x.thread == s.thread && x.site != "thread.start") {
                if nx.site == "store.put" && nx.key == s.key {
                    out.push(RmwSection { thread: s.thread, key: s.key.clone(), get: i, put: j });
                }
            }
        }
    }
    out
}

/// Pairs of sections of DIFFERENT threads on the SAME list whose step intervals intersect: the second
/// thread read or wrote the list between the first one's read and write.  With the list lock
/// (`edge_list_lock`, taken before the `store.get` and dropped after the `store.put`) there is none
/// (Lean: `list_rmw_sections_exclusive`, for every operation that writes lists).
fn rmw_overlaps(trace: &[Step]) -> Vec<(RmwSection, RmwSection)> {
    let secs = rmw_sections(trace);
    let mut out = Vec::new();
    for (i, a) in secs.iter().enumerate() {
        for b in secs.iter().skip(i + 1) {
            if a.thread != b.thread && a.key == b.key && a.get < b.put && b.get < a.put {
                out.push((a.clone(), b.clone()));
            }
        }
    }
    out
}

/// list keys a broken WF clause is about
fn break_keys(kind: &str, detail: &str) -> Vec<String> {
    match kind {
        "edge_not_listed" => detail.split("missing from ").nth(1).map_or(Vec::new(), |l| l.split(',').map(|x| x.trim().to_string()).collect()),
        "dangling_entry" | "entry_wrong_node" | "duplicate_entry" => detail.split_whitespace().next().map(|k| k.to_string()).into_iter().collect(),
        _ => Vec::new(),
    }
}

/// Regression oracle of the list lock, every concurrent stream, evaluated BEFORE a break is attributed to
/// a known finding: the broken clause is about list K and the yield trace shows two threads inside a
/// read-modify-write of K at the same time.  The class names the mechanism (the mutual exclusion of the
/// list updates), whatever operations the two threads were running.
fn classify_overlap(kind: &str, detail: &str, overlaps: &[(RmwSection, RmwSection)]) -> Option<(String, String)> {
    let keys = break_keys(kind, detail);
    overlaps.iter().find(|(a, _)| keys.contains(&a.key)).map(|(a, b)| {
        (
            "graph_engine.edge_list_lock/list_update_not_exclusive".to_string(),
            format!(
                "thread {} read {} at step {} and wrote it at step {}; thread {} read it at step {} and wrote it at step {}",
                a.thread, a.key, a.get, a.put, b.thread, b.get, b.put
            ),
        )
    })
}

struct SeqFail {
    at: usize,
    what: String,
    violation: Option<(String, String)>,
}

/// Run one sequential script on a fresh engine and a reset model; stop at the first failure.
fn run_script(ops: &[Op], queries: bool, m: &mut Model, rep: Option<&mut Report>, qr: &mut Rng) -> Option<SeqFail> {
    let mut g = new_engine();
    m.ask("reset");
    let mut rep = rep;
    for (i, op) in ops.iter().enumerate() {
        if *op == Op::Reopen {
            g = reopened(g);
        }
        let imp = match guarded(std::panic::AssertUnwindSafe(|| exec(&g, op))) {
            Ok(s) => s,
            Err(p) => return Some(SeqFail { at: i, what: format!("panic: {p}"), violation: Some((format!("graph_engine/{}_panics", op.name()), p)) }),
        };
        let mo = strip_batch_causes(&m.ask(&op.line()));
        if let Some(r) = rep.as_deref_mut() {
            let tag = if imp.starts_with("ok") { "ok".to_string() } else { format!("err_{}", imp.split_whitespace().nth(1).unwrap_or("")) };
            r.hit(&format!("seq.{}.{tag}", op.name()));
        }
        let im = image_of(&g);
        let breaks = im.wf_breaks();
        if let Some((kind, detail)) = breaks.first() {
            return Some(SeqFail {
                at: i,
                what: format!("{kind}: {detail}"),
                violation: Some((format!("graph_engine/{}_breaks_wf", op.name()), format!("after sequential {}: {kind}: {detail}", op.name()))),
            });
        }
        if imp != mo {
            return Some(SeqFail { at: i, what: format!("result impl={imp} model={mo}"), violation: None });
        }
        let it = im.text();
        let mt = m.ask("image");
        if it != mt {
            return Some(SeqFail { at: i, what: format!("image impl={it} model={mt}"), violation: None });
        }
        if m.ask("wf") != "ok" {
            return Some(SeqFail { at: i, what: "model wf monitor disagrees with harness monitor".into(), violation: None });
        }
        if !im.odd_keys.is_empty() {
            return Some(SeqFail { at: i, what: format!("unexpected keys {:?}", im.odd_keys), violation: None });
        }
        if queries && qr.chance(1, 3) {
            // scans: all_edges / all_nodes / counts vs model AND vs the store image
            let all = g.all_edges();
            let a = show_edges(&all);
            let b = m.ask("alledges");
            if a != b {
                return Some(SeqFail { at: i, what: format!("all_edges: impl={a} model={b}"), violation: None });
            }
            let stored: Vec<u64> = im.edges.iter().filter(|(_, r)| r.ok).map(|(e, _)| *e).collect();
            if all.iter().map(|e| e.id).collect::<Vec<_>>() != stored || g.edge_count() != im.edges.len() {
                let w = format!("all_edges() = {a} (edge_count {}), the store holds edges {stored:?}", g.edge_count());
                return Some(SeqFail { at: i, what: w.clone(), violation: Some(("graph_engine.all_edges/not_the_stored_edges".into(), w)) });
            }
            let mut nids = g.get_all_node_ids().unwrap_or_default();
            nids.sort_unstable();
            let a = show_ids(&nids);
            let b = m.ask("allnodes");
            let a2 = show_ids(&g.all_nodes().iter().map(|x| x.id).collect::<Vec<_>>());
            if a != b || a2 != b {
                return Some(SeqFail { at: i, what: format!("all node ids: get_all_node_ids={a} all_nodes={a2} model={b}"), violation: None });
            }
            let stored: Vec<u64> = im.nodes.keys().copied().collect();
            if nids != stored {
                let w = format!("get_all_node_ids() = {a}, the store holds nodes {stored:?}");
                return Some(SeqFail { at: i, what: w.clone(), violation: Some(("graph_engine.all_nodes/not_the_stored_nodes".into(), w)) });
            }
            let a = format!("{} {}", g.node_count(), g.edge_count());
            let b = m.ask("counts");
            if a != b {
                return Some(SeqFail { at: i, what: format!("counts: impl={a} model={b}"), violation: None });
            }
        }
        if queries {
            // queries: answers vs model AND vs the edge-set oracle
            let nq = 1 + qr.below(2);
            for _ in 0..nq {
                let n = if im.nodes.is_empty() || qr.chance(1, 10) { qr.below(8) } else { *qr.pick(&im.nodes.keys().copied().collect::<Vec<_>>()) };
                let dir = *qr.pick(&["out", "in", "both"]);
                let ty = if qr.chance(1, 3) { Some(qr.below(2)) } else { None };
                let tys = ty.map_or("-".to_string(), |t| t.to_string());
                let a = q_neigh(&g, n, dir, ty);
                let spec = im.spec_neighbors(n, dir, ty).map_or("err node_not_found".to_string(), |v| format!("ok {}", show_ids(&v)));
                if a != spec {
                    return Some(SeqFail {
                        at: i,
                        what: format!("neighbors({n},{dir},{tys}) = {a}, edge set implies {spec}"),
                        violation: Some(("graph_engine.neighbors/not_what_edge_set_implies".into(), format!("neighbors({n},{dir},{tys}) = {a}, edge set implies {spec}"))),
                    });
                }
                let b = m.ask(&format!("neigh {n} {dir} {tys}"));
                if a != b {
                    return Some(SeqFail { at: i, what: format!("neigh {n} {dir} {tys}: impl={a} model={b}"), violation: None });
                }
                let a = q_deg(&g, n);
                let spec = im.spec_degree(n).map_or("err node_not_found".to_string(), |(o, i)| format!("ok {o} {i} {}", o + i));
                if a != spec {
                    return Some(SeqFail {
                        at: i,
                        what: format!("degree({n}) = {a}, edge set implies {spec}"),
                        violation: Some(("graph_engine.degree/not_what_edge_set_implies".into(), format!("degree({n}) = {a}, edge set implies {spec}"))),
                    });
                }
                let b = m.ask(&format!("deg {n}"));
                if a != b {
                    return Some(SeqFail { at: i, what: format!("deg {n}: impl={a} model={b}"), violation: None });
                }
                let depth = qr.below(4) as usize;
                let a = q_trav(&g, n, dir, depth, ty);
                let spec = im.spec_traverse(n, dir, depth, ty).map_or("err node_not_found".to_string(), |v| format!("ok {}", show_ids(&v)));
                if a != spec {
                    let w = format!("traverse({n},{dir},depth {depth},{tys}) = {a}, edge set implies {spec}");
                    return Some(SeqFail { at: i, what: w.clone(), violation: Some(("graph_engine.traverse/not_what_edge_set_implies".into(), w)) });
                }
                let b = m.ask(&format!("trav {n} {dir} {depth} {tys}"));
                if a != b {
                    return Some(SeqFail { at: i, what: format!("trav {n} {dir} {depth} {tys}: impl={a} model={b}"), violation: None });
                }
                if qr.chance(1, 2) {
                    if let Some(r) = rep.as_deref_mut() {
                        r.hit("seq.query");
                    }
                    continue;
                }
                // ---- edges_of / edges_of_paginated / neighbors_paginated / degree by type
                let (a, ids) = q_eof(&g, n, dir);
                let spec = im.spec_edges_of(n, dir);
                let spec_txt = spec.as_ref().map_or("err node_not_found".to_string(), |v| if v.is_empty() { "ok -".to_string() } else { format!("ok {}", v.iter().map(|e| im.show_edge(*e)).collect::<Vec<_>>().join(" ")) });
                if a != spec_txt {
                    let w = format!("edges_of({n},{dir}) = {a}, edge set implies {spec_txt}");
                    return Some(SeqFail { at: i, what: w.clone(), violation: Some(("graph_engine.edges_of/not_what_edge_set_implies".into(), w)) });
                }
                let b = m.ask(&format!("eof {n} {dir}"));
                if a != b {
                    return Some(SeqFail { at: i, what: format!("eof {n} {dir}: impl={a} model={b}"), violation: None });
                }
                let skip = qr.below(3) as usize;
                let limit = if qr.chance(1, 4) { None } else { Some(qr.below(4) as usize) };
                let lims = limit.map_or("-".to_string(), |l| l.to_string());
                let (a, pids) = q_eofp(&g, n, dir, skip, limit);
                if spec.is_some() {
                    let want: Vec<u64> = ids.iter().copied().skip(skip).take(limit.unwrap_or(usize::MAX)).collect();
                    let more = limit.map_or(false, |l| ids.len() > skip + l);
                    let tail = format!("total={} more={}", ids.len(), u8::from(more));
                    if pids != want || !a.ends_with(&tail) {
                        let w = format!("edges_of_paginated({n},{dir},skip={skip},limit={lims}) = {a}, edges_of has ids {ids:?}");
                        return Some(SeqFail { at: i, what: w.clone(), violation: Some(("graph_engine.edges_of_paginated/not_a_page_of_edges_of".into(), w)) });
                    }
                }
                let b = m.ask(&format!("eofp {n} {dir} {skip} {lims}"));
                if a != b {
                    return Some(SeqFail { at: i, what: format!("eofp {n} {dir} {skip} {lims}: impl={a} model={b}"), violation: None });
                }
                let (a, pids) = q_neighp(&g, n, dir, ty, skip, limit);
                if let Some(all) = im.spec_neighbors(n, dir, ty) {
                    let want: Vec<u64> = all.iter().copied().skip(skip).take(limit.unwrap_or(usize::MAX)).collect();
                    let more = limit.map_or(false, |l| all.len() > skip + l);
                    let tail = format!("total={} more={}", all.len(), u8::from(more));
                    if pids != want || !a.ends_with(&tail) {
                        let w = format!("neighbors_paginated({n},{dir},{tys},skip={skip},limit={lims}) = {a}, edge set implies neighbours {all:?}");
                        return Some(SeqFail { at: i, what: w.clone(), violation: Some(("graph_engine.neighbors_paginated/not_a_page_of_neighbors".into(), w)) });
                    }
                }
                let b = m.ask(&format!("neighp {n} {dir} {tys} {skip} {lims}"));
                if a != b {
                    return Some(SeqFail { at: i, what: format!("neighp {n} {dir} {tys} {skip} {lims}: impl={a} model={b}"), violation: None });
                }
                let qty = qr.below(2);
                let a = q_degty(&g, n, qty);
                let spec = im.spec_degree_by_type(n, qty).map_or("err node_not_found".to_string(), |(o, i)| format!("ok {o} {i} {}", o + i));
                if a != spec {
                    let w = format!("degree_by_type({n},T{qty}) = {a}, edge set implies {spec}");
                    return Some(SeqFail { at: i, what: w.clone(), violation: Some(("graph_engine.degree_by_type/not_what_edge_set_implies".into(), w)) });
                }
                let b = m.ask(&format!("degty {n} {qty}"));
                if a != b {
                    return Some(SeqFail { at: i, what: format!("degty {n} {qty}: impl={a} model={b}"), violation: None });
                }
                // ---- point reads
                let e = if im.edges.is_empty() || qr.chance(1, 5) { qr.below(12) } else { *qr.pick(&im.edges.keys().copied().collect::<Vec<_>>()) };
                let a = q_gedge(&g, e);
                let b = m.ask(&format!("gedge {e}"));
                if a != b {
                    return Some(SeqFail { at: i, what: format!("gedge {e}: impl={a} model={b}"), violation: None });
                }
                let spec = if im.edges.get(&e).map_or(false, |r| r.ok) { format!("ok {}", im.show_edge(e)) } else { format!("err edge_not_found {e}") };
                if a != spec {
                    let w = format!("get_edge({e}) = {a}, stored record is {spec}");
                    return Some(SeqFail { at: i, what: w.clone(), violation: Some(("graph_engine.get_edge/not_the_stored_record".into(), w)) });
                }
                let a = q_gnode(&g, n);
                let b = m.ask(&format!("gnode {n}"));
                if a != b {
                    return Some(SeqFail { at: i, what: format!("gnode {n}: impl={a} model={b}"), violation: None });
                }
                let a = if g.node_exists(n) { "1" } else { "0" };
                let b = m.ask(&format!("nex {n}"));
                if a != b || (a == "1") != im.nodes.contains_key(&n) {
                    return Some(SeqFail { at: i, what: format!("node_exists({n}): impl={a} model={b} stored={}", im.nodes.contains_key(&n)), violation: None });
                }
                if let Some(r) = rep.as_deref_mut() {
                    r.hit("seq.query");
                    r.hit("seq.query.edges_of_pages_bytype_reads");
                }
            }
        }
    }
    None
}

fn ops_json(ops: &[Op]) -> Value {
    json!(ops.iter().map(|o| o.line()).collect::<Vec<_>>())
}

// ------------------------------------------------------------------ concurrent runs

struct ConcOutcome {
    results: Vec<Vec<String>>,
    trace: Vec<Step>,
    image: Image,
}

fn site_name(s: &str) -> &str {
    match s {
        "store.get" => "get",
        "store.put" => "put",
        "store.delete" => "delete",
        "store.exists" => "exists",
        other => other,
    }
}

/// How `choose` decides.
#[derive(Clone, Copy)]
enum Sched<'a> {
    /// follow the witness schedule exactly (deviation = disagreement)
    Exact(&'a [usize]),
    /// follow the schedule while the wanted thread is parked (it may then wait for the list lock),
    /// otherwise the first thread that can run
    Prefer(&'a [usize]),
    /// seeded random choice among the threads that would not run into a held list lock
    Random,
    /// like `Random`, but every third time a thread is about to take a list lock that another parked
    /// thread holds (LockMirror), grant exactly that thread: on code that takes the stripe lock it waits
    /// (one stall timeout, the holder is granted next); on code whose read-modify-write of the list is
    /// NOT under the lock it runs into the holder's critical section
    Probe,
}

fn is_list_key(k: &str) -> bool {
    k.starts_with("node:") && (k.ends_with(":out") || k.ends_with(":in"))
}

/// `GraphEngine::edge_list_lock`: stripe of `index_locks` (64 by default) chosen by this hash
fn stripe(key: &str) -> usize {
    key.bytes().fold(0usize, |h, b| h.wrapping_mul(31).wrapping_add(usize::from(b))) % 64
}

/// The harness-side mirror of the adjacency-list lock.  A real thread takes `edge_list_lock(key)`
/// right after the store call that precedes `add_edge_to_list` / `remove_edge_from_list` (no yield
/// point in between) and keeps it while parked at the list `store.get` / `store.put`.  From the
/// operation a thread is in, the store calls it has made in it and the call it is parked at, the
/// mirror says which list lock the thread holds and which one it takes next; `choose` does not
/// grant a thread whose next lock shares a stripe with a lock held by another parked thread
/// (such a grant costs the scheduler its stall timeout at every step until the holder releases).
/// A wrong guess only costs time or a schedule that was not tried, never a wrong verdict: the
/// model replays the schedule that really happened.
struct LockMirror {
    ops: Vec<Vec<Op>>,
    /// executed store calls per thread
    hist: Vec<Vec<(String, String)>>,
    op_no: Vec<usize>,
    op_start: Vec<usize>,
    /// edge id -> (from, to, directed), from the setup answers and the `put edge:E` steps
    edges: HashMap<u64, (u64, u64, bool)>,
}

impl LockMirror {
    fn new(ops: &[Vec<Op>], edges: HashMap<u64, (u64, u64, bool)>) -> Self {
        LockMirror { ops: ops.to_vec(), hist: vec![Vec::new(); ops.len()], op_no: vec![0; ops.len()], op_start: vec![0; ops.len()], edges }
    }
    fn sync(&mut self, t: usize, done_ops: usize) {
        if done_ops != self.op_no[t] {
            self.op_no[t] = done_ops;
            self.op_start[t] = self.hist[t].len();
        }
    }
    fn granted(&mut self, t: usize, site: &str, key: &str) {
        if site == "thread.start" {
            return;
        }
        if site == "store.put" && key.starts_with("edge:") {
            if let (Some(Op::CEdge { a, b, d, .. }), Ok(e)) = (self.ops[t].get(self.op_no[t]), key[5..].parse::<u64>()) {
                self.edges.insert(e, (*a, *b, *d));
            }
            // item j of a batch_create_edges: j = number of edge records this call has stored so far
            if let (Some(Op::BCE(items)), Ok(e)) = (self.ops[t].get(self.op_no[t]), key[5..].parse::<u64>()) {
                let j = self.hist[t][self.op_start[t]..].iter().filter(|(s, k)| s == "store.put" && k.starts_with("edge:")).count();
                if let Some((a, b, d, _, _)) = items.get(j) {
                    self.edges.insert(e, (*a, *b, *d));
                }
            }
        }
        self.hist[t].push((site.to_string(), key.to_string()));
    }
    /// does thread `t` start an operation that takes a node / edge id after its current one?
    fn allocates_later(&self, t: usize) -> bool {
        self.ops[t].iter().skip(self.op_no[t] + 1).any(|o| matches!(o, Op::CNode { .. } | Op::CEdge { .. } | Op::BCN(_) | Op::BCE(_)))
    }
    fn edge_seq(a: u64, b: u64, d: bool) -> Vec<String> {
        let mut v = vec![format!("node:{a}:out"), format!("node:{b}:in")];
        if !d {
            v.push(format!("node:{b}:out"));
            v.push(format!("node:{a}:in"));
        }
        v
    }
    /// lists `delete_node(n)` cleans for edge (a, b, d): only the other endpoint's
    fn dnode_seq(n: u64, a: u64, b: u64, d: bool) -> Vec<String> {
        let other = if a == n { b } else { a };
        let mut v = Vec::new();
        if a == n {
            v.push(format!("node:{other}:in"));
        }
        if b == n {
            v.push(format!("node:{other}:out"));
        }
        if !d && other != n {
            v.push(format!("node:{other}:out"));
            v.push(format!("node:{other}:in"));
        }
        v
    }
    /// (list lock held while parked at `(site, key)`, stripes taken right after that call: the next
    /// list lock and the id stripes of the in-memory index maintenance, which shares `index_locks`)
    fn locks(&self, t: usize, site: &str, key: &str) -> (Option<String>, Vec<usize>) {
        let Some(op) = self.ops[t].get(self.op_no[t]) else { return (None, Vec::new()) };
        let steps = &self.hist[t][self.op_start[t]..];
        let id_of = |k: &str, prefix: &str| k.strip_prefix(prefix).and_then(|x| x.parse::<u64>().ok());
        let plain_node = |k: &str| k.starts_with("node:") && !is_list_key(k);
        // A batch call is the sequence of its items' single operations (create_edge_internal /
        // create_node_internal after the validation phase, delete_edge, delete_node, update_node): find
        // the item the thread is in from the store calls the call has made, then the single-operation rule.
        match op {
            Op::BCE(items) => {
                let puts: Vec<usize> = steps.iter().enumerate().filter(|(_, (s, k))| s == "store.put" && k.starts_with("edge:")).map(|(i, _)| i).collect();
                let (j, sub): (usize, &[(String, String)]) = if site == "store.put" && key.starts_with("edge:") {
                    (puts.len(), &[])
                } else if let Some(p) = puts.last() {
                    (puts.len() - 1, &steps[*p..])
                } else {
                    return (None, Vec::new()); // validation phase: node_exists calls only
                };
                match items.get(j) {
                    Some((a, b, d, ty, v)) => self.locks_single(&Op::CEdge { a: *a, b: *b, d: *d, ty: *ty, v: *v }, sub, site, key),
                    None => (None, Vec::new()),
                }
            }
            Op::BCN(_) => self.locks_single(&Op::CNode { l: 0, v: 0 }, steps, site, key),
            Op::BDE(_) => {
                if site == "store.get" && key.starts_with("edge:") {
                    return match id_of(key, "edge:") {
                        Some(e) => self.locks_single(&Op::DEdge(e), &[], site, key),
                        None => (None, Vec::new()),
                    };
                }
                match steps.iter().rposition(|(s, k)| s == "store.get" && k.starts_with("edge:")) {
                    Some(p) => match id_of(&steps[p].1, "edge:") {
                        Some(e) => self.locks_single(&Op::DEdge(e), &steps[p..], site, key),
                        None => (None, Vec::new()),
                    },
                    None => (None, Vec::new()),
                }
            }
            Op::BDN(_) => {
                if site == "store.get" && plain_node(key) {
                    return (None, Vec::new()); // get_node of the next item
                }
                match steps.iter().rposition(|(s, k)| s == "store.get" && plain_node(k)) {
                    Some(p) => match id_of(&steps[p].1, "node:") {
                        Some(n) => self.locks_single(&Op::DNode(n), &steps[p..], site, key),
                        None => (None, Vec::new()),
                    },
                    None => (None, Vec::new()),
                }
            }
            Op::BUN(_) => (None, id_of(key, "node:").map(|n| (n % 64) as usize).into_iter().collect()),
            _ => self.locks_single(op, steps, site, key),
        }
    }
    /// the rule for one single operation `op` that has made the store calls `steps` so far
    fn locks_single(&self, op: &Op, steps: &[(String, String)], site: &str, key: &str) -> (Option<String>, Vec<usize>) {
        let list_gets = |from: usize| steps[from..].iter().filter(|(s, k)| s == "store.get" && is_list_key(k)).count();
        let at_list = is_list_key(key) && (site == "store.get" || site == "store.put");
        let id_of = |k: &str, prefix: &str| k.strip_prefix(prefix).and_then(|x| x.parse::<u64>().ok());
        let idx = |id: u64| (id % 64) as usize;
        let rmw = |seq: &[String], from: usize| -> (Option<String>, Vec<usize>) {
            if site == "store.get" {
                (Some(key.to_string()), Vec::new())
            } else {
                (Some(key.to_string()), seq.get(list_gets(from)).map(|k| stripe(k)).into_iter().collect())
            }
        };
        match op {
            Op::CNode { .. } => {
                // index_node_properties after the last put (since /repo e23bf6c3: the node record)
                let n = if site == "store.put" { id_of(key, "node:") } else { None };
                (None, n.map(idx).into_iter().collect())
            }
            Op::CEdge { a, b, d, .. } => {
                let seq = Self::edge_seq(*a, *b, *d);
                if site == "store.put" && key.starts_with("edge:") {
                    (None, vec![stripe(&seq[0])])
                } else if at_list {
                    let (h, mut nx) = rmw(&seq, 0);
                    if site == "store.put" && nx.is_empty() {
                        // last list written: index_edge_properties(id)
                        if let Some(e) = steps.iter().find(|(s, k)| s == "store.put" && k.starts_with("edge:")).and_then(|(_, k)| id_of(k, "edge:")) {
                            nx.push(idx(e));
                        }
                    }
                    (h, nx)
                } else {
                    (None, Vec::new())
                }
            }
            Op::DEdge(e) => {
                let seq = self.edges.get(e).map_or(Vec::new(), |(a, b, d)| Self::edge_seq(*a, *b, *d));
                if site == "store.get" && key.starts_with("edge:") {
                    // unindex_edge_properties, then the first list
                    let mut nx = vec![idx(*e)];
                    nx.extend(seq.first().map(|k| stripe(k)));
                    (None, nx)
                } else if at_list {
                    rmw(&seq, 0)
                } else {
                    (None, Vec::new())
                }
            }
            Op::DNode(n) => {
                let last_edge = steps.iter().rposition(|(s, k)| s == "store.get" && k.starts_with("edge:"));
                let seq_of = |k: &str| id_of(k, "edge:").and_then(|e| self.edges.get(&e)).map_or(Vec::new(), |(a, b, d)| Self::dnode_seq(*n, *a, *b, *d));
                if site == "store.get" && key.starts_with("edge:") {
                    let mut nx: Vec<usize> = id_of(key, "edge:").map(idx).into_iter().collect();
                    nx.extend(seq_of(key).first().map(|k| stripe(k)));
                    (None, nx)
                } else if at_list && steps.len() < 3 {
                    // get_edge_list of the node's own lists: no lock; unindex_node_properties may follow
                    (None, vec![idx(*n)])
                } else if at_list {
                    match last_edge {
                        Some(i) => rmw(&seq_of(&steps[i].1), i),
                        None => (Some(key.to_string()), Vec::new()),
                    }
                } else if site == "store.delete" && key.starts_with("edge:") {
                    (None, vec![idx(*n)])
                } else {
                    (None, Vec::new())
                }
            }
            Op::UNode { n, .. } => (None, vec![idx(*n)]),
            Op::UEdge { e, .. } => (None, vec![idx(*e)]),
            Op::ALabel { n, .. } | Op::RLabel { n, .. } => (None, vec![idx(*n)]),
            // batch operations are resolved to their current item by `locks`; re-opening is not run
            // under the scheduler
            _ => (None, Vec::new()),
        }
    }
    /// for every parked thread: would a grant make it wait for a stripe held by another parked thread?
    fn would_block(&self, parked: &nverif::sched::Parked) -> (Vec<bool>, Vec<Option<usize>>) {
        let lk: Vec<(Option<String>, Vec<usize>)> = parked.iter().map(|(t, site, key)| self.locks(*t, site, key)).collect();
        let held: Vec<Option<usize>> = lk.iter().map(|(h, _)| h.as_ref().map(|k| stripe(k))).collect();
        let wb = (0..parked.len()).map(|i| lk[i].1.iter().any(|next| (0..parked.len()).any(|j| j != i && held[j] == Some(*next)))).collect();
        (wb, held)
    }
}

/// Run `threads` on `g` under the deterministic scheduler.
fn run_conc(g: Arc<GraphEngine>, threads: &[Vec<Op>], sched: Sched, edges: HashMap<u64, (u64, u64, bool)>, rng: &mut Rng) -> (ConcOutcome, bool, u64, HashMap<u64, (u64, u64, bool)>) {
    let results: Arc<Mutex<Vec<Vec<String>>>> = Arc::new(Mutex::new(vec![Vec::new(); threads.len()]));
    let tasks: Vec<Box<dyn FnOnce() + Send>> = threads
        .iter()
        .enumerate()
        .map(|(i, ops)| {
            let g = g.clone();
            let ops = ops.clone();
            let res = results.clone();
            Box::new(move || {
                for op in &ops {
                    let r = exec(&g, op);
                    res.lock().unwrap()[i].push(r);
                }
            }) as Box<dyn FnOnce() + Send>
        })
        .collect();
    let mut followed = true;
    let mut avoided = 0u64;
    let mut local = rng.clone();
    let mut mirror = LockMirror::new(threads, edges);
    let res2 = results.clone();
    let mut waiting: Vec<(usize, Vec<usize>)> = Vec::new();
    let nthreads = threads.len();
    let nops: Vec<usize> = threads.iter().map(|t| t.len()).collect();
    let trace = run_threads(tasks, |i, parked| {
        {
            let r = res2.lock().unwrap();
            for (t, _, _) in parked.iter() {
                mirror.sync(*t, r[*t].len());
            }
        }
        let (wb, held) = mirror.would_block(parked);
        let free: Vec<usize> = (0..parked.len()).filter(|k| !wb[*k]).collect();
        // a thread is waiting on a real lock (it is neither parked nor finished): let the holders release
        // first, every step taken while it waits costs the scheduler its stall timeout
        let alive = {
            let r = res2.lock().unwrap();
            (0..nthreads).filter(|t| r[*t].len() < nops[*t]).count()
        };
        waiting.retain(|(t, _)| !parked.iter().any(|p| p.0 == *t));
        let mut holders: Vec<usize> = (0..parked.len()).filter(|k| held[*k].map_or(false, |h| waiting.iter().any(|(_, w)| w.contains(&h)))).collect();
        if holders.is_empty() {
            holders = (0..parked.len()).filter(|k| held[*k].is_some()).collect();
        }
        let someone_waits = parked.len() < alive && !holders.is_empty();
        let k = match sched {
            Sched::Exact(sc) => match sc.get(i).and_then(|want| parked.iter().position(|p| p.0 == *want)) {
                Some(k) => k,
                None => {
                    followed = false;
                    0
                }
            },
            Sched::Prefer(sc) => match sc.get(i).and_then(|want| parked.iter().position(|p| p.0 == *want)) {
                Some(k) => k, // also when it will wait for the lock: the old witness schedules meet the real lock
                _ => {
                    followed = false;
                    free.first().copied().unwrap_or(0)
                }
            },
            Sched::Random | Sched::Probe => {
                let probe_den = if matches!(sched, Sched::Probe) { 3 } else { 32 };
                if free.len() < parked.len() && !free.is_empty() {
                    avoided += 1;
                }
                // threads that will wait AND allocate no id later: a waiting thread resumes when the holder
                // releases and then runs at the same time as the holder until both park again; if both go
                // on to allocate a node / edge id the order of the two fetch_add is not scheduled
                let w: Vec<usize> = (0..parked.len()).filter(|k| wb[*k] && !mirror.allocates_later(parked[*k].0)).collect();
                if someone_waits {
                    holders[local.below(holders.len() as u64) as usize]
                } else if free.len() < parked.len() && !w.is_empty() && local.chance(1, probe_den) {
                    // now and then grant a thread that will wait: its store call then happens while the
                    // lock it wants next is held, an interleaving the steering would never produce
                    w[local.below(w.len() as u64) as usize]
                } else if free.is_empty() {
                    // every grant makes somebody wait (A holds x and wants y, B holds y and wants x):
                    // take a holder, its release is what lets the others go on
                    if holders.is_empty() { local.below(parked.len() as u64) as usize } else { holders[local.below(holders.len() as u64) as usize] }
                } else {
                    free[local.below(free.len() as u64) as usize]
                }
            }
        };
        let (t, site, key) = &parked[k];
        if wb[k] {
            waiting.push((*t, mirror.locks(*t, site, key).1));
        }
        mirror.granted(*t, site, key);
        k
    });
    *rng = local;
    let results = results.lock().unwrap().clone();
    let image = image_of(&g);
    (ConcOutcome { results, trace, image }, followed, avoided, mirror.edges)
}

/// per-thread: edge orders of the delete_node operations, read off the real yield trace
fn dnode_hints(trace: &[Step], nthreads: usize) -> Vec<Vec<(u64, Vec<u64>)>> {
    let mut out: Vec<Vec<(u64, Vec<u64>)>> = vec![Vec::new(); nthreads];
    for t in 0..nthreads {
        let steps: Vec<&Step> = trace.iter().filter(|s| s.thread == t && s.site != "thread.start").collect();
        let mut cur: Option<(u64, Vec<u64>)> = None;
        for (i, s) in steps.iter().enumerate() {
            // delete_node starts with get node:N, get node:N:out, get node:N:in (same N); no other
            // operation issues that triple
            let is_start = i >= 2
                && s.site == "store.get"
                && steps[i - 1].site == "store.get"
                && steps[i - 2].site == "store.get"
                && s.key == format!("{}:in", steps[i - 2].key)
                && steps[i - 1].key == format!("{}:out", steps[i - 2].key)
                && steps[i - 2].key.starts_with("node:");
            if is_start {
                if let Some(c) = cur.take() {
                    out[t].push(c);
                }
                cur = Some((steps[i - 2].key[5..].parse::<u64>().unwrap_or(0), Vec::new()));
            } else if let Some((_, c)) = cur.as_mut() {
                if s.site == "store.get" && s.key.starts_with("edge:") {
                    if let Ok(e) = s.key[5..].parse::<u64>() {
                        if !c.contains(&e) {
                            c.push(e);
                        }
                    }
                } else if s.site == "store.delete" && s.key.starts_with("node:") {
                    out[t].push(cur.take().unwrap());
                }
            }
        }
        if let Some(c) = cur.take() {
            out[t].push(c);
        }
    }
    out
}

/// the model's `run` line for what the real threads did
fn model_run_line(threads: &[Vec<Op>], oc: &ConcOutcome) -> String {
    let hints = dnode_hints(&oc.trace, threads.len());
    let mut toks = Vec::new();
    for (t, ops) in threads.iter().enumerate() {
        let mut k = 0;
        let mut ts = Vec::new();
        for (j, op) in ops.iter().enumerate() {
            if let Op::DNode(_) = op {
                // a delete_node that answered node_not_found never read its lists: no hint segment
                let found = oc.results[t].get(j).map_or(true, |r| !r.starts_with("err node_not_found"));
                if found {
                    ts.push(op.tok(hints[t].get(k).map_or(&[][..], |v| &v.1[..])));
                    k += 1;
                    continue;
                }
            }
            if let Op::BDN(ids) = op {
                // every item is a delete_node: the items that passed get_node read their lists and have a
                // hint segment (recognised by its node id, ids are not handed out twice during a run)
                let its: Vec<String> = ids
                    .iter()
                    .map(|n| match hints[t].get(k) {
                        Some((hn, h)) if hn == n => {
                            k += 1;
                            std::iter::once(n.to_string()).chain(h.iter().map(|x| x.to_string())).collect::<Vec<_>>().join(".")
                        }
                        _ => n.to_string(),
                    })
                    .collect();
                ts.push(format!("bdn:{}", if its.is_empty() { "-".to_string() } else { its.join("/") }));
                continue;
            }
            ts.push(op.tok(&[]));
        }
        toks.push(if ts.is_empty() { "-".to_string() } else { ts.join("+") });
    }
    let sched: Vec<String> = oc.trace.iter().map(|s| s.thread.to_string()).collect();
    format!("run {} {}", toks.join(";"), if sched.is_empty() { "-".to_string() } else { sched.join(",") })
}

fn real_thread_text(t: usize, oc: &ConcOutcome) -> String {
    let tr: Vec<String> = oc.trace.iter().filter(|s| s.thread == t && s.site != "thread.start").map(|s| format!("{} {}", site_name(s.site), s.key)).collect();
    format!("{}#{}", oc.results[t].join(","), tr.join(","))
}

fn threads_json(setup: &[Op], threads: &[Vec<Op>], oc: &ConcOutcome) -> Value {
    json!({
        "setup": ops_json(setup),
        "threads": threads.iter().map(|t| ops_json(t)).collect::<Vec<_>>(),
        "schedule": oc.trace.iter().map(|s| s.thread).collect::<Vec<_>>(),
        "steps": oc.trace.iter().map(|s| format!("t{} {} {}", s.thread, s.site, s.key)).collect::<Vec<_>>(),
        "final_image": oc.image.text(),
    })
}

/// store calls per thread in the last `conc_case` run (the directed cut-point loops size themselves by it)
static LAST_STEPS: Mutex<Vec<usize>> = Mutex::new(Vec::new());

/// One concurrent scenario: setup sequentially (mirrored to the model), run the threads, compare
/// with the model under the same schedule, evaluate the WF monitor at quiescence.
/// Returns the classes of the WF breaks found.
#[allow(clippy::too_many_arguments)]
fn conc_case(
    stream: &str,
    setup: &[Op],
    threads: &[Vec<Op>],
    sched: Sched,
    m: &mut Model,
    rep: &mut Report,
    rng: &mut Rng,
    per_class: &mut BTreeMap<String, u32>,
    expect_class: Option<&str>,
    fresh: Option<(u64, u64)>,
    mut defer: Option<&mut Vec<(String, String, Value)>>,
) -> Vec<String> {
    let g = Arc::new(new_engine());
    m.ask("reset");
    let mut edges: HashMap<u64, (u64, u64, bool)> = HashMap::new();
    for op in setup {
        let a = exec(&g, op);
        let b = strip_batch_causes(&m.ask(&op.line()));
        rep.compare(&format!("{stream}.setup"), || json!({"setup": ops_json(setup)}), &a, &b);
        if let (Op::CEdge { a: from, b: to, d, .. }, Some(id)) = (op, a.strip_prefix("ok ").and_then(|x| x.parse::<u64>().ok())) {
            edges.insert(id, (*from, *to, *d));
        }
    }
    // largest node id handed out before the concurrent phase (setups only create)
    let nn0 = image_of(&g).nodes.keys().copied().max().unwrap_or(0);
    let (oc, followed, avoided, edges) = run_conc(g.clone(), threads, sched, edges, rng);
    let all_ops: Vec<Op> = threads.iter().flatten().cloned().collect();
    if let Ok(mut ls) = LAST_STEPS.lock() {
        *ls = (0..threads.len()).map(|t| oc.trace.iter().filter(|s| s.thread == t).count()).collect();
    }
    if let Sched::Exact(script) = sched {
        let actual: Vec<usize> = oc.trace.iter().map(|s| s.thread).collect();
        let ok = followed && actual[..] == *script;
        rep.compare(&format!("{stream}.schedule_followed"), || threads_json(setup, threads, &oc), if ok { "followed" } else { "deviated" }, "followed");
    }
    if let Sched::Prefer(_) = sched {
        rep.hit(if followed { "regress.old_schedule_still_possible" } else { "regress.old_schedule_no_longer_possible" });
    }
    if std::env::var("NVERIF_DEBUG_BLOCK").is_ok() {
        let mut was: Vec<usize> = Vec::new();
        for (i, st) in oc.trace.iter().enumerate() {
            for b in &st.blocked {
                if !was.contains(b) {
                    let last = oc.trace[..i].iter().rev().find(|x| x.thread == *b).map(|x| format!("{} {}", x.site, x.key)).unwrap_or_default();
                    let next = oc.trace[i..].iter().find(|x| x.thread == *b).map(|x| format!("{} {}", x.site, x.key)).unwrap_or_default();
                    eprintln!("BLOCK t{b} ops={:?} after [{last}] next [{next}] step {i}", threads[*b]);
                }
            }
            was = st.blocked.clone();
        }
    }
    rep.hit_n("conc.grants_steered_away_from_held_list_lock", avoided);
    rep.hit_n("conc.steps_with_a_thread_blocked_on_a_real_lock", oc.trace.iter().filter(|s| !s.blocked.is_empty()).count() as u64);
    // ---- correspondence: yield trace == model step list, results, final image
    let line = model_run_line(threads, &oc);
    let ans = strip_batch_causes(&m.ask(&line));
    let mthreads: Vec<&str> = ans.split('|').collect();
    let mut agree = mthreads.len() == threads.len();
    let mi = m.ask("image");
    let it = oc.image.text();
    // A thread that waited on a real lock resumes when the holder releases and then runs AT THE SAME
    // TIME as the holder until both park again.  If both go on to `create_node` in that window, the
    // order of their two `node_counter.fetch_add` is not under the scheduler's control: the ids may be
    // swapped w.r.t. the model (which runs a thread's silent steps inside its own grant).  Such a case
    // is not compared when the difference is in numbers only; the WF oracle below still applies.
    let node_creators = threads.iter().filter(|t| t.iter().any(|o| matches!(o, Op::CNode { .. } | Op::BCN(_)))).count();
    let somebody_waited = oc.trace.iter().any(|s| !s.blocked.is_empty());
    let shape = |x: &str| -> String {
        let mut out = String::new();
        let mut in_num = false;
        for c in x.chars() {
            if c.is_ascii_digit() {
                if !in_num {
                    out.push('#');
                }
                in_num = true;
            } else {
                in_num = false;
                out.push(c);
            }
        }
        out
    };
    let reals: Vec<String> = (0..threads.len()).map(|t| real_thread_text(t, &oc)).collect();
    let differs = it != mi || (0..threads.len()).any(|t| mthreads.get(t).map_or(true, |mo| *mo != reals[t]));
    let same_shape = shape(&it) == shape(&mi) && (0..threads.len()).all(|t| mthreads.get(t).map_or(false, |mo| shape(mo) == shape(&reals[t])));
    let compared = !(node_creators >= 2 && somebody_waited && differs && same_shape);
    if !compared {
        rep.hit("conc.not_compared.node_id_order_not_scheduled");
        let mut j = threads_json(setup, threads, &oc);
        j["not_compared"] = json!("two create_node calls ran at the same time after a wait on a real lock; ids differ from the model's in numbers only");
        j["model_line"] = json!(line);
        rep.observe(j);
        agree = false;
    }
    for t in 0..threads.len() {
        let real = &reals[t];
        let mo = mthreads.get(t).copied().unwrap_or("<missing>");
        let input = || {
            let mut j = threads_json(setup, threads, &oc);
            j["model_line"] = json!(line);
            j["thread"] = json!(t);
            j
        };
        if compared && !rep.compare(&format!("{stream}.thread_trace_and_results"), input, real, mo) {
            agree = false;
        }
        rep.hit_n("conc.steps", oc.trace.iter().filter(|s| s.thread == t && s.site != "thread.start").count() as u64);
    }
    if compared && !rep.compare(&format!("{stream}.final_image"), || { let mut j = threads_json(setup, threads, &oc); j["model_line"] = json!(line); j }, &it, &mi) {
        agree = false;
    }
    let breaks = oc.image.wf_breaks();
    let mwf = m.ask("wf");
    if agree {
        rep.compare(&format!("{stream}.wf_verdict"), || threads_json(setup, threads, &oc), if breaks.is_empty() { "ok" } else { "bad" }, if mwf == "ok" { "ok" } else { "bad" });
    }
    // ---- oracle: WF at quiescence
    let mut classes = Vec::new();
    let overlaps = rmw_overlaps(&oc.trace);
    if !overlaps.is_empty() {
        rep.hit_n("conc.list_rmw_sections_of_two_threads_overlap", overlaps.len() as u64);
        if breaks.is_empty() {
            // the mechanism failed without a visible consequence at quiescence (both updates were no-ops,
            // or a later operation removed the evidence): outside the property as stated, recorded
            let mut j = threads_json(setup, threads, &oc);
            j["stream"] = json!(stream);
            j["what"] = json!(format!("two threads inside a read-modify-write of {} at the same time, store well-formed at quiescence", overlaps[0].0.key));
            rep.observe(j);
        }
    }
    let mut emit = |rep: &mut Report, class: &str, what: &str, j: Value| match &mut defer {
        Some(sink) => sink.push((class.to_string(), what.to_string(), j)),
        None => rep.violation(class, what, j),
    };
    for (kind, detail) in &breaks {
        // regression oracle of the list lock (/repo 81b9c5b4), every stream, before any attribution to a
        // known finding: the broken clause is about a list that two threads updated at the same time
        if let Some((c, how)) = classify_overlap(kind, detail, &overlaps) {
            if !classes.contains(&c) {
                classes.push(c.clone());
                let n = per_class.entry(c.clone()).or_insert(0);
                *n += 1;
                rep.hit(&format!("wf_break.{c}"));
                if *n <= 2 {
                    let mut j = threads_json(setup, threads, &oc);
                    j["stream"] = json!(stream);
                    emit(rep, &c, &format!("graph not well-formed at quiescence: {kind}: {detail} ({how}: the two list updates were not mutually exclusive)"), j);
                }
            }
            continue;
        }
        // regression oracle of /repo e23bf6c3, every stream: a node created during the phase whose lists
        // its creator wrote after the record
        if let Some(c) = classify_late_lists(kind, detail, &oc.trace, &oc.image, &edges, nn0) {
            if !classes.contains(&c) {
                classes.push(c.clone());
                let n = per_class.entry(c.clone()).or_insert(0);
                *n += 1;
                rep.hit(&format!("wf_break.{c}"));
                if *n <= 2 {
                    let mut j = threads_json(setup, threads, &oc);
                    j["stream"] = json!(stream);
                    emit(rep, &c, &format!("graph not well-formed at quiescence: {kind}: {detail} (the creator of the node wrote the node's list after the node record)"), j);
                }
            }
            continue;
        }
        // outside the property's quantifier (observation): a break that involves an EDGE id handed out
        // DURING the concurrent phase that some thread deletes
        if let Some(c) = fresh.and_then(|(_, ne0)| classify_fresh(kind, detail, &all_ops, &oc.image, &edges, ne0)) {
            if !classes.contains(&c) {
                classes.push(c.clone());
                let n = per_class.entry(c.clone()).or_insert(0);
                *n += 1;
                rep.hit(&format!("candidate_wf_break.{c}"));
                if *n <= 2 {
                    let mut j = threads_json(setup, threads, &oc);
                    j["stream"] = json!(stream);
                    j["candidate_class"] = json!(c);
                    j["what"] = json!(format!("graph not well-formed at quiescence: {kind}: {detail}"));
                    rep.observe(j);
                }
            }
            continue;
        }
        let c = classify(kind, detail, &all_ops, &oc.image, &edges);
        if !classes.contains(&c) {
            classes.push(c.clone());
            let n = per_class.entry(c.clone()).or_insert(0);
            *n += 1;
            rep.hit(&format!("wf_break.{c}"));
            if *n <= 2 {
                let mut j = threads_json(setup, threads, &oc);
                j["stream"] = json!(stream);
                emit(rep, &c, &format!("graph not well-formed at quiescence: {kind}: {detail}"), j);
            }
        }
    }
    if let Some(c) = expect_class {
        if !classes.iter().any(|x| x == c) {
            rep.hit(&format!("witness_not_reproduced.{c}"));
            rep.observe(json!({"witness_class_not_reproduced_on_real_engine": c, "stream": stream, "found": classes, "image": it}));
        } else {
            rep.hit(&format!("witness_reproduced.{c}"));
        }
    }
    let key = format!("{line}");
    let nontrivial = oc.trace.len() > threads.len() && oc.results.iter().flatten().any(|r| r.starts_with("ok"));
    rep.case(stream, if nontrivial { Some(&key) } else { None });
    rep.hit(&format!("conc.threads.{}", threads.len()));
    if breaks.is_empty() {
        rep.hit(&format!("{stream}.quiescent_wf_ok"));
    } else {
        rep.hit(&format!("{stream}.quiescent_wf_broken"));
    }
    classes
}

fn gen_conc(r: &mut Rng) -> (Vec<Op>, Vec<Vec<Op>>) {
    // setup: a few nodes, a few edges
    let nn = 2 + r.below(4);
    let mut setup: Vec<Op> = (0..nn).map(|_| Op::CNode { l: r.below(2), v: 0 }).collect();
    let ne = r.below(5);
    for _ in 0..ne {
        let a = 1 + r.below(nn);
        let b = if r.chance(1, 8) { a } else { 1 + r.below(nn) };
        setup.push(Op::CEdge { a, b, d: r.chance(1, 2), ty: r.below(2), v: 0 });
    }
    let nt = 2 + r.below(7) as usize; // 2..=8
    let node = |r: &mut Rng| if r.chance(1, 2) { 1 } else { 1 + r.below(nn) };
    let threads = (0..nt)
        .map(|_| {
            let k = 1 + r.below(2);
            (0..k)
                .map(|_| {
                    let w = r.below(100);
                    if w < 45 {
                        let a = node(r);
                        let b = if r.chance(1, 8) { a } else { node(r) };
                        Op::CEdge { a, b, d: r.chance(1, 2), ty: r.below(2), v: 1 }
                    } else if w < 62 && ne > 0 {
                        Op::DEdge(1 + r.below(ne + 1))
                    } else if w < 74 {
                        Op::DNode(node(r))
                    } else if w < 82 {
                        Op::CNode { l: 0, v: 1 }
                    } else if w < 91 {
                        Op::UNode { n: node(r), l: if r.chance(1, 2) { Some(2) } else { None }, v: 7 }
                    } else {
                        Op::UEdge { e: 1 + r.below(ne + 1), v: 7 }
                    }
                })
                .collect()
        })
        .collect();
    (setup, threads)
}

/// programs that use ids handed out during the concurrent phase: new nodes `nn0+1..`, new edges `ne0+1..`
/// (no delete_node: the node-deletion race has its own stream); batch calls included
fn gen_fresh(r: &mut Rng) -> (Vec<Op>, Vec<Vec<Op>>, u64, u64) {
    let nn = 2 + r.below(3);
    let mut setup: Vec<Op> = (0..nn).map(|_| Op::CNode { l: r.below(2), v: 0 }).collect();
    let ne = r.below(3);
    for _ in 0..ne {
        setup.push(Op::CEdge { a: 1 + r.below(nn), b: 1 + r.below(nn), d: r.chance(1, 2), ty: r.below(2), v: 0 });
    }
    let nt = 2 + r.below(4) as usize; // 2..=5
    // half of the endpoints are ids the concurrent create_node calls are about to hand out
    let node = |r: &mut Rng| if r.chance(1, 2) { nn + 1 + r.below(2) } else { 1 + r.below(nn + 3) };
    let threads = (0..nt)
        .map(|t| {
            let k = 1 + r.below(2);
            (0..k)
                .map(|_| {
                    let w = if t == 0 { 0 } else { r.below(100) };
                    if w < 25 {
                        Op::CNode { l: 0, v: 1 }
                    } else if w < 32 {
                        Op::BCN((0..1 + r.below(3)).map(|_| (1, 1)).collect())
                    } else if w < 62 {
                        let a = node(r);
                        Op::CEdge { a, b: node(r), d: r.chance(1, 2), ty: r.below(2), v: 1 }
                    } else if w < 70 {
                        Op::BCE((0..1 + r.below(3)).map(|_| (1 + r.below(nn), node(r), r.chance(1, 2), 0, 1)).collect())
                    } else if w < 85 {
                        Op::DEdge(1 + r.below(ne + 3))
                    } else if w < 90 {
                        Op::BDE((0..1 + r.below(3)).map(|_| 1 + r.below(ne + 3)).collect())
                    } else if w < 95 {
                        Op::ALabel { n: node(r), l: 2 }
                    } else {
                        Op::UEdge { e: 1 + r.below(ne + 3), v: 7 }
                    }
                })
                .collect()
        })
        .collect();
    (setup, threads, nn, ne)
}

/// operation sets whose footprints (node keys, edge keys, adjacency-list keys) are pairwise disjoint:
/// thread i works on its own pair of nodes (2i+1, 2i+2) and its own pre-existing edge i+1
fn gen_disjoint(r: &mut Rng) -> (Vec<Op>, Vec<Vec<Op>>) {
    let nt = 2 + r.below(7) as usize;
    let mut setup = Vec::new();
    for _ in 0..nt {
        setup.push(Op::CNode { l: 0, v: 0 });
        setup.push(Op::CNode { l: 1, v: 0 });
    }
    for i in 0..nt as u64 {
        setup.push(Op::CEdge { a: 2 * i + 1, b: 2 * i + 2, d: r.chance(1, 2), ty: 0, v: 0 });
    }
    let threads = (0..nt as u64)
        .map(|i| {
            let (a, b, e) = (2 * i + 1, 2 * i + 2, i + 1);
            let k = 1 + r.below(3);
            (0..k)
                .map(|_| match r.below(7) {
                    0 | 1 => Op::CEdge { a: if r.chance(1, 2) { a } else { b }, b: if r.chance(1, 2) { a } else { b }, d: r.chance(1, 2), ty: 1, v: 1 },
                    2 => Op::DEdge(e),
                    3 => Op::DNode(if r.chance(1, 2) { a } else { b }),
                    4 => Op::UNode { n: a, l: Some(2), v: 3 },
                    5 => Op::UEdge { e, v: 4 },
                    _ => Op::CNode { l: 2, v: 2 },
                })
                .collect()
        })
        .collect();
    (setup, threads)
}

/// A batch call on the hub (node 1) against single writers and other batch calls that update the same
/// adjacency lists: `batch_create_edges` / `batch_delete_edges` / `batch_delete_nodes` in thread 0,
/// `create_edge` / `delete_edge` / `delete_node` (of a neighbour: it cleans the hub's lists; now and then of
/// the hub itself) and further batch calls in the others.  Edge ids named by deletes exist before the phase.
fn gen_batch_hub(r: &mut Rng) -> (Vec<Op>, Vec<Vec<Op>>) {
    let nn = 3 + r.below(2);
    let mut setup: Vec<Op> = (0..nn).map(|_| Op::CNode { l: r.below(2), v: 0 }).collect();
    let ne = 2 + r.below(3);
    for _ in 0..ne {
        let other = 2 + r.below(nn - 1);
        let (a, b) = if r.chance(1, 2) { (1, other) } else { (other, 1) };
        setup.push(Op::CEdge { a, b, d: r.chance(2, 3), ty: r.below(2), v: 0 });
    }
    let hubby = |r: &mut Rng| -> (u64, u64) {
        let other = if r.chance(1, 8) { 1 } else { 2 + r.below(nn - 1) };
        if r.chance(3, 4) {
            if r.chance(1, 2) { (1, other) } else { (other, 1) }
        } else {
            (other, 2 + r.below(nn - 1))
        }
    };
    let bce = |r: &mut Rng| -> Op {
        Op::BCE(
            (0..1 + r.below(3))
                .map(|_| {
                    let (a, b) = hubby(r);
                    (a, b, r.chance(2, 3), r.below(2), 1)
                })
                .collect(),
        )
    };
    let nt = 2 + r.below(3) as usize; // 2..=4
    let threads = (0..nt)
        .map(|t| {
            let k = if r.chance(1, 4) { 2 } else { 1 };
            (0..k)
                .map(|_| {
                    let w = r.below(100);
                    if t == 0 {
                        if w < 70 {
                            bce(r)
                        } else if w < 88 {
                            Op::BDE((0..1 + r.below(2)).map(|_| 1 + r.below(ne)).collect())
                        } else if w < 95 {
                            Op::BDN(vec![2 + r.below(nn - 1)])
                        } else {
                            Op::BCN((0..1 + r.below(2)).map(|_| (1, 1)).collect())
                        }
                    } else if w < 38 {
                        let (a, b) = hubby(r);
                        Op::CEdge { a, b, d: r.chance(2, 3), ty: r.below(2), v: 1 }
                    } else if w < 60 {
                        Op::DEdge(1 + r.below(ne))
                    } else if w < 74 {
                        Op::DNode(2 + r.below(nn - 1))
                    } else if w < 78 {
                        Op::DNode(1)
                    } else if w < 90 {
                        bce(r)
                    } else if w < 96 {
                        Op::BDE((0..1 + r.below(2)).map(|_| 1 + r.below(ne)).collect())
                    } else {
                        Op::BDN(vec![2 + r.below(nn - 1)])
                    }
                })
                .collect()
        })
        .collect();
    (setup, threads)
}

/// Shrink a failing concurrent scenario of class `class`: drop one operation of a thread (a thread left
/// without operations is dropped while two remain), one item of a batch call, the last setup edge; a
/// candidate is kept when one of `tries` seeded probing schedules reproduces the class.  Returns the
/// smallest scenario found with the violation it produced.
fn shrink_conc(stream: &str, setup: &[Op], threads: &[Vec<Op>], class: &str, first: (String, String, Value), m: &mut Model, rng: &Rng, tries: u64) -> (String, String, Value) {
    let mut best = first;
    let mut setup = setup.to_vec();
    let mut threads = threads.to_vec();
    let mut round = 0u64;
    let mut runs = 0u64;
    loop {
        let mut cands: Vec<(Vec<Op>, Vec<Vec<Op>>)> = Vec::new();
        for t in 0..threads.len() {
            for i in 0..threads[t].len() {
                let mut th = threads.clone();
                th[t].remove(i);
                if th[t].is_empty() && th.len() > 2 {
                    th.remove(t);
                }
                if th.iter().filter(|x| !x.is_empty()).count() >= 2 {
                    cands.push((setup.clone(), th));
                }
                // one item less in a batch call
                let n_items = match &threads[t][i] {
                    Op::BCE(v) => v.len(),
                    Op::BDE(v) => v.len(),
                    Op::BDN(v) => v.len(),
                    Op::BCN(v) => v.len(),
                    _ => 0,
                };
                for j in 0..n_items {
                    if n_items < 2 {
                        break;
                    }
                    let mut th = threads.clone();
                    match &mut th[t][i] {
                        Op::BCE(v) => {
                            v.remove(j);
                        }
                        Op::BDE(v) => {
                            v.remove(j);
                        }
                        Op::BDN(v) => {
                            v.remove(j);
                        }
                        Op::BCN(v) => {
                            v.remove(j);
                        }
                        _ => {}
                    }
                    cands.push((setup.clone(), th));
                }
            }
        }
        if matches!(setup.last(), Some(Op::CEdge { .. })) {
            let mut su = setup.clone();
            su.pop();
            cands.push((su, threads.clone()));
        }
        let mut progressed = false;
        'cands: for (su, th) in cands {
            for k in 0..tries {
                if runs > 600 {
                    break 'cands;
                }
                runs += 1;
                let mut scratch = Report::new("");
                let mut sink = Vec::new();
                let mut none = BTreeMap::new();
                let mut rr = rng.fork(&format!("shrink.{round}.{k}"));
                conc_case(stream, &su, &th, Sched::Probe, m, &mut scratch, &mut rr, &mut none, None, None, Some(&mut sink));
                if let Some(v) = sink.into_iter().find(|(c, _, _)| c == class) {
                    best = v;
                    setup = su;
                    threads = th;
                    progressed = true;
                    break 'cands;
                }
            }
        }
        round += 1;
        if !progressed || runs > 600 {
            break;
        }
    }
    best
}

// ------------------------------------------------------------------ main

fn main() {
    let args = parse_args();
    let mut rep = Report::new(
        "seeded random operation scripts (sequential) and seeded random programs x schedules (2..8 real threads under \
         the deterministic scheduler); a sequential case is non-trivial when it has >=1 successful edge creation and \
         >=1 successful deletion; a concurrent case is non-trivial when some thread executed >=1 store step and >=1 \
         operation succeeded; distinct = distinct canonical script / (programs, schedule) text",
    );
    let mut m = Model::spawn(&args.driver);
    let root = Rng::new(args.seed);
    let t0 = std::time::Instant::now();
    let timing = std::env::var("C05_TIMING").is_ok();
    let lap = |what: &str| {
        if timing {
            eprintln!("C05_TIMING {what} at {:.1}s", t0.elapsed().as_secs_f64());
        }
    };
    let scale: u64 = if args.thorough { 10 } else { 1 };

    // ---------------- (0) directed cases, first on every run
    let mut per_class: BTreeMap<String, u32> = BTreeMap::new();
    let mut wr = root.fork("witness");
    let n2 = vec![Op::CNode { l: 0, v: 0 }, Op::CNode { l: 0, v: 0 }];
    let e12 = Op::CEdge { a: 1, b: 2, d: true, ty: 0, v: 0 };
    // (0-a) regression of /repo e23bf6c3 (class graph_engine.create_node/lists_initialised_after_node_visible):
    // Props.create_node_create_edge_race_old_witness is a schedule of the code BEFORE that commit
    // (create_node stores node:3, create_edge(1,3) runs to completion, create_node then writes the two
    // empty lists).  The scheduler follows it as far as the code allows: with the lists written first
    // create_edge either does not see node 3 (NodeNotFound) or finds lists that are not written again.
    // Variants: undirected edge (both lists of node 3), the new node as source, the batch call
    // (create_node_internal), two creators, the edge created by batch_create_edges.  Any WF break is a
    // violation; a break on a node whose creator wrote a list after the record gets the class above.
    {
        let cn = Op::CNode { l: 0, v: 0 };
        let old_sched: Vec<usize> = vec![0, 0, 1, 1, 1, 1, 1, 1, 1, 1, 1, 1, 1, 1, 0, 0];
        let cases: Vec<(&str, Vec<Vec<Op>>, Vec<usize>)> = vec![
            ("regress.create_node_vs_create_edge", vec![vec![cn.clone()], vec![Op::CEdge { a: 1, b: 3, d: true, ty: 0, v: 0 }]], vec![0, 0, 1, 1, 1, 1, 1, 1, 1, 1, 0, 0]),
            ("regress.create_node_vs_create_edge.undirected", vec![vec![cn.clone()], vec![Op::CEdge { a: 1, b: 3, d: false, ty: 0, v: 0 }]], old_sched.clone()),
            ("regress.create_node_vs_create_edge.new_node_is_source", vec![vec![cn.clone()], vec![Op::CEdge { a: 3, b: 1, d: true, ty: 1, v: 0 }]], old_sched.clone()),
            ("regress.create_node_vs_create_edge.self_loop", vec![vec![cn.clone()], vec![Op::CEdge { a: 3, b: 3, d: true, ty: 0, v: 0 }]], old_sched.clone()),
            ("regress.batch_create_nodes_vs_create_edge", vec![vec![Op::BCN(vec![(0, 0)])], vec![Op::CEdge { a: 1, b: 3, d: true, ty: 0, v: 0 }]], vec![0, 0, 1, 1, 1, 1, 1, 1, 1, 1, 0, 0]),
            // second item of the batch: node 4 becomes visible after node 3 is complete
            ("regress.batch_create_nodes_vs_create_edge.second_item", vec![vec![Op::BCN(vec![(0, 0), (1, 1)])], vec![Op::CEdge { a: 4, b: 3, d: false, ty: 0, v: 0 }]], vec![0, 0, 0, 0, 0, 1, 1, 1, 1, 1, 1, 1, 1, 1, 1, 1, 1, 0, 0]),
            ("regress.create_node_vs_batch_create_edges", vec![vec![cn.clone()], vec![Op::BCE(vec![(1, 3, true, 0, 0), (3, 2, false, 0, 0)])]], (0..2).chain(std::iter::repeat(1).take(30)).collect()),
            // two creators, two edge writers on the ids they are about to hand out
            (
                "regress.two_create_nodes_vs_create_edges",
                vec![vec![cn.clone()], vec![cn.clone()], vec![Op::CEdge { a: 3, b: 4, d: false, ty: 0, v: 0 }], vec![Op::CEdge { a: 4, b: 3, d: true, ty: 0, v: 0 }]],
                vec![0, 1, 0, 1, 2, 3, 2, 3, 2, 3, 2, 3, 2, 3, 2, 3, 2, 3, 2, 3, 2, 3, 2, 3, 2, 3],
            ),
        ];
        for (name, threads, sc) in &cases {
            let classes = conc_case(name, &n2, threads, Sched::Prefer(sc), &mut m, &mut rep, &mut wr, &mut per_class, None, None, None);
            for c in &classes {
                rep.hit(&format!("regress.broken.{c}"));
            }
            if classes.is_empty() {
                rep.hit("regress.create_node.ends_node_not_found_or_well_formed");
            }
        }
        // the same thread sets with the creator granted k store calls before the edge writer runs to
        // completion (k = 0..3: before the first list, between the lists, before and after the record)
        for k in 0..=3usize {
            for und in [false, true] {
                let sc: Vec<usize> = std::iter::repeat(0).take(1 + k).chain(std::iter::repeat(1).take(14)).collect();
                let threads = vec![vec![cn.clone()], vec![Op::CEdge { a: 1, b: 3, d: !und, ty: 0, v: 0 }]];
                let classes = conc_case("regress.create_node_vs_create_edge.cut", &n2, &threads, Sched::Prefer(&sc), &mut m, &mut rep, &mut wr, &mut per_class, None, None, None);
                for c in &classes {
                    rep.hit(&format!("regress.broken.{c}"));
                }
                rep.hit(&format!("regress.create_node.cut_after_{k}_store_calls"));
            }
        }
    }
    lap("directed create_node regression done");
    // ---------------- (0-a') a batch call against a writer of the SAME adjacency list, every cut point:
    // thread 0 is granted k store calls, thread 1 then runs as far as it can (to completion, or to the
    // list lock thread 0 holds: it waits, thread 0 goes on), then the rest; k = 0 .. all of thread 0's
    // calls, both role orders.  The cut between the `store.get` and the `store.put` of a shared list is the
    // minimal history in which the list lock taken by the BATCH path (create_edge_internal, and the
    // delete_edge / delete_node calls inside batch_delete_*) is the only thing that keeps the other
    // thread's update of that list from being overwritten.  Any WF break is a violation, except those the
    // known node-deletion race explains (pair `…_vs_delete_node_of_the_hub`, counted only).
    {
        let cn = Op::CNode { l: 0, v: 0 };
        let n3 = vec![cn.clone(), cn.clone(), cn.clone()];
        let n2e = vec![cn.clone(), cn.clone(), e12.clone()];
        let n2ee = vec![cn.clone(), cn.clone(), e12.clone(), e12.clone()];
        let mut n3e = n3.clone();
        n3e.push(Op::CEdge { a: 3, b: 1, d: true, ty: 0, v: 0 });
        let mut n3u = n3.clone();
        n3u.push(Op::CEdge { a: 3, b: 1, d: false, ty: 0, v: 0 });
        let pairs: Vec<(&str, &Vec<Op>, Vec<Op>, Vec<Op>)> = vec![
            ("batch_create_edges_vs_create_edge", &n2, vec![Op::BCE(vec![(1, 2, true, 0, 0)])], vec![e12.clone()]),
            ("batch_create_edges_vs_delete_edge", &n2e, vec![Op::BCE(vec![(1, 2, true, 0, 1)])], vec![Op::DEdge(1)]),
            ("batch_create_edges_vs_delete_node_of_a_neighbour", &n3e, vec![Op::BCE(vec![(2, 1, true, 0, 1)])], vec![Op::DNode(3)]),
            ("batch_create_edges_vs_batch_create_edges", &n2, vec![Op::BCE(vec![(1, 2, false, 0, 0)])], vec![Op::BCE(vec![(2, 1, true, 0, 1), (1, 1, true, 1, 1)])]),
            ("batch_delete_edges_vs_batch_create_edges", &n2ee, vec![Op::BDE(vec![1, 2])], vec![Op::BCE(vec![(1, 2, true, 0, 1)])]),
            ("batch_delete_nodes_vs_batch_create_edges", &n3u, vec![Op::BDN(vec![3])], vec![Op::BCE(vec![(2, 1, false, 0, 1)])]),
            ("batch_create_edges_second_item_vs_delete_edge", &n2e, vec![Op::BCE(vec![(2, 2, true, 0, 0), (1, 2, false, 0, 0)])], vec![Op::DEdge(1)]),
            ("batch_create_edges_vs_delete_node_of_the_hub", &n2e, vec![Op::BCE(vec![(1, 2, true, 0, 1)])], vec![Op::DNode(1)]),
        ];
        for (name, setup, x, y) in &pairs {
            for (first, second, role) in [(x, y, "batch_first"), (y, x, "batch_second")] {
                let stream = format!("regress.batch_vs_writer.{name}");
                let threads = vec![first.clone(), second.clone()];
                let mut k = 0usize;
                loop {
                    let sc: Vec<usize> = std::iter::repeat(0).take(k).chain(std::iter::repeat(1).take(200)).collect();
                    let classes = conc_case(&stream, setup, &threads, Sched::Prefer(&sc), &mut m, &mut rep, &mut wr, &mut per_class, None, None, None);
                    for c in &classes {
                        rep.hit(&format!("regress.batch_vs_writer.broken.{c}"));
                    }
                    if classes.is_empty() {
                        rep.hit("regress.batch_vs_writer.well_formed");
                    }
                    rep.hit(&format!("regress.batch_vs_writer.{role}"));
                    let n0 = LAST_STEPS.lock().map(|v| v.first().copied().unwrap_or(0)).unwrap_or(0);
                    k += 1;
                    if k > n0 || k > 60 {
                        break;
                    }
                }
            }
        }
    }
    lap("directed batch-vs-writer cuts done");
    // ---------------- (0-b) Lean witness schedules replayed on the real engine (the two KNOWN races,
    //                  on every run), then the schedules of the three races fixed by the list lock
    // Props.create_edge_delete_node_race_witness
    conc_case(
        "witness.create_edge_vs_delete_node",
        &n2,
        &[vec![e12.clone()], vec![Op::DNode(2)]],
        Sched::Exact(&[0, 0, 0, 1, 1, 1, 1, 1, 1, 1, 0, 0, 0, 0, 0]),
        &mut m, &mut rep, &mut wr, &mut per_class,
        Some("graph_engine.create_edge/edge_to_deleted_node"),
        None,
        None,
    );
    // Props.update_edge_delete_edge_race_witness
    let n2e = vec![n2[0].clone(), n2[1].clone(), e12.clone()];
    conc_case(
        "witness.update_edge_vs_delete_edge",
        &n2e,
        &[vec![Op::UEdge { e: 1, v: 9 }], vec![Op::DEdge(1)]],
        Sched::Exact(&[0, 0, 0, 1, 1, 1, 1, 1, 1, 1, 0]),
        &mut m, &mut rep, &mut wr, &mut per_class,
        Some("graph_engine.update_edge/resurrects_deleted_edge"),
        None,
        None,
    );
    // regression: Props.rmw_lost_update_witness / rmw_lost_removal_witness are schedules of the code
    // BEFORE the list lock; the scheduler follows them as far as the lock allows. Any WF break here is
    // a violation (the classes add_edge_to_list/lost_adjacency_entry, remove_edge_from_list/lost_removal
    // are no longer known findings).
    let n2ee = vec![n2[0].clone(), n2[1].clone(), e12.clone(), e12.clone()];
    let und = Op::CEdge { a: 1, b: 2, d: false, ty: 0, v: 0 };
    let regress: Vec<(&str, &[Op], Vec<Vec<Op>>, Vec<usize>)> = vec![
        ("regress.rmw_lost_update", &n2, vec![vec![e12.clone()], vec![e12.clone()]], vec![0, 1, 0, 1, 0, 1, 0, 1, 0, 1, 0, 1, 0, 0, 1, 1]),
        ("regress.rmw_lost_removal", &n2ee, vec![vec![Op::DEdge(1)], vec![Op::DEdge(2)]], vec![0, 1, 0, 1, 0, 1, 0, 1, 0, 0, 0, 1, 1, 1]),
        // the same with strict alternation, undirected edges (four lists each), three threads, and
        // create against delete on one hub
        ("regress.rmw_alternating", &n2, vec![vec![und.clone()], vec![und.clone()], vec![e12.clone()]], (0..60).map(|i| i % 3).collect()),
        ("regress.rmw_create_vs_delete", &n2ee, vec![vec![e12.clone(), Op::DEdge(2)], vec![Op::DEdge(1), und.clone()]], (0..40).map(|i| i % 2).collect()),
    ];
    for (name, setup, threads, sc) in &regress {
        let mut none = BTreeMap::new();
        let classes = conc_case(name, setup, threads, Sched::Prefer(sc), &mut m, &mut rep, &mut wr, &mut none, None, None, None);
        for c in classes {
            rep.hit(&format!("regress.broken.{c}"));
        }
    }

    lap("directed cases done");

    // ---------------- (i) sequential differential
    let mut r = root.fork("seq");
    let mut qr = root.fork("seq.queries");
    let mut seq_fail_reported = 0;
    for case in 0..400 * scale {
        // generate adaptively against a scratch engine so that ids refer to live objects
        let len = 10 + r.below(50) as usize;
        let big = case % 40 == 7;
        let mut ops: Vec<Op> = Vec::new();
        {
            let mut g = new_engine();
            let mut gen = Gen::new();
            if big {
                // a hub with >= 100 incident edges: delete_node takes the rayon "parallel" path
                let spokes = 2 + r.below(4);
                let par = r.chance(1, 2);
                ops.push(Op::CNode { l: 0, v: 0 });
                let total = 100 + r.below(30);
                let nodes = if par { spokes } else { total };
                // the spokes and the edges one by one, or through the batch calls (>= 100 items:
                // batch_create_nodes runs create_node_internal on the rayon pool)
                let batch = r.chance(1, 3);
                if batch {
                    ops.push(Op::BCN((0..nodes).map(|_| (1, 0)).collect()));
                    rep.hit(if nodes >= 100 { "seq.big_hub.batch_create_nodes_parallel_path" } else { "seq.big_hub.batch_create_nodes_sequential_path" });
                } else {
                    for _ in 0..nodes {
                        ops.push(Op::CNode { l: 1, v: 0 });
                    }
                }
                let mut es = Vec::new();
                for k in 0..total {
                    let other = 2 + (k % nodes);
                    let (a, b) = if r.chance(1, 2) { (1, other) } else { (other, 1) };
                    es.push((a, b, r.chance(2, 3), 0u64, 0u64));
                }
                // now and then self-loops on the hub and edges among the spokes (not incident to the hub)
                if r.chance(1, 2) {
                    for _ in 0..1 + r.below(3) {
                        es.push((1, 1, r.chance(1, 2), 0, 0));
                    }
                    for _ in 0..r.below(3) {
                        es.push((2 + r.below(nodes), 2 + r.below(nodes), r.chance(1, 2), 1, 0));
                    }
                    rep.hit("seq.big_hub.self_loops_and_bystander_edges");
                }
                if batch {
                    ops.push(Op::BCE(es));
                } else {
                    ops.extend(es.into_iter().map(|(a, b, d, ty, v)| Op::CEdge { a, b, d, ty, v }));
                }
                if r.chance(1, 4) {
                    ops.push(Op::Reopen);
                }
                let victim = if r.chance(3, 4) { 1 } else { 2 };
                ops.push(if r.chance(1, 4) { Op::BDN(vec![victim, 3]) } else { Op::DNode(victim) });
                rep.hit(if par { "seq.big_hub.parallel_edges" } else { "seq.big_hub.distinct_neighbours" });
                for op in &ops {
                    if *op == Op::Reopen {
                        g = reopened(g);
                    }
                    exec(&g, op);
                }
            }
            for _ in 0..(if big { 5 } else { len }) {
                gen.note(&image_of(&g));
                let op = gen.op(&mut r);
                if op == Op::Reopen {
                    g = reopened(g);
                }
                exec(&g, &op);
                ops.push(op);
            }
        }
        let fail = run_script(&ops, !big, &mut m, Some(&mut rep), &mut qr);
        let txt = ops.iter().map(|o| o.line()).collect::<Vec<_>>().join(";");
        let created = ops.iter().any(|o| matches!(o, Op::CEdge { .. } | Op::BCE(_)));
        let deleted = ops.iter().any(|o| matches!(o, Op::DEdge(_) | Op::DNode(_) | Op::BDE(_) | Op::BDN(_)));
        rep.case(if big { "seq.big_hub" } else { "seq" }, if created && deleted { Some(&txt) } else { None });
        if let Some(f) = fail {
            // shrink (deterministic re-execution on fresh engine + reset model)
            let mut silent = root.fork("shrink");
            let is_violation = f.violation.is_some();
            let small = if big && is_violation {
                ops[..=f.at].to_vec() // the rayon race is not deterministic: do not shrink
            } else {
                shrink_list(&ops[..=f.at.min(ops.len() - 1)], &mut |cand: &[Op]| {
                    run_script(cand, false, &mut m, None, &mut silent).map_or(false, |x| x.violation.is_some() == is_violation)
                })
            };
            let again = run_script(&small, !big, &mut m, None, &mut silent);
            let what = again.as_ref().map_or(f.what.clone(), |x| x.what.clone());
            match f.violation {
                Some((class, w)) => {
                    let class = if big && class.ends_with("delete_node_breaks_wf") { "graph_engine.delete_node/parallel_path_lost_removal".to_string() } else { class };
                    rep.violation(&class, &w, json!({"script": ops_json(&small), "what": what}));
                }
                None => {
                    if seq_fail_reported < 5 {
                        rep.disagree("seq.script", json!({"script": ops_json(&small)}), &what, "");
                        seq_fail_reported += 1;
                    } else {
                        rep.disagree("seq.script", json!({}), "", "");
                    }
                }
            }
        }
        if rep.samples.len() < 2 {
            rep.sample(json!({"stream": "seq", "script": ops_json(&ops[..ops.len().min(12)])}));
        }
    }

    lap("sequential done");
    // ---------------- (ii-a') ids handed out DURING the concurrent phase (guessed, or discovered by a scan):
    //                  seeded random programs x schedules (the directed create_node cases ran first).
    let mut cand: BTreeMap<String, u32> = BTreeMap::new();
    // Props.delete_edge_of_edge_in_creation_race_witness needs delete_edge to take the lock of the first
    // list between create_edge's `store.put edge:E` and its acquisition of that lock: the acquisition is
    // not a yield point (the model takes locks lazily and therefore has that interleaving), so the
    // scheduler cannot replay it; the class can only show up in conc.fresh_ids through other orders.
    let mut r = root.fork("conc.fresh_ids");
    for _ in 0..60 * scale {
        let (setup, threads, nn0, ne0) = gen_fresh(&mut r);
        conc_case("conc.fresh_ids", &setup, &threads, Sched::Random, &mut m, &mut rep, &mut r, &mut cand, None, Some((nn0, ne0)), None);
    }
    lap("witness/regress/fresh done");
    // ---------------- (ii-a'') a batch call on a hub against single writers / other batch calls on the same
    //                  lists, probing schedules (a thread about to take a held list lock is granted every
    //                  third time); a violation is shrunk before it is reported
    let mut r = root.fork("conc.batch_hub");
    let shrink_rng = root.fork("conc.batch_hub.shrink");
    let mut hub_classes: BTreeMap<String, u32> = BTreeMap::new();
    for _ in 0..70 * scale {
        let (setup, threads) = gen_batch_hub(&mut r);
        let mut sink = Vec::new();
        conc_case("conc.batch_hub", &setup, &threads, Sched::Probe, &mut m, &mut rep, &mut r, &mut hub_classes, None, None, Some(&mut sink));
        for (class, what, j) in sink {
            let known = class == "graph_engine.create_edge/edge_to_deleted_node" || class == "graph_engine.update_edge/resurrects_deleted_edge";
            if known {
                rep.violation(&class, &what, j);
            } else {
                let (c, w, j) = shrink_conc("conc.batch_hub", &setup, &threads, &class, (class.clone(), what, j), &mut m, &shrink_rng, 10);
                rep.violation(&c, &w, j);
            }
        }
    }
    lap("conc.batch_hub done");
    // ---------------- (ii-b) disjoint footprints: the regime of `quiescent_wf_partial`
    let mut r = root.fork("conc.disjoint");
    for _ in 0..150 * scale {
        let (setup, threads) = gen_disjoint(&mut r);
        let mut none = BTreeMap::new();
        let classes = conc_case("conc.disjoint", &setup, &threads, Sched::Random, &mut m, &mut rep, &mut r, &mut none, None, None, None);
        for c in classes {
            rep.violation("graph_engine.disjoint_footprints/breaks_wf", &format!("WF broken although the operations touch disjoint keys ({c})"), json!({"setup": ops_json(&setup)}));
        }
    }

    lap("conc.disjoint done");
    // ---------------- (ii-b') NOT under the scheduler (real concurrency): delete_node of a hub with >= 100
    //                  edges (its per-edge clean-up runs on the rayon pool, which has no yield hook) while a
    //                  second client thread runs batch_create_edges / create_edge / delete_edge among the
    //                  SPOKES: both sides update the spokes' lists.  No edge of the second thread touches the
    //                  hub, so the node-deletion race is not involved: any WF break is a violation.
    let mut r = root.fork("conc.unscheduled.big_hub_vs_batch");
    for _ in 0..4 * scale {
        let g = Arc::new(new_engine());
        let spokes = 3 + r.below(3);
        let total = 100 + r.below(20);
        let mut setup: Vec<Op> = vec![Op::CNode { l: 0, v: 0 }, Op::BCN((0..spokes).map(|_| (1, 0)).collect())];
        setup.push(Op::BCE(
            (0..total)
                .map(|k| {
                    let other = 2 + (k % spokes);
                    let (a, b) = if r.chance(1, 2) { (1, other) } else { (other, 1) };
                    (a, b, r.chance(2, 3), 0, 0)
                })
                .collect(),
        ));
        // a few spoke-to-spoke edges the second client may delete (ids total+1 ..)
        let extra = 2 + r.below(3);
        setup.push(Op::BCE((0..extra).map(|_| (2 + r.below(spokes), 2 + r.below(spokes), r.chance(1, 2), 1, 0)).collect()));
        for op in &setup {
            exec(&g, op);
        }
        let client: Vec<Op> = (0..2 + r.below(3))
            .map(|_| {
                let w = r.below(100);
                if w < 55 {
                    Op::BCE((0..1 + r.below(4)).map(|_| (2 + r.below(spokes), 2 + r.below(spokes), r.chance(1, 2), 1, 1)).collect())
                } else if w < 80 {
                    Op::CEdge { a: 2 + r.below(spokes), b: 2 + r.below(spokes), d: r.chance(1, 2), ty: 1, v: 1 }
                } else {
                    Op::DEdge(total + 1 + r.below(extra))
                }
            })
            .collect();
        std::thread::scope(|sc| {
            let g1 = g.clone();
            let g2 = g.clone();
            let cl = client.clone();
            sc.spawn(move || {
                exec(&g1, &Op::DNode(1));
            });
            sc.spawn(move || {
                for op in &cl {
                    exec(&g2, op);
                }
            });
        });
        let im = image_of(&g);
        let breaks = im.wf_breaks();
        rep.hit(if breaks.is_empty() { "conc.unscheduled.big_hub_vs_batch.quiescent_wf_ok" } else { "conc.unscheduled.big_hub_vs_batch.quiescent_wf_broken" });
        if let Some((kind, detail)) = breaks.first() {
            let mut all = client.clone();
            all.push(Op::DNode(1));
            let c = classify(kind, detail, &all, &im, &HashMap::new());
            let c = if c == "graph_engine.create_edge/edge_to_deleted_node" { "graph_engine.delete_node/parallel_path_vs_second_client".to_string() } else { c };
            rep.violation(
                &c,
                &format!("graph not well-formed after delete_node of a >=100-edge hub (rayon path) ran next to a second client working among the spokes (not schedule-controlled): {kind}: {detail}"),
                json!({"setup": ops_json(&setup), "threads": [["dnode 1"], ops_json(&client)], "final_image": im.text()}),
            );
        }
        rep.case("conc.unscheduled.big_hub_vs_batch", Some(&format!("{}|{}", ops_json(&setup), ops_json(&client))));
    }
    lap("conc.unscheduled done");
    // ---------------- (ii-c) overlapping operations, seeded random schedules
    let mut r = root.fork("conc.random");
    for i in 0..600 * scale {
        let (setup, threads) = gen_conc(&mut r);
        conc_case("conc.random", &setup, &threads, Sched::Random, &mut m, &mut rep, &mut r, &mut per_class, None, None, None);
        if i < 2 {
            rep.sample(json!({"stream": "conc.random", "setup": ops_json(&setup), "threads": threads.iter().map(|t| ops_json(t)).collect::<Vec<_>>()}));
        }
    }

    lap("conc.random done");
    rep.expected_branches = [
        "seq.create_node.ok", "seq.create_edge.ok", "seq.create_edge.err_node_not_found", "seq.delete_edge.ok",
        "seq.delete_edge.err_edge_not_found", "seq.delete_node.ok", "seq.delete_node.err_node_not_found",
        "seq.update_node.ok", "seq.update_node.err_node_not_found", "seq.update_edge.ok", "seq.update_edge.err_edge_not_found",
        "seq.big_hub.parallel_edges", "seq.big_hub.distinct_neighbours", "seq.query",
        "seq.add_label.ok", "seq.remove_label.ok", "seq.batch_create_nodes.ok", "seq.batch_create_edges.ok",
        "seq.batch_create_edges.err_batch_invalid", "seq.batch_delete_edges.ok", "seq.batch_delete_nodes.ok",
        "seq.batch_update_nodes.ok", "seq.batch_update_nodes.err_batch_invalid", "seq.reopen.ok",
        "seq.big_hub.batch_create_nodes_parallel_path",
        "conc.threads.2", "conc.threads.8",
        "regress.create_node.ends_node_not_found_or_well_formed",
        "regress.create_node.cut_after_0_store_calls", "regress.create_node.cut_after_3_store_calls",
        "regress.batch_vs_writer.batch_first", "regress.batch_vs_writer.batch_second", "regress.batch_vs_writer.well_formed",
        "conc.batch_hub.quiescent_wf_ok", "conc.unscheduled.big_hub_vs_batch.quiescent_wf_ok",

    ]
    .iter()
    .map(|s| s.to_string())
    .collect();
    rep.note("add_edge_to_list / remove_edge_from_list run under edge_list_lock(key) (a stripe of index_locks chosen by a hash of the list key, /repo 81b9c5b4); the model has one lock per list key (acquire / release are silent steps, a thread at the acquire of a held lock is not runnable); two keys sharing a stripe only remove interleavings. The lock is invisible in the yield traces: the correspondence is that every real schedule is accepted by the locked model (a grant to a non-runnable model thread would show as a trace disagreement)");
    rep.note("the scheduler's choose mirrors the list lock (LockMirror) and does not grant a thread that would wait for a held stripe; steps where a thread nevertheless waited on a real lock (index stripes shared with list keys, wrong guesses) are counted in conc.steps_with_a_thread_blocked_on_a_real_lock");
    rep.note("create_node / create_node_internal write the node's two empty lists before the node record since /repo e23bf6c3 (model: createNodeFrom; the order before it: createNodeFromOld, Props.create_node_create_edge_race_old_witness). Regression oracle, every concurrent stream: a WF break on a node handed out during the concurrent phase whose creator's yield trace shows a list written after the record is the violation graph_engine.create_node/lists_initialised_after_node_visible; directed cases regress.create_node_vs_create_edge* / regress.batch_create_nodes_vs_create_edge* follow the old witness schedule as far as the code allows, first on every run, and must end in NodeNotFound or a well-formed store");
    rep.note("outside the property's quantifier (observation, not violation): graph_engine.delete_edge/edge_still_being_created (Props.delete_edge_of_edge_in_creation_race_witness; needs a preemption between create_edge's store.put of the record and its first lock acquisition, which is not a yield point: not replayable under the scheduler; the id of an edge whose create_edge has not returned can only be guessed); stream conc.fresh_ids runs programs that name ids handed out during the concurrent phase, batch calls included");
    rep.note("a concurrent case is not compared with the model (conc.not_compared.node_id_order_not_scheduled, WF oracle still applied) when >= 2 threads create nodes, some thread waited on a real lock during the run, and the real results / traces / image differ from the model's in numbers only: the waiting thread resumes while the releasing thread is still running and the order of their node_counter.fetch_add is then not scheduled");
    rep.note("delete_node's >=100-edge path runs on rayon pool threads that the deterministic scheduler does not control; it is exercised only by the sequential stream (real concurrency, not schedule-controlled); since the list lock every such script must be well-formed (class graph_engine.delete_node/parallel_path_lost_removal is a regression oracle)");
    rep.note("batch calls under the scheduler: directed cases regress.batch_vs_writer.* (a batch call against a writer of the same adjacency list - create_edge, delete_edge, delete_node of a neighbour or of the hub, another batch call - with thread 0 granted k store calls before thread 1 runs as far as it can, every k, both role orders; first on every run), stream conc.batch_hub (probing schedules: a thread about to take a list lock that LockMirror says is held is granted every third time; violations are shrunk), conc.fresh_ids; yield traces, results and final image are compared with the model's step lists (batch_delete_nodes with the edge order of each of its delete_node calls read off the trace). Regression oracle of the list lock in every concurrent stream: a WF break on a list that two threads had read and not yet written back at the same time (rmw_sections / rmw_overlaps on the real yield trace; Lean: list_rmw_sections_exclusive) is the violation graph_engine.edge_list_lock/list_update_not_exclusive, evaluated BEFORE a break is attributed to a known finding; overlapping sections without a WF break are recorded as an observation");
    rep.note("conc.unscheduled.big_hub_vs_batch: delete_node of a >=100-edge hub (rayon path, not schedule-controlled) next to a second client thread that creates / deletes edges among the spokes (batch_create_edges, create_edge, delete_edge): real concurrency, WF oracle only");
    rep.note("not modelled: property/label index contents, constraints, weak-memory effects inside one TensorStore call; add_label / remove_label, batch_update_nodes and re-opening (GraphEngine::with_store over the same store) are exercised sequentially only");
    if let Ok(c) = CAUSES.lock() {
        for (i, name) in ["storage", "not_found", "partial", "unclassified_wording"].iter().enumerate() {
            if c[i] > 0 {
                rep.hit_n(&format!("batch_delete.cause.{name}"), c[i]);
            }
        }
    }
    rep.write(&args.out);
}
