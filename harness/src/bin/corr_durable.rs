//! C02 — durable store: acknowledged writes survive any crash, in order.
//!
//! Drives the REAL `TensorStore` in durable mode on temp directories, materialises crash states
//! (log cut at a byte; the directory states between the three checkpoint steps; rotated logs),
//! runs the real recovery on each and
//!   * compares the full scan+get image with the Lean model's prediction (the model is given the
//!     real file bytes; bitcode payloads are opaque: the harness binds each payload to the entry
//!     the real `bitcode::deserialize` returns),
//!   * evaluates the property oracle directly on the implementation's output: recovered durable
//!     state == state after some prefix of the operations that includes every acknowledged one,
//!   * continues writing on the recovered store and crashes again (up to 3 crashes).
//! Also: frame parsing of real/malformed WAL bytes, `TensorWal::open` tail repair length,
//! crc32 vs crc32fast.

use std::collections::{BTreeMap, HashSet};
use std::path::PathBuf;

use nverif::{hex, parse_args, Model, Report, Rng};
use serde_json::{json, Value};
use tensor_store::{
    ScalarValue, SparseVector, SyncMode, TensorData, TensorStore, TensorValue, TensorWal, WalConfig, WalEntry,
};

// ------------------------------------------------------------------ values, canonical forms

type Canon = (Vec<u8>, Option<Vec<u8>>); // (body, `_embedding` vector bytes)

fn f32s_bytes(v: &[f32]) -> Vec<u8> {
    v.iter().flat_map(|x| x.to_le_bytes()).collect()
}

fn tv_str(v: &TensorValue) -> String {
    match v {
        TensorValue::Scalar(ScalarValue::Null) => "null".into(),
        TensorValue::Scalar(ScalarValue::Bool(b)) => format!("bool:{b}"),
        TensorValue::Scalar(ScalarValue::Int(i)) => format!("int:{i}"),
        TensorValue::Scalar(ScalarValue::Float(f)) => format!("float:{:016x}", f.to_bits()),
        TensorValue::Scalar(ScalarValue::String(s)) => format!("str:{}", hex(s.as_bytes())),
        TensorValue::Scalar(ScalarValue::Bytes(b)) => format!("bytes:{}", hex(b)),
        TensorValue::Vector(v) => format!("vec:{}", hex(&f32s_bytes(v))),
        TensorValue::Sparse(s) => format!("sparse:{s:?}"),
        TensorValue::Pointer(p) => format!("ptr:{}", hex(p.as_bytes())),
        TensorValue::Pointers(ps) => format!("ptrs:{}", ps.iter().map(|p| hex(p.as_bytes())).collect::<Vec<_>>().join(",")),
    }
}

fn canon(d: &TensorData) -> Canon {
    let mut fs: Vec<String> = Vec::new();
    let mut emb = None;
    for (k, v) in d.fields_iter() {
        if k == "_embedding" {
            if let TensorValue::Vector(x) = v {
                emb = Some(f32s_bytes(x));
                continue;
            }
        }
        fs.push(format!("{}={}", hex(k.as_bytes()), tv_str(v)));
    }
    fs.sort();
    (fs.join(";").into_bytes(), emb)
}

fn ob_str(e: &Option<Vec<u8>>) -> String {
    match e {
        None => "none".into(),
        Some(b) => hex(b),
    }
}
fn item(key: &str, c: &Canon) -> String {
    format!("{}={}:{}", hex(key.as_bytes()), hex(&c.0), ob_str(&c.1))
}
fn is_cache(key: &str) -> bool {
    key.starts_with("_cache:")
}

fn entry_str(e: &WalEntry) -> String {
    match e {
        WalEntry::MetadataSet { key, data } => {
            let c = canon(data);
            format!("set:{}:{}:{}", hex(key.as_bytes()), hex(&c.0), ob_str(&c.1))
        },
        WalEntry::MetadataDelete { key } => format!("del:{}", hex(key.as_bytes())),
        WalEntry::EmbeddingSet { entity_id, embedding } => format!("eset:{}:{}", entity_id.as_u64(), hex(&f32s_bytes(embedding))),
        WalEntry::EmbeddingDelete { entity_id } => format!("edel:{}", entity_id.as_u64()),
        WalEntry::EntityCreate { key, entity_id } => format!("ecreate:{}:{}", hex(key.as_bytes()), entity_id.as_u64()),
        WalEntry::EntityRemove { key } => format!("eremove:{}", hex(key.as_bytes())),
        WalEntry::TxBegin { tx_id } => format!("txb:{tx_id}"),
        WalEntry::TxCommit { tx_id } => format!("txc:{tx_id}"),
        WalEntry::TxAbort { tx_id } => format!("txa:{tx_id}"),
        WalEntry::Checkpoint { snapshot_id } => format!("ckpt:{snapshot_id}"),
    }
}

/// bytes the real encoder + framing take for the record the model names `e` (key and value of the operation
/// at hand; ids and vectors from the model's record string)
fn record_size(e: &str, key: &str, data: Option<&TensorData>) -> usize {
    let parts: Vec<&str> = e.split(':').collect();
    let entry = match parts.as_slice() {
        ["set", ..] => WalEntry::MetadataSet { key: key.to_string(), data: data.cloned().unwrap_or_default() },
        ["del", _] => WalEntry::MetadataDelete { key: key.to_string() },
        ["eset", id, v] => WalEntry::EmbeddingSet { entity_id: tensor_store::EntityId::new(id.parse().unwrap_or(0)), embedding: f32s_of(v) },
        ["edel", id] => WalEntry::EmbeddingDelete { entity_id: tensor_store::EntityId::new(id.parse().unwrap_or(0)) },
        ["eremove", _] => WalEntry::EntityRemove { key: key.to_string() },
        _ => return 0,
    };
    8 + bitcode::serialize(&entry).map(|b| b.len()).unwrap_or(0)
}

// ------------------------------------------------------------------ operations and generators

#[derive(Clone, Debug)]
enum Op {
    Put(String, TensorData),
    Del(String),
    Sync,
    Ckpt,
}

fn op_str(o: &Op) -> String {
    match o {
        Op::Put(k, d) => {
            let c = canon(d);
            let e = match &c.1 {
                None => "none".to_string(),
                Some(b) => format!("vec{}", b.len() / 4),
            };
            format!("put {k:?} body={} emb={e}", String::from_utf8_lossy(&c.0))
        },
        Op::Del(k) => format!("del {k:?}"),
        Op::Sync => "sync".into(),
        Op::Ckpt => "checkpoint".into(),
    }
}
fn ops_json(eps: &[Vec<Op>]) -> Value {
    json!(eps.iter().map(|e| e.iter().map(op_str).collect::<Vec<_>>()).collect::<Vec<_>>())
}

const KEYS: &[&str] = &[
    "a", "b", "emb:a", "emb:b", "emb:c", "node:1", "edge:1", "table:t", "_cache:x", "_cache:y", "emb", "_cache", "_blob:meta:z",
    "", "k\u{e9}y", "emb:", "user:1",
    // keys whose FIRST character is not ASCII (2-, 3- and 4-byte UTF-8): every byte-indexed structure of the store
    // (shard of the metadata slab, prefix scan) sees a first BYTE that is not the first character
    "\u{43a}\u{43b}\u{44e}\u{447}:1", "\u{e9}mile", "\u{65e5}\u{672c}:x", "\u{1F601}k",
];

/// KEY ALPHABET of the non-ASCII streams: keys that start with a 2-byte (Latin-1 supplement, Cyrillic), 3-byte (Thai,
/// currency, CJK) or 4-byte (emoji, mathematical, U+10FFFF) character — several for each residue mod 16 of the first
/// byte, both with `first char % 16 != first byte % 16` and with the two equal —, the empty key, keys that differ
/// only in a later non-ASCII character, and a few ASCII keys of every class next to them.
const UNI_KEYS: &[&str] = &[
    "\u{43a}\u{43b}\u{44e}\u{447}:1", "\u{43a}\u{43b}\u{44e}\u{447}:2", "\u{43a}\u{43b}\u{44e}\u{447}:\u{44f}", "\u{44e}\u{433}", "\u{400}0",
    "\u{e9}mile", "\u{f1}u", "\u{df}eta", "\u{a2}ent",
    "\u{65e5}\u{672c}:x", "\u{672c}", "\u{e01}1", "\u{20ac}uro",
    "\u{1F601}k", "\u{1D538}", "\u{10FFFF}z",
    "", "emb:\u{e9}", "emb:\u{e8}", "k\u{e9}y", "k\u{e8}y", "node:\u{e9}", "_cache:\u{e9}", "a", "emb:a",
];

#[derive(Clone, Copy, PartialEq)]
enum EmbPolicy {
    Any,      // `_embedding` of dim 0/2/3/384 on any key
    No384,    // never a 384-dim vector (snapshot compression of the slab is lossy: C07's subject)
}

fn gen_value(r: &mut Rng, key: &str, pol: EmbPolicy, rep: &mut Report) -> TensorData {
    let mut d = TensorData::new();
    let nf = r.below(3);
    for i in 0..nf {
        let name = ["f", "g", "name"][i as usize];
        let v = match r.below(10) {
            0 => TensorValue::Scalar(ScalarValue::Null),
            1 => TensorValue::Scalar(ScalarValue::Bool(r.chance(1, 2))),
            2 => TensorValue::Scalar(ScalarValue::Int(*r.pick(&[0i64, -1, 7, i64::MAX, i64::MIN]))),
            3 => TensorValue::Scalar(ScalarValue::Float(f64::from_bits(*r.pick(&[0u64, 0x8000_0000_0000_0000, 0x3ff8_0000_0000_0000, 0x7ff8_0000_0000_0001, 0x7ff0_0000_0000_0000])))),
            4 => TensorValue::Scalar(ScalarValue::String(r.pick(&["", "x", "v\u{1F600}", "long-string-value-0123456789"]).to_string())),
            5 => {
                let n = r.below(6) as usize;
                TensorValue::Scalar(ScalarValue::Bytes(r.bytes(n)))
            },
            6 => TensorValue::Vector((0..r.below(4)).map(|_| f32::from_bits(*r.pick(&[0u32, 0x3f80_0000, 0xbf80_0000, 0x7fc0_0001, 0x8000_0000]))).collect()),
            7 => TensorValue::Sparse(SparseVector::from_dense(&[0.0, 1.0, 0.0, 2.0][..(1 + r.below(4) as usize)])),
            8 => TensorValue::Pointer(r.pick(&["a", "emb:a", ""]).to_string()),
            _ => TensorValue::Pointers((0..r.below(3)).map(|i| format!("p{i}")).collect()),
        };
        rep.hit(&format!("value.{}", tv_str(&v).split(':').next().unwrap_or("?")));
        d.set(name, v);
    }
    // `_embedding`: common on emb: keys, occasional elsewhere
    let want = if key.starts_with("emb:") { r.chance(3, 4) } else { r.chance(1, 8) };
    if want {
        let dim = match (pol, r.below(5)) {
            (EmbPolicy::Any, 0) | (EmbPolicy::Any, 1) => 384usize,
            (_, 2) => 0,
            (_, 3) => 2,
            _ => 3,
        };
        let base = r.below(5) as f32;
        let v: Vec<f32> = (0..dim).map(|i| base + (i % 3) as f32).collect();
        rep.hit(&format!("emb.dim{dim}"));
        d.set("_embedding", TensorValue::Vector(v));
    } else if r.chance(1, 12) {
        // `_embedding` that is not a dense vector: the router treats the value as carrying no vector
        let v = match r.below(3) {
            0 => TensorValue::Sparse(SparseVector::from_dense(&[0.0, 1.0, 0.0, 2.0])),
            1 => TensorValue::Scalar(ScalarValue::Int(7)),
            _ => TensorValue::Pointer("emb:a".to_string()),
        };
        rep.hit("emb.nonvector");
        d.set("_embedding", v);
    } else {
        rep.hit("emb.none");
    }
    d
}

fn gen_ops(r: &mut Rng, n: usize, pol: EmbPolicy, syncs: bool, ckpt: bool, rep: &mut Report) -> Vec<Op> {
    gen_ops_keys(r, n, KEYS, pol, syncs, ckpt, rep)
}

/// few keys of the embedding class (and one plain key that also carries vectors): dense interaction of
/// entity index, embedding slab, metadata, deletes and checkpoints
const OVERLAY_KEYS: &[&str] = &["emb:a", "emb:b", "emb:c", "a"];

fn gen_ops_keys(r: &mut Rng, n: usize, keys: &[&str], pol: EmbPolicy, syncs: bool, ckpt: bool, rep: &mut Report) -> Vec<Op> {
    let mut v = Vec::new();
    for _ in 0..n {
        let k = r.pick(keys).to_string();
        let x = r.below(100);
        if x < 62 {
            let d = gen_value(r, &k, pol, rep);
            v.push(Op::Put(k, d));
        } else if x < 88 {
            v.push(Op::Del(k));
        } else if x < 94 && syncs {
            v.push(Op::Sync);
        } else if x < 100 && ckpt {
            v.push(Op::Ckpt);
        } else {
            v.push(Op::Del(k));
        }
    }
    v
}

// ------------------------------------------------------------------ real-store helpers

fn image_of(st: &TensorStore) -> Vec<String> {
    let mut keys = st.scan("");
    keys.sort();
    keys.dedup();
    let mut out: Vec<String> = keys
        .iter()
        .map(|k| match st.get(k) {
            Ok(d) => item(k, &canon(&d)),
            Err(_) => format!("!{}", hex(k.as_bytes())),
        })
        .collect();
    out.sort();
    out
}
/// `exists`, `scan` and `get` must tell the same story (theorem exists_scan_get_agree): for every key of `universe`
/// and every key scan lists: exists(k) == get(k).is_ok(), get(k).is_ok() => scan lists k (also by the key as prefix),
/// scan lists k => get answers. Returns the incoherent keys with what is wrong.
fn incoherent_keys(st: &TensorStore, universe: &[String]) -> Vec<(String, String)> {
    let listed: HashSet<String> = st.scan("").into_iter().collect();
    let mut keys: Vec<String> = listed.iter().cloned().collect();
    keys.extend(universe.iter().cloned());
    keys.sort();
    keys.dedup();
    let mut bad = Vec::new();
    for k in keys {
        let e = st.exists(&k);
        let g = st.get(&k).is_ok();
        let l = listed.contains(&k);
        let lp = st.scan(&k).iter().any(|x| *x == k);
        if e != g || g != l || l != lp {
            bad.push((k, format!("exists={e} get_ok={g} scan_lists={l} scan_by_key_prefix_lists={lp}")));
        }
    }
    bad
}
fn keys_of_images(imgs: &[Vec<String>]) -> Vec<String> {
    let mut v: Vec<String> = imgs.iter().flatten().filter_map(|it| it.split_once('=').map(|x| String::from_utf8(nverif::unhex(x.0)).unwrap_or_default())).collect();
    v.extend(["nope", "emb:nope", "_cache:nope", "emb:", "_cache:"].iter().map(|x| x.to_string()));
    v.sort();
    v.dedup();
    v
}
const INCOHERENT: &str = "tensor_store.exists_scan_get/disagree";
/// a key that every admissible prefix of the acknowledged writes holds is NotFound / not reported by `exists` in the
/// recovered store
const ACKED_KEY_UNREADABLE: &str = "tensor_store.recover/acknowledged_key_not_readable";

/// Class of one incoherent key (site + kind from the trace): the ghost of a failed put_durable — an emb: key whose
/// put with a vector returned an error in this chain, which exists / scan report although get rejects it — is the
/// FIXED class `FAILED_PUT_GHOST` (repo f5ce42e5); every other disagreement stays `INCOHERENT`.
fn incoherence_class(key: &str, what: &str, failed_puts: &HashSet<String>) -> &'static str {
    let ghost = what.contains("get_ok=false") && (what.contains("exists=true") || what.contains("scan_lists=true") || what.contains("scan_by_key_prefix_lists=true"));
    if ghost && key.starts_with("emb:") && failed_puts.contains(key) {
        FAILED_PUT_GHOST
    } else {
        INCOHERENT
    }
}

fn durable_part(img: &[String]) -> Vec<String> {
    let cache_prefix = hex(b"_cache:");
    img.iter().filter(|s| !s.starts_with('!') && !s.starts_with(&cache_prefix)).cloned().collect()
}
fn canon_model_image(ans: &str) -> String {
    // "ok <items…>" | "ok -" | "err checksum"
    if let Some(rest) = ans.strip_prefix("ok") {
        let mut v: Vec<&str> = rest.split_whitespace().filter(|s| *s != "-").collect();
        v.sort();
        v.dedup();
        format!("ok {}", v.join(" "))
    } else {
        ans.to_string()
    }
}
fn fmt_image(img: &[String]) -> String {
    format!("ok {}", img.join(" "))
}
fn spec_image(spec: &BTreeMap<String, Canon>) -> Vec<String> {
    let mut v: Vec<String> = spec.iter().map(|(k, c)| item(k, c)).collect();
    v.sort();
    v
}
fn frame(payload: &[u8]) -> Vec<u8> {
    let mut v = Vec::with_capacity(payload.len() + 8);
    v.extend_from_slice(&(payload.len() as u32).to_le_bytes());
    v.extend_from_slice(&crc32fast::hash(payload).to_le_bytes());
    v.extend_from_slice(payload);
    v
}
fn cfg_for(mode: SyncMode, max_size: Option<u64>) -> WalConfig {
    let mut c = WalConfig::default();
    c.sync_mode = mode;
    if let Some(m) = max_size {
        c.max_size_bytes = m;
    }
    c
}
fn cfg_of(cc: &ChainCfg) -> WalConfig {
    let mut c = cfg_for(cc.mode, cc.max_size);
    c.enable_checksums = cc.checksums;
    c.verify_on_replay = cc.verify;
    c.auto_rotate = !cc.no_rotate;
    c
}
fn mode_str(m: SyncMode) -> String {
    match m {
        SyncMode::Immediate => "immediate".into(),
        SyncMode::Manual => "manual".into(),
        SyncMode::Batched { max_entries } => format!("batched:{max_entries}"),
    }
}

// ------------------------------------------------------------------ lossy snapshot tolerance (C07's subject)

/// `tensor_store::embedding_slab::TT_MIN_DIMENSION`: the snapshot stores slab vectors of at least this
/// dimension as a tensor-train decomposition (`TTConfig::for_dim`: max_rank 8, relative SVD truncation
/// tolerance 1e-4, documented in docs/book/src/architecture/tensor-compress.md). Property C07: "longer ones
/// are within the documented reconstruction tolerance".
const TT_MIN_DIM: usize = 256;
/// accepted relative L2 reconstruction error for such a vector that came back from a snapshot:
/// the documented per-truncation tolerance 1e-4, times a margin for the accumulation over the cores
/// and f32 rounding
const TT_REL_TOL: f64 = 1e-3;

fn f32s_of(hexs: &str) -> Vec<f32> {
    nverif::unhex(hexs).chunks_exact(4).map(|c| f32::from_le_bytes([c[0], c[1], c[2], c[3]])).collect()
}
/// relative L2 distance; NaN-free inputs only (otherwise infinite)
fn rel_err(a: &str, b: &str) -> f64 {
    let (x, y) = (f32s_of(a), f32s_of(b));
    if x.len() != y.len() {
        return f64::INFINITY;
    }
    let mut num = 0f64;
    let mut den = 0f64;
    for (p, q) in x.iter().zip(y.iter()) {
        if !p.is_finite() || !q.is_finite() {
            return f64::INFINITY;
        }
        num += (*p as f64 - *q as f64).powi(2);
        den += (*p as f64).powi(2);
    }
    if den == 0.0 {
        if num == 0.0 { 0.0 } else { f64::INFINITY }
    } else {
        (num / den).sqrt()
    }
}
/// (key hex, body hex, emb hex | "none")
fn split_item(s: &str) -> Option<(&str, &str, &str)> {
    let (k, rest) = s.split_once('=')?;
    let (b, e) = rest.rsplit_once(':')?;
    Some((k, b, e))
}

#[derive(Clone, Copy, PartialEq, Debug)]
enum Match {
    Exact,
    /// equal except for embeddings of dimension >= TT_MIN_DIM that the snapshot holds, which are within
    /// TT_REL_TOL (largest relative error seen)
    Approx(f64),
    No,
}

type SnapContent = BTreeMap<String, Canon>;

/// `exp` is what the writes say, `got` what the store returned. Bit-exact comparison, except: an
/// embedding of dimension >= TT_MIN_DIM whose expected value is (up to the tolerance) the value the
/// snapshot `snap` was taken from may come back within TT_REL_TOL.
fn item_match(exp: &str, got: &str, snap: Option<&SnapContent>) -> Match {
    if exp == got {
        return Match::Exact;
    }
    let (Some((ek, eb, ee)), Some((gk, gb, ge))) = (split_item(exp), split_item(got)) else { return Match::No };
    if ek != gk || eb != gb || ee == "none" || ge == "none" || ee.len() != ge.len() || ee.len() < TT_MIN_DIM * 8 {
        return Match::No;
    }
    let Some(snap) = snap else { return Match::No };
    let key = String::from_utf8(nverif::unhex(ek)).unwrap_or_default();
    let Some((_, Some(semb))) = snap.get(&key) else { return Match::No };
    let sh = hex(semb);
    if sh.len() != ee.len() || rel_err(&sh, ee) > TT_REL_TOL {
        return Match::No;
    }
    let e = rel_err(ee, ge);
    if e <= TT_REL_TOL {
        Match::Approx(e)
    } else {
        Match::No
    }
}
fn image_match(exp: &[String], got: &[String], snap: Option<&SnapContent>) -> Match {
    if exp.len() != got.len() {
        return Match::No;
    }
    let mut worst = Match::Exact;
    for (e, g) in exp.iter().zip(got.iter()) {
        match item_match(e, g, snap) {
            Match::No => return Match::No,
            Match::Approx(x) => {
                worst = match worst {
                    Match::Approx(y) if y >= x => worst,
                    _ => Match::Approx(x),
                }
            },
            Match::Exact => {},
        }
    }
    worst
}

// ------------------------------------------------------------------ context

struct Ctx {
    m: Model,
    rep: Report,
    seen: HashSet<Vec<u8>>, // payloads already bound / marked undecodable in the model
    tmp: tempfile::TempDir,
    n_dirs: u64,
    thorough: bool,
    /// what each snapshot (model name) was taken from: key -> value at checkpoint time
    snap_contents: std::collections::HashMap<String, SnapContent>,
    max_rel_err: f64,
    /// tolerance observations already recorded in full (the report keeps 20 observations in all)
    n_inexact_obs: usize,
}

impl Ctx {
    fn fresh_dir(&mut self) -> PathBuf {
        self.n_dirs += 1;
        let p = self.tmp.path().join(format!("d{}", self.n_dirs));
        std::fs::create_dir_all(&p).unwrap();
        p
    }
    /// Tell the model what every complete frame of `bytes` deserializes to (real bitcode).
    /// Returns (record count, end condition) as the model parses it.
    fn bind_file(&mut self, bytes: &[u8]) -> (usize, String) {
        loop {
            let ans = self.m.ask(&format!("parse {}", hex(bytes)));
            let parts: Vec<&str> = ans.split_whitespace().collect();
            if parts.len() < 3 {
                return (0, format!("model-parse-failed:{ans}"));
            }
            let mut new_undec = false;
            if parts[2] != "-" {
                for ph in parts[2].split(',') {
                    let p = nverif::unhex(ph);
                    if self.seen.contains(&p) {
                        continue;
                    }
                    match bitcode::deserialize::<WalEntry>(&p) {
                        Ok(e) => {
                            self.m.ask(&format!("bind {} {}", hex(&p), entry_str(&e)));
                        },
                        Err(_) => {
                            self.m.ask(&format!("undec {}", hex(&p)));
                            new_undec = true;
                        },
                    }
                    self.seen.insert(p);
                }
            }
            if !new_undec {
                return (parts[0].parse().unwrap_or(0), parts[1].to_string());
            }
        }
    }
}

/// One crash state: snapshot file bytes (if any) + log bytes.
#[derive(Clone)]
struct DiskState {
    snap: Option<Vec<u8>>,
    snap_name: String, // model's name for that snapshot ("none" if absent)
    wal: Vec<u8>,
    /// rotated log segments present in the directory (`w.wal.N`), copied as they are
    segments: Vec<(String, Vec<u8>)>,
    /// a partially written `snap.bin.tmp` left by a crash inside the snapshot step (before the rename)
    tmp: Option<Vec<u8>>,
    /// the log path does not exist (crash inside `rotate` between the rename of the live file and the creation of
    /// the fresh one); `wal` is empty then
    wal_missing: bool,
}

fn read_segments(dir: &std::path::Path) -> Vec<(String, Vec<u8>)> {
    let mut v = Vec::new();
    if let Ok(rd) = std::fs::read_dir(dir) {
        for e in rd.flatten() {
            let name = e.file_name().to_string_lossy().to_string();
            if name.starts_with("w.wal.") {
                v.push((name, std::fs::read(e.path()).unwrap_or_default()));
            }
        }
    }
    v.sort();
    v
}

fn materialise(ctx: &mut Ctx, ds: &DiskState) -> (PathBuf, PathBuf, Option<PathBuf>) {
    let d = ctx.fresh_dir();
    let wal = d.join("w.wal");
    if !ds.wal_missing {
        std::fs::write(&wal, &ds.wal).unwrap();
    }
    for (name, b) in &ds.segments {
        std::fs::write(d.join(name), b).unwrap();
    }
    let mut sp = ds.snap.as_ref().map(|b| {
        let p = d.join("snap.bin");
        std::fs::write(&p, b).unwrap();
        p
    });
    if let Some(t) = &ds.tmp {
        std::fs::write(d.join("snap.bin.tmp"), t).unwrap();
        if sp.is_none() {
            // no snapshot yet: recovery is given the path the snapshot WOULD have (`path.exists()` is false)
            sp = Some(d.join("snap.bin"));
        }
    }
    (d, wal, sp)
}

struct Expect<'a> {
    /// durable images after each prefix of the epoch's operations (index 0 = state at open)
    prefixes: &'a [Vec<String>],
    /// the recovered state must be prefixes[k] with k >= floor
    floor: usize,
}

struct CrashInfo<'a> {
    stream: &'a str,
    what: String,
    prev_torn: bool,
    rotated: bool,
    unsynced_ckpt: bool,
    compare_model: bool,
    bloom: bool,
    /// emb: keys for which a put_durable carrying a vector returned an error in this chain (auto_rotate = false:
    /// append refused): a ghost of such a key is classified as the FIXED class `FAILED_PUT_GHOST`
    failed_puts: &'a HashSet<String>,
    script: &'a Value,
}

/// the name of an error's VARIANT (first identifier of its Debug rendering), never its message text
fn vname<T: std::fmt::Debug>(e: &T) -> String {
    format!("{e:?}").chars().take_while(|c| c.is_alphanumeric() || *c == '_').collect()
}

/// Run the real recovery on `ds`, compare with the model, evaluate the oracle.
/// Returns the matched prefix index (largest) when the oracle is satisfied.
fn check_recovery(ctx: &mut Ctx, ds: &DiskState, cfg: &WalConfig, exp: &Expect, info: &CrashInfo) -> Option<usize> {
    let (d, wal, sp) = materialise(ctx, ds);
    let r = if info.bloom { TensorStore::recover_with_bloom(&wal, cfg, sp.as_deref(), BLOOM_ITEMS, BLOOM_FPR) } else { TensorStore::recover(&wal, cfg, sp.as_deref()) };
    let mut incoherent: Vec<(String, String)> = Vec::new();
    let mut unreadable: Vec<(String, String)> = Vec::new();
    let (imp_ans, img) = match &r {
        Ok(st) => {
            let img = image_of(st);
            incoherent = incoherent_keys(st, &keys_of_images(exp.prefixes));
            // acknowledged writes, key by key: an item every admissible prefix (>= floor) holds must be readable
            // by `get` and reported by `exists` whatever `scan` says (rotation: known finding, judged below)
            if !info.rotated && exp.floor < exp.prefixes.len() {
                let cache_prefix = hex(b"_cache:");
                for it in &exp.prefixes[exp.floor] {
                    if it.starts_with(&cache_prefix) || !exp.prefixes[exp.floor..].iter().all(|p| p.contains(it)) {
                        continue;
                    }
                    if let Some(k) = it.split_once('=').and_then(|x| String::from_utf8(nverif::unhex(x.0)).ok()) {
                        let (e, g) = (st.exists(&k), st.get(&k).is_ok());
                        if !(e && g) {
                            unreadable.push((k, format!("exists={e} get_ok={g}")));
                        }
                    }
                }
            }
            (fmt_image(&img), Some(img))
        },
        // Error canonicalisation (BUILDING.md), rule 2: `recover` reports every refusal as the one variant
        // `SlabRouterError::WalError(String)` (open / snapshot load / replay), the model has ONE refusal
        // (`err checksum`) and the oracle below treats every refusal alike (`recover_error`): the compared
        // token is decided by the VARIANT; what the message says is a coverage statistic only.
        Err(e @ tensor_store::SlabRouterError::WalError(_)) => {
            ctx.rep.hit(if e.to_string().to_lowercase().contains("checksum") { "recover.refused.checksum" } else { "recover.refused.other_wording" });
            ("err checksum".to_string(), None)
        },
        Err(e) => (format!("err other:{}", vname(e)), None),
    };
    drop(r);
    ctx.bind_file(&ds.wal);
    let model_ans = canon_model_image(&ctx.m.ask(&format!("{} {} {}", if info.bloom { "brecover" } else { "recover" }, ds.snap_name, hex(&ds.wal))));
    let key = format!("{}|{}|{}", info.what, ds.wal.len(), imp_ans.len());
    ctx.rep.case(&format!("{}.recover", info.stream), if ds.wal.is_empty() { None } else { Some(&key) });
    let cut_json = || json!({"script": info.script, "crash": info.what, "wal_len": ds.wal.len(), "wal_hex": hex(&ds.wal[..ds.wal.len().min(600)]), "snapshot": ds.snap_name});
    let snap_content: Option<SnapContent> = ctx.snap_contents.get(&ds.snap_name).cloned();
    if info.compare_model {
        // bit-exact, except embeddings of dimension >= TT_MIN_DIM that came back from the snapshot
        let mut imp_cmp = imp_ans.clone();
        if let (Some(img), Some(rest)) = (&img, model_ans.strip_prefix("ok")) {
            let mitems: Vec<String> = rest.split_whitespace().map(|x| x.to_string()).collect();
            if let Match::Approx(e) = image_match(&mitems, img, snap_content.as_ref()) {
                imp_cmp = model_ans.clone();
                note_inexact(ctx, e, info, &ds.snap_name);
            }
        }
        ctx.rep.compare(&format!("{}.recover", info.stream), cut_json, &imp_cmp, &model_ans);
    }

    // ---- property oracle on the implementation's own output
    let mut matched = None;
    let viol: Option<(&str, String)> = match &img {
        None => Some(("recover_error", imp_ans.clone())),
        Some(img) => {
            let dur = durable_part(img);
            for (k, p) in exp.prefixes.iter().enumerate() {
                match image_match(p, &dur, snap_content.as_ref()) {
                    Match::Exact => matched = Some(k),
                    Match::Approx(e) => {
                        matched = Some(k);
                        note_inexact(ctx, e, info, &ds.snap_name);
                    },
                    Match::No => {},
                }
            }
            match matched {
                None => Some(("not_a_prefix_state", format!("recovered {:?} is the state of no prefix", dur))),
                Some(k) if k < exp.floor => Some(("lost_acknowledged_write", format!("recovered prefix {k} < acknowledged {}", exp.floor))),
                Some(_) => None,
            }
        },
    };
    if let Some((kind, detail)) = viol {
        matched = None;
        let emb_only = img.as_ref().map(|i| emb_only_mismatch(&durable_part(i), exp.prefixes)).unwrap_or(None);
        // last complete record of the crashed log (real bitcode)
        let last_is_eset = {
            let (mut pos, mut last) = (0usize, None);
            while pos + 8 <= ds.wal.len() {
                let l = u32::from_le_bytes([ds.wal[pos], ds.wal[pos + 1], ds.wal[pos + 2], ds.wal[pos + 3]]) as usize;
                if pos + 8 + l > ds.wal.len() {
                    break;
                }
                last = bitcode::deserialize::<WalEntry>(&ds.wal[pos + 8..pos + 8 + l]).ok();
                pos += 8 + l;
            }
            matches!(last, Some(WalEntry::EmbeddingSet { .. }))
        };
        let class = if info.rotated {
            "tensor_store.wal.rotate/acked_entries_not_replayed".to_string()
        } else if emb_only == Some("tensor_store.slab_router.recover/embedding_differs_from_writes") && last_is_eset {
            // the log ends between the two records of one put_durable
            "tensor_store.slab_router.put_durable/embedding_record_replayed_without_its_metadata_record".to_string()
        } else if info.prev_torn && emb_only.is_none() {
            "tensor_store.wal.open/append_after_torn_tail".to_string()
        } else if info.unsynced_ckpt {
            "tensor_store.slab_router.checkpoint/unsynced_tail_replayed_over_snapshot".to_string()
        } else if let Some(c) = emb_only {
            c.to_string()
        } else {
            format!("tensor_store.recover/{kind}")
        };
        ctx.rep.hit(&format!("violation.{class}"));
        ctx.rep.violation(&class, &format!("{kind}: {detail}"), cut_json());
    } else {
        ctx.rep.hit("oracle.recovered_state_is_acked_prefix");
    }
    for (k, what) in &incoherent {
        let class = incoherence_class(k, what, info.failed_puts);
        ctx.rep.hit(&format!("violation.{class}"));
        ctx.rep.violation(class, &format!("recovered store: key {k:?}: {what}"), cut_json());
    }
    if incoherent.is_empty() {
        ctx.rep.hit("oracle.exists_scan_get_agree");
    }
    for (k, what) in &unreadable {
        ctx.rep.hit(&format!("violation.{ACKED_KEY_UNREADABLE}"));
        ctx.rep.violation(ACKED_KEY_UNREADABLE, &format!("recovered store: key {k:?} (first byte {:?}, {} bytes) is held by every admissible prefix of the acknowledged writes: {what}", k.as_bytes().first(), k.len()), cut_json());
    }
    if img.is_some() && unreadable.is_empty() {
        ctx.rep.hit("oracle.every_acknowledged_key_readable");
    }
    let _ = std::fs::remove_dir_all(&d);
    matched
}

/// outside the property's quantifier (C07's subject): a >= 256-dim embedding came back from a snapshot
/// within the documented tolerance but not bit-exact
fn note_inexact(ctx: &mut Ctx, e: f64, info: &CrashInfo, snap: &str) {
    ctx.rep.hit("observe.snapshot_embedding_within_tolerance_not_bit_exact");
    if e > ctx.max_rel_err {
        ctx.max_rel_err = e;
    }
    ctx.n_inexact_obs += 1;
    if ctx.n_inexact_obs <= 4 {
        ctx.rep.observe(json!({"what": "an embedding of dimension >= 256 read back through a checkpoint snapshot is within the tensor-train reconstruction tolerance but not bit-exact (lossy by design; C07); every occurrence is counted in the distribution under observe.snapshot_embedding_within_tolerance_not_bit_exact", "relative_l2_error": e, "tolerance": TT_REL_TOL, "crash": info.what, "snapshot": snap, "stream": info.stream}));
    }
}

/// If some prefix image equals `dur` once the `_embedding` part of `emb:` keys is ignored,
/// classify the difference.
fn emb_only_mismatch(dur: &[String], prefixes: &[Vec<String>]) -> Option<&'static str> {
    let embp = hex(b"emb:");
    let strip = |v: &[String]| -> Vec<String> {
        v.iter()
            .map(|s| if s.starts_with(&embp) { s.rsplit_once(':').map(|x| x.0.to_string()).unwrap_or_default() } else { s.clone() })
            .collect()
    };
    let d0 = strip(dur);
    for p in prefixes.iter().rev() {
        if strip(p) == d0 {
            for (a, b) in dur.iter().zip(p.iter()) {
                if a != b {
                    let (ka, ea) = (a.split_once('=').map(|x| x.0).unwrap_or(""), a.rsplit_once(':').map(|x| x.1).unwrap_or(""));
                    let eb = b.rsplit_once(':').map(|x| x.1).unwrap_or("");
                    if eb == "none" && ea != "none" {
                        // the writes carry no vector for this key but the store returns one
                        return Some("tensor_store.slab_router.recover/stale_entity_id_embedding");
                    }
                    // is the returned vector the one written under ANOTHER key?
                    let foreign = prefixes.iter().flatten().any(|it| {
                        let k = it.split_once('=').map(|x| x.0).unwrap_or("");
                        let e = it.rsplit_once(':').map(|x| x.1).unwrap_or("");
                        k != ka && e == ea && e != "none"
                    });
                    let own = prefixes.iter().flatten().any(|it| {
                        let k = it.split_once('=').map(|x| x.0).unwrap_or("");
                        let e = it.rsplit_once(':').map(|x| x.1).unwrap_or("");
                        k == ka && e == ea
                    });
                    if foreign && !own {
                        return Some("tensor_store.slab_router.recover/logged_entity_id_belongs_to_another_key");
                    }
                    return Some("tensor_store.slab_router.recover/embedding_differs_from_writes");
                }
            }
        }
    }
    None
}

// ------------------------------------------------------------------ the crash chain

struct ChainCfg {
    stream: &'static str,
    mode: SyncMode,
    max_size: Option<u64>,
    every_byte: bool,
    random_cuts: usize,
    /// continue the chain from the uncut file (directed probes)
    resume_full: bool,
    /// compare recovered images with the model (off only for the lossy-snapshot probe)
    compare_model: bool,
    /// open with `open_durable_with_bloom`, recover with `recover_with_bloom` (model: filter rebuilt from scan)
    bloom: bool,
    /// `WalConfig::enable_checksums` (false: the checksum field of every record is 0 = unchecked)
    checksums: bool,
    /// `WalConfig::verify_on_replay`
    verify: bool,
    /// `WalConfig::auto_rotate = false` (with `max_size`): a record that does not fit is refused with
    /// SizeLimitExceeded and the operation returns an error (model: Wal.appendLim, stepF)
    no_rotate: bool,
}

const BASE: ChainCfg = ChainCfg { stream: "", mode: SyncMode::Immediate, max_size: None, every_byte: false, random_cuts: 0, resume_full: false, compare_model: true, bloom: false, checksums: true, verify: true, no_rotate: false };

/// expected number of items / false-positive rate of the Bloom filter of the bloom streams
const BLOOM_ITEMS: usize = 64;
const BLOOM_FPR: f64 = 0.01;

fn cut_points(r: &mut Rng, lo: usize, len: usize, bounds: &[usize], cc: &ChainCfg) -> Vec<usize> {
    let mut s: Vec<usize> = Vec::new();
    if cc.every_byte {
        s.extend(lo..=len);
    } else {
        for &b in bounds {
            for d in [0i64, 1, 3, 7, -1, -3, -7] {
                let x = b as i64 + d;
                if x >= lo as i64 && x <= len as i64 {
                    s.push(x as usize);
                }
            }
        }
        for _ in 0..cc.random_cuts {
            if len > lo {
                s.push(lo + r.below((len - lo + 1) as u64) as usize);
            }
        }
        s.push(len);
        s.push(lo);
    }
    s.sort();
    s.dedup();
    s
}

/// Runs up to `epochs.len()` epochs (open/recover → ops → crash). Returns nothing; records in ctx.rep.
fn run_chain(ctx: &mut Ctx, r: &mut Rng, cc: &ChainCfg, epochs: &[Vec<Op>]) {
    let script = json!({"mode": mode_str(cc.mode), "max_size": cc.max_size, "bloom": cc.bloom, "enable_checksums": cc.checksums, "verify_on_replay": cc.verify, "epochs": ops_json(epochs)});
    let cfg = cfg_of(cc);
    let immediate = cc.mode == SyncMode::Immediate;
    let dir = ctx.fresh_dir();
    let wal_path = dir.join("w.wal");
    let snap_path = dir.join("snap.bin");
    let opened = if cc.bloom { TensorStore::open_durable_with_bloom(&wal_path, cfg.clone(), BLOOM_ITEMS, BLOOM_FPR) } else { TensorStore::open_durable(&wal_path, cfg.clone()) };
    let mut store = match opened {
        Ok(s) => s,
        Err(e) => {
            ctx.rep.note(&format!("open_durable failed: {e}"));
            return;
        },
    };
    ctx.m.ask(&format!("open {} 0{}", mode_str(cc.mode), if cc.bloom { " bloom" } else { "" }));
    if cc.no_rotate { ctx.rep.hit("config.no_auto_rotate"); }
    ctx.m.ask("raw_open -");
    if cc.bloom { ctx.rep.hit("config.bloom"); }
    if !cc.checksums { ctx.rep.hit("config.no_checksums"); }
    if !cc.verify { ctx.rep.hit("config.no_verify"); }
    if let SyncMode::Batched { max_entries } = cc.mode { if max_entries < 2 { ctx.rep.hit("config.batched01"); } }
    let mut spec: BTreeMap<String, Canon> = BTreeMap::new();
    let mut snap_bytes: Option<Vec<u8>> = None;
    let mut snap_name = "none".to_string();
    let mut snap_ctr = 0u32;
    let mut prev_torn = false;
    let mut rotated_any = false;
    let mut live_snap: Option<String> = None; // the snapshot the running store was loaded from
    // emb: keys whose put_durable with a vector returned an error (append refused) somewhere in this chain
    let mut failed_puts: HashSet<String> = HashSet::new();

    for (ei, ops) in epochs.iter().enumerate() {
        let base_len = std::fs::metadata(&wal_path).map(|m| m.len() as usize).unwrap_or(0);
        let mut prefixes: Vec<Vec<String>> = vec![spec_image(&spec)];
        let mut end_lens: Vec<usize> = Vec::new(); // disk length after each op (Immediate: its durable end)
        let mut floor_ops = 0usize; // ops guaranteed by a sync / checkpoint
        let mut synced_len = base_len;
        let mut prev_len = base_len;
        let mut lo_len = base_len;
        let mut resume_from: Option<(DiskState, usize, bool)> = None; // crash inside checkpoint
        let mut bounds: Vec<usize> = vec![base_len];
        let mut model_total: usize = { let f = std::fs::read(&wal_path).unwrap_or_default(); ctx.bind_file(&f).0 };

        for (oi, op) in ops.iter().enumerate() {
            match op {
                Op::Put(..) | Op::Del(..) => {
                    let k: &String = match op {
                        Op::Put(k, _) | Op::Del(k) => k,
                        _ => unreachable!(),
                    };
                    let is_put = matches!(op, Op::Put(..));
                    // size rule (`auto_rotate = false`): what the operation would log now, and how many bytes each
                    // record takes with the real encoder
                    let lim_sizes: Option<String> = if cc.no_rotate {
                        let peek = match op {
                            Op::Put(_, d) => { let c = canon(d); ctx.m.ask(&format!("peek put {} {} {}", hex(k.as_bytes()), hex(&c.0), ob_str(&c.1))) },
                            _ => ctx.m.ask(&format!("peek del {}", hex(k.as_bytes()))),
                        };
                        let data = if let Op::Put(_, d) = op { Some(d.clone()) } else { None };
                        let sizes: Vec<String> = peek.split(',').filter(|x| *x != "-" && !x.is_empty()).map(|e| record_size(e, k, data.as_ref()).to_string()).collect();
                        Some(if sizes.is_empty() { "-".to_string() } else { sizes.join(",") })
                    } else { None };
                    let cur_len = std::fs::metadata(&wal_path).map(|m| m.len() as usize).unwrap_or(0);
                    // rotation streams: the directory before the operation
                    let pre_dir: Option<(Vec<u8>, Vec<(String, Vec<u8>)>)> = if cc.max_size.is_some() && !cc.no_rotate { Some((std::fs::read(&wal_path).unwrap_or_default(), read_segments(&dir))) } else { None };
                    let (imp_res, line) = if let Op::Put(_, d) = op {
                        let c = canon(d);
                        let res = store.put_durable(k.clone(), d.clone());
                        (if res.is_ok() { "ok" } else { "err" }, format!("put {} {} {}", hex(k.as_bytes()), hex(&c.0), ob_str(&c.1)))
                    } else {
                        let res = store.delete_durable(k);
                        // `TensorStore::delete_durable` maps EVERY router error to `TensorStoreError::NotFound(text)`
                        // (lib.rs), so "the log refused the record" and "logged, but no such key" differ only in
                        // the text, and the spec below needs to know which (a refused delete changes nothing).
                        // Rule 3: without the size rule the log cannot refuse, so the variant decides; with it,
                        // the inner text is read by the keywords the repo's own tests pin (slab_router.rs tests
                        // assert `msg.contains("WAL")` on the Display of `SlabRouterError::WalError`; `NotFound`
                        // displays as "not found: <key>", keys here are lower-case), and a message with neither
                        // keyword degrades to `refused`, which agrees with either refusal of the model.
                        let word = match &res {
                            Ok(()) => "ok",
                            Err(_) if !cc.no_rotate => "notfound",
                            Err(tensor_store::TensorStoreError::NotFound(m)) if m.contains("WAL") => "err",
                            Err(tensor_store::TensorStoreError::NotFound(m)) if m.contains("not found") => "notfound",
                            Err(_) => "refused",
                        };
                        (word, format!("del {}", hex(k.as_bytes())))
                    };
                    let line = match &lim_sizes {
                        Some(sz) => format!("lim{} {} {} {}", line, cc.max_size.unwrap_or(0), cur_len, sz),
                        None => line,
                    };
                    let applied = imp_res != "err" && imp_res != "refused";
                    if !applied {
                        ctx.rep.hit("op.refused_by_size_limit");
                        if let Op::Put(_, d) = op {
                            if k.starts_with("emb:") && canon(d).1.is_some() {
                                ctx.rep.hit("op.refused_put_of_emb_key_with_vector");
                                failed_puts.insert(k.clone());
                            }
                        }
                    }
                    let model = ctx.m.ask(&line);
                    // a refusal whose wording is not recognised is compared as `refused` against either model refusal
                    let model = if imp_res == "refused" {
                        if let Some(rest) = model.strip_prefix("err").filter(|r| r.is_empty() || r.starts_with(' ')) { format!("refused{rest}") }
                        else if let Some(rest) = model.strip_prefix("notfound").filter(|r| r.is_empty() || r.starts_with(' ')) { format!("refused{rest}") }
                        else { model }
                    } else { model };
                    if let Some(t) = model.split("total=").nth(1).and_then(|x| x.split_whitespace().next()).and_then(|x| x.parse().ok()) {
                        model_total = t;
                    }
                    let now_len = std::fs::metadata(&wal_path).map(|m| m.len() as usize).unwrap_or(0);
                    ctx.rep.hit(if is_put { "op.put" } else { "op.delete" });
                    ctx.rep.hit(&format!("keyclass.{}", key_class(k)));
                    ctx.rep.hit(match k.chars().next().map(char::len_utf8) { None => "key.first_char.none_empty_key", Some(1) => "key.first_char.ascii", Some(2) => "key.first_char.2_bytes", Some(3) => "key.first_char.3_bytes", _ => "key.first_char.4_bytes" });
                    if immediate && (cc.max_size.is_none() || cc.no_rotate) {
                        // the records this operation appended, decoded by the real bitcode
                        let file = std::fs::read(&wal_path).unwrap_or_default();
                        let newb = &file[prev_len.min(file.len())..];
                        let mut ents = Vec::new();
                        let mut pos = 0;
                        while pos + 8 <= newb.len() {
                            let l = u32::from_le_bytes([newb[pos], newb[pos + 1], newb[pos + 2], newb[pos + 3]]) as usize;
                            if pos + 8 + l > newb.len() {
                                break;
                            }
                            match bitcode::deserialize::<WalEntry>(&newb[pos + 8..pos + 8 + l]) {
                                Ok(e) => ents.push(entry_str(&e)),
                                Err(_) => ents.push("undecodable".into()),
                            }
                            pos += 8 + l;
                            bounds.push(prev_len + pos);
                        }
                        for e in &ents {
                            ctx.rep.hit(&format!("record.{}", e.split(':').next().unwrap_or("?")));
                        }
                        if !applied {
                            ctx.rep.hit(&format!("op.refused_{}_after_{}_records", if is_put { "put" } else { "delete" }, ents.len()));
                        }
                        let imp = format!("{imp_res} {}", if ents.is_empty() { "-".to_string() } else { ents.join(",") });
                        let model_short = model.split(" synced=").next().unwrap_or("").to_string();
                        ctx.rep.case(&format!("{}.op_records", cc.stream), Some(&format!("{line}|{imp}")));
                        ctx.rep.compare(&format!("{}.op_records", cc.stream), || json!({"script": script, "epoch": ei, "op": oi}), &imp, &model_short);
                    } else {
                        let model_short = model.split_whitespace().next().unwrap_or("").to_string();
                        ctx.rep.case(&format!("{}.op_result", cc.stream), None);
                        ctx.rep.compare(&format!("{}.op_result", cc.stream), || json!({"script": script, "epoch": ei, "op": oi}), imp_res, &model_short);
                        if cc.max_size.is_some() && immediate {
                            // rotation stream: feed the real record bytes to the model's byte-level log
                            let file = std::fs::read(&wal_path).unwrap_or_default();
                            let rotated = now_len < prev_len;
                            let newb: Vec<u8> = if now_len < prev_len { file.clone() } else { file[prev_len.min(file.len())..].to_vec() };
                            let mut pos = 0;
                            let mut first = true;
                            while pos + 8 <= newb.len() {
                                let l = u32::from_le_bytes([newb[pos], newb[pos + 1], newb[pos + 2], newb[pos + 3]]) as usize;
                                if pos + 8 + l > newb.len() {
                                    break;
                                }
                                let ans = ctx.m.ask(&format!("raw_append {} {}", cc.max_size.unwrap_or(0), hex(&newb[pos..pos + 8 + l])));
                                let _ = first;
                                first = false;
                                pos += 8 + l;
                                if pos == newb.len() {
                                    let imp = format!("len={now_len}");
                                    let ms = ans.split(" rotated=").next().unwrap_or("").to_string();
                                    ctx.rep.case(&format!("{}.raw_len", cc.stream), Some(&imp));
                                    ctx.rep.compare(&format!("{}.raw_len", cc.stream), || json!({"script": script, "epoch": ei, "op": oi}), &imp, &ms);
                                }
                                if ans.ends_with("rotated=1") {
                                    ctx.rep.hit("wal.rotated");
                                    rotated_any = true;
                                }
                            }
                            if rotated {
                                rotated_any = true;
                            }
                        }
                    }
                    // ---- the step boundaries of `rotate` (model: LogDir.rotateSteps): the rotation ran before this
                    // operation's (single) record was written. End state vs the real directory; every boundary
                    // state materialised and recovered for real (oracle: known finding rotate/acked_entries_not_replayed)
                    if let Some((pre_live, pre_segs)) = &pre_dir {
                        if now_len < prev_len {
                            let seg_str = |v: &[(String, Vec<u8>)]| -> String {
                                let mut items: Vec<(u64, String)> = v.iter().filter_map(|(n, b)| n.rsplit('.').next().and_then(|x| x.parse::<u64>().ok()).map(|i| (i, hex(b)))).collect();
                                items.sort();
                                if items.is_empty() { "-".to_string() } else { items.iter().map(|(i, h)| format!("{i}:{h}")).collect::<Vec<_>>().join(";") }
                            };
                            let ans = ctx.m.ask(&format!("rot 2 some:{} {}", hex(pre_live), seg_str(pre_segs)));
                            let states: Vec<&str> = ans.split(" | ").collect();
                            // end state: segments as the real rotate left them
                            let real_after = seg_str(&read_segments(&dir));
                            let model_after = states.last().and_then(|x| x.split_whitespace().nth(1)).unwrap_or("?").to_string();
                            // canonical order
                            let canon_segs = |x: &str| -> String { let mut v: Vec<&str> = x.split(';').collect(); v.sort(); v.join(";") };
                            ctx.rep.case(&format!("{}.rotate_end_state", cc.stream), Some(&real_after));
                            ctx.rep.compare(&format!("{}.rotate_end_state", cc.stream), || json!({"script": script, "epoch": ei, "op": oi}), &canon_segs(&real_after), &canon_segs(&model_after));
                            for (si, stt) in states.iter().enumerate() {
                                let mut it = stt.split_whitespace();
                                let lv = it.next().unwrap_or("none");
                                let sg = it.next().unwrap_or("-");
                                let (wal_bytes, missing) = match lv.strip_prefix("some:") {
                                    Some(h) => (if h == "-" { Vec::new() } else { nverif::unhex(h) }, false),
                                    None => (Vec::new(), true),
                                };
                                let segments: Vec<(String, Vec<u8>)> = if sg == "-" { Vec::new() } else { sg.split(';').filter_map(|p| p.split_once(':').map(|(n, h)| (format!("w.wal.{n}"), if h == "-" { Vec::new() } else { nverif::unhex(h) }))).collect() };
                                let ds = DiskState { snap: snap_bytes.clone(), snap_name: snap_name.clone(), wal: wal_bytes, segments, tmp: None, wal_missing: missing };
                                let info = CrashInfo { stream: cc.stream, what: format!("epoch {ei} op{oi}: inside rotate, after file-system call {} of {}", si + 1, states.len()), prev_torn, rotated: true, unsynced_ckpt: false, compare_model: cc.compare_model, bloom: cc.bloom, failed_puts: &failed_puts, script: &script };
                                let fl = prefixes.len() - 1;
                                check_recovery(ctx, &ds, &cfg, &Expect { prefixes: &prefixes, floor: fl }, &info);
                                ctx.rep.hit(if missing { "rotate_state.log_path_missing" } else if si + 1 == states.len() { "rotate_state.fresh_file_created" } else { "rotate_state.before_live_rename" });
                            }
                        }
                    }
                    // spec (an operation that returned a log error changes nothing)
                    if !is_cache(k) && applied {
                        match op {
                            Op::Put(_, d) => {
                                spec.insert(k.clone(), canon(d));
                            },
                            _ => {
                                spec.remove(k);
                            },
                        }
                    }
                    if now_len < prev_len {
                        // rotation: cuts below make no sense any more
                        lo_len = 0;
                        end_lens.iter_mut().for_each(|x| *x = 0);
                        bounds.clear();
                        bounds.push(0);
                    }
                    prev_len = now_len;
                    if immediate {
                        synced_len = now_len;
                    } else if model.contains(" synced=") {
                        // batched auto-sync: the model says everything is synced
                        let s = model.split(" synced=").nth(1).unwrap_or("");
                        let mut it = s.split_whitespace();
                        let a = it.next().unwrap_or("");
                        let b = it.next().unwrap_or("").trim_start_matches("total=");
                        if a == b && !is_cache(k) {
                            synced_len = now_len;
                            floor_ops = oi + 1;
                            let file = std::fs::read(&wal_path).unwrap_or_default();
                            let (n, _) = ctx.bind_file(&file);
                            ctx.rep.case(&format!("{}.autosync_count", cc.stream), None);
                            ctx.rep.compare(&format!("{}.autosync_count", cc.stream), || json!({"script": script, "epoch": ei, "op": oi}), &format!("{n}"), b);
                        }
                    }
                    end_lens.push(now_len);
                    prefixes.push(spec_image(&spec));
                },
                Op::Sync => {
                    let ok = store.sync().is_ok();
                    let model = ctx.m.ask("sync");
                    let file = std::fs::read(&wal_path).unwrap_or_default();
                    let (n, _) = ctx.bind_file(&file);
                    ctx.rep.hit("op.sync");
                    let total = model.split("total=").nth(1).and_then(|s| s.split_whitespace().next()).unwrap_or("?").to_string();
                    ctx.rep.case(&format!("{}.sync_count", cc.stream), None);
                    ctx.rep.compare(&format!("{}.sync_count", cc.stream), || json!({"script": script, "epoch": ei, "op": oi}), &format!("{} {n}", if ok { "ok" } else { "err" }), &format!("ok {total}"));
                    synced_len = file.len();
                    prev_len = file.len();
                    floor_ops = oi + 1;
                    end_lens.push(file.len());
                    prefixes.push(spec_image(&spec));
                },
                Op::Ckpt => {
                    ctx.rep.hit("op.checkpoint");
                    let wal_pre_call = std::fs::read(&wal_path).unwrap_or_default();
                    let segs_before = read_segments(&dir);
                    let old = DiskState { snap: snap_bytes.clone(), snap_name: snap_name.clone(), wal: wal_pre_call.clone(), segments: segs_before.clone(), tmp: None, wal_missing: false };
                    // Observe (not assume) what is on disk when the snapshot step starts: a checkpoint
                    // whose snapshot cannot be written stops right after its first step (fsync of the
                    // log), leaving the log as the snapshot step would find it.
                    let dry = store.checkpoint(dir.join("no-such-dir").join("snap.bin"));
                    let wal_before = std::fs::read(&wal_path).unwrap_or_default();
                    let (n_disk, _) = ctx.bind_file(&wal_before);
                    let msync = ctx.m.ask("ckpt_sync");
                    let m_total: usize = msync.split("total=").nth(1).and_then(|x| x.split_whitespace().next()).and_then(|x| x.parse().ok()).unwrap_or(usize::MAX);
                    let m_synced: usize = msync.split("synced=").nth(1).and_then(|x| x.split_whitespace().next()).and_then(|x| x.parse().ok()).unwrap_or(usize::MAX);
                    model_total = m_total;
                    ctx.rep.case(&format!("{}.ckpt_fsync", cc.stream), Some(&format!("{}|{n_disk}", mode_str(cc.mode))));
                    // step 1 of the model's checkpoint: every record issued so far is on disk and synced
                    ctx.rep.compare(&format!("{}.ckpt_fsync", cc.stream), || json!({"script": script, "epoch": ei, "op": oi, "what": "records on disk when the snapshot step starts (impl) vs records synced after Sys.ckptSync (model)"}),
                        &format!("{} {n_disk} {n_disk}", dry.is_err()), &format!("true {m_synced} {m_total}"));
                    if wal_before.len() > wal_pre_call.len() {
                        ctx.rep.hit("ckpt.unsynced_tail_flushed_by_checkpoint");
                    }
                    let issued_records_on_disk = immediate || n_disk == model_total;
                    let id = match store.checkpoint(&snap_path) {
                        Ok(id) => id,
                        Err(e) => {
                            ctx.rep.note(&format!("checkpoint failed: {e}"));
                            return;
                        },
                    };
                    snap_ctr += 1;
                    let new_name = format!("s{}_{}", ctx.n_dirs, snap_ctr);
                    ctx.snap_contents.insert(new_name.clone(), spec.clone());
                    ctx.m.ask(&format!("ckpt_snapshot {new_name}"));
                    ctx.m.ask(&format!("ckpt_marker {id}"));
                    ctx.m.ask("ckpt_truncate");
                    model_total = 0;
                    let new_snap = std::fs::read(&snap_path).unwrap_or_default();
                    let marker = frame(&bitcode::serialize(&WalEntry::Checkpoint { snapshot_id: id }).unwrap());
                    let after_len = std::fs::metadata(&wal_path).map(|m| m.len() as usize).unwrap_or(0);
                    ctx.rep.case(&format!("{}.ckpt_truncates", cc.stream), None);
                    ctx.rep.compare(&format!("{}.ckpt_truncates", cc.stream), || json!({"script": script}), &format!("{after_len}"), "0");
                    // state at checkpoint time = all operations issued so far
                    let all_now = prefixes.len() - 1;
                    let full: Vec<Vec<String>> = prefixes.clone();
                    // c0: crash before the log is fsynced (what was on disk before the call)
                    let info0 = CrashInfo { stream: cc.stream, what: format!("epoch {ei} checkpoint@op{oi}: before fsync"), prev_torn, rotated: rotated_any, unsynced_ckpt: false, compare_model: cc.compare_model, bloom: cc.bloom, failed_puts: &failed_puts, script: &script };
                    let fl0 = if immediate { all_now } else { floor_ops };
                    check_recovery(ctx, &old, &cfg, &Expect { prefixes: &full, floor: fl0 }, &info0);
                    ctx.rep.hit("ckpt_state.before_fsync");
                    // c0b: log fsynced, old snapshot still in place: everything issued is acknowledged
                    let synced_old = DiskState { snap: snap_bytes.clone(), snap_name: snap_name.clone(), wal: wal_before.clone(), segments: segs_before.clone(), tmp: None, wal_missing: false };
                    let info0b = CrashInfo { stream: cc.stream, what: format!("epoch {ei} checkpoint@op{oi}: log fsynced, before snapshot"), prev_torn, rotated: rotated_any, unsynced_ckpt: !issued_records_on_disk, compare_model: cc.compare_model, bloom: cc.bloom, failed_puts: &failed_puts, script: &script };
                    check_recovery(ctx, &synced_old, &cfg, &Expect { prefixes: &full, floor: all_now }, &info0b);
                    ctx.rep.hit("ckpt_state.before_snapshot");
                    // c0c: crash INSIDE the snapshot step: the temp file is partly written, not yet renamed over
                    // the snapshot path (recovery must not look at it; with no earlier snapshot it is given a
                    // snapshot path that does not exist)
                    let partial_tmp = DiskState { snap: snap_bytes.clone(), snap_name: snap_name.clone(), wal: wal_before.clone(), segments: segs_before.clone(), tmp: Some(new_snap[..new_snap.len() / 2].to_vec()), wal_missing: false };
                    let info0c = CrashInfo { stream: cc.stream, what: format!("epoch {ei} checkpoint@op{oi}: log fsynced, snapshot temp file half written"), prev_torn, rotated: rotated_any, unsynced_ckpt: !issued_records_on_disk, compare_model: cc.compare_model, bloom: cc.bloom, failed_puts: &failed_puts, script: &script };
                    check_recovery(ctx, &partial_tmp, &cfg, &Expect { prefixes: &full, floor: all_now }, &info0c);
                    ctx.rep.hit("ckpt_state.partial_snapshot_tmp");
                    // c1..c3: snapshot in place, marker absent / partial / complete
                    let mut mcuts: Vec<usize> = if ctx.thorough { (0..=marker.len()).collect() } else { vec![0, 1, 3, 4, 7, 8, 9, marker.len() - 1, marker.len()] };
                    mcuts.sort();
                    mcuts.dedup();
                    let mut states: Vec<(DiskState, bool)> = Vec::new();
                    for mc in mcuts {
                        let mut w = wal_before.clone();
                        w.extend_from_slice(&marker[..mc.min(marker.len())]);
                        let ds = DiskState { snap: Some(new_snap.clone()), snap_name: new_name.clone(), wal: w, segments: segs_before.clone(), tmp: None, wal_missing: false };
                        let info = CrashInfo {
                            stream: cc.stream,
                            what: format!("epoch {ei} checkpoint@op{oi}: snapshot in place, {mc}/{} marker bytes", marker.len()),
                            prev_torn,
                            rotated: rotated_any,
                            unsynced_ckpt: !issued_records_on_disk,
                            compare_model: cc.compare_model,
                            bloom: cc.bloom,
                            failed_puts: &failed_puts,
                            script: &script,
                        };
                        check_recovery(ctx, &ds, &cfg, &Expect { prefixes: &full, floor: all_now }, &info);
                        ctx.rep.hit(if mc == 0 { "ckpt_state.after_snapshot" } else if mc >= marker.len() { "ckpt_state.after_marker" } else { "ckpt_state.inside_marker" });
                        states.push((ds, mc > 0 && mc < marker.len()));
                    }
                    // c4: truncated
                    let ds4 = DiskState { snap: Some(new_snap.clone()), snap_name: new_name.clone(), wal: Vec::new(), segments: read_segments(&dir), tmp: None, wal_missing: false };
                    let info4 = CrashInfo { stream: cc.stream, what: format!("epoch {ei} checkpoint@op{oi}: log truncated"), prev_torn, rotated: false, unsynced_ckpt: false, compare_model: cc.compare_model, bloom: cc.bloom, failed_puts: &failed_puts, script: &script };
                    check_recovery(ctx, &ds4, &cfg, &Expect { prefixes: &full, floor: all_now }, &info4);
                    ctx.rep.hit("ckpt_state.after_truncate");
                    states.push((ds4, false));
                    states.push((old, false));
                    states.push((synced_old, false));
                    states.push((partial_tmp, false));
                    snap_bytes = Some(new_snap);
                    snap_name = new_name;
                    rotated_any = false;
                    // everything so far is now held by the snapshot
                    floor_ops = oi + 1;
                    synced_len = 0;
                    prev_len = 0;
                    lo_len = 0;
                    end_lens.iter_mut().for_each(|x| *x = 0);
                    end_lens.push(0);
                    bounds.clear();
                    bounds.push(0);
                    prefixes.push(spec_image(&spec));
                    if oi + 1 == ops.len() && issued_records_on_disk {
                        // the crash of this epoch falls inside the checkpoint
                        let pick = r.below(states.len() as u64) as usize;
                        let (ds, torn) = states.swap_remove(pick);
                        resume_from = Some((ds, all_now, torn));
                    }
                },
            }
        }

        // ---- live store vs model vs spec at the end of the epoch
        let live = image_of(&store);
        let mimg = canon_model_image(&format!("ok {}", ctx.m.ask("image")));
        ctx.rep.case(&format!("{}.live_image", cc.stream), Some(&fmt_image(&live)));
        let live_snap_content: Option<SnapContent> = live_snap.as_ref().and_then(|n| ctx.snap_contents.get(n).cloned());
        let mut live_cmp = fmt_image(&live);
        {
            // the live store was loaded from `live_snap`: its >= 256-dim slab vectors are the snapshot's
            let mitems: Vec<String> = mimg.strip_prefix("ok").unwrap_or("").split_whitespace().map(|x| x.to_string()).collect();
            if let Match::Approx(e) = image_match(&mitems, &live, live_snap_content.as_ref()) {
                live_cmp = mimg.clone();
                ctx.rep.hit("observe.snapshot_embedding_within_tolerance_not_bit_exact");
                if e > ctx.max_rel_err {
                    ctx.max_rel_err = e;
                }
            }
        }
        ctx.rep.compare(&format!("{}.live_image", cc.stream), || json!({"script": script, "epoch": ei}), &live_cmp, &mimg);
        let live_dur = durable_part(&live);
        if image_match(&spec_image(&spec), &live_dur, live_snap_content.as_ref()) == Match::No {
            let class = emb_only_mismatch(&live_dur, &[spec_image(&spec)]).unwrap_or("tensor_store.live/state_differs_from_writes");
            ctx.rep.hit(&format!("violation.{class}"));
            ctx.rep.violation(class, "live store (after a recovery) answers differently from the writes issued", json!({"script": script, "epoch": ei, "live": live_dur, "expected": spec_image(&spec)}));
        }
        for (k, what) in incoherent_keys(&store, &keys_of_images(&prefixes)) {
            let class = incoherence_class(&k, &what, &failed_puts);
            ctx.rep.hit(&format!("violation.{class}"));
            ctx.rep.violation(class, &format!("live store: key {k:?}: {what}"), json!({"script": script, "epoch": ei}));
        }
        for g in live.iter().filter(|s| s.starts_with('!')) {
            let key = String::from_utf8(nverif::unhex(&g[1..])).unwrap_or_default();
            if !key.starts_with("emb:") {
                // only emb: keys live in the entity index: a key of any other class that scan lists is readable
                ctx.rep.hit(&format!("violation.{NON_EMB_GHOST}"));
                ctx.rep.violation(NON_EMB_GHOST, "scan of the live store lists a non-emb: key that get rejects (entity-index entry left behind by a delete)", json!({"script": script, "epoch": ei, "key": key, "live": live}));
            }
        }

        // ---- crash
        let (resume_ds, resume_k, torn) = if let Some((ds, k, torn)) = resume_from {
            (ds, k, torn)
        } else {
            let file = std::fs::read(&wal_path).unwrap_or_default();
            ctx.bind_file(&file);
            let lo = if immediate { lo_len.min(file.len()) } else { synced_len.min(file.len()) };
            let cuts = cut_points(r, lo, file.len(), &bounds, cc);
            let mut results: Vec<(usize, Option<usize>, bool)> = Vec::new();
            for &n in &cuts {
                // acknowledged = its records ended at or before the cut (Immediate) / covered by a sync
                let floor = if immediate {
                    let mut a = floor_ops;
                    for (i, &e) in end_lens.iter().enumerate() {
                        if e <= n && i + 1 > a && end_lens[..=i].iter().all(|&x| x <= n) {
                            a = i + 1;
                        }
                    }
                    a
                } else {
                    floor_ops
                };
                let ds = DiskState { snap: snap_bytes.clone(), snap_name: snap_name.clone(), wal: file[..n].to_vec(), segments: read_segments(&dir), tmp: None, wal_missing: false };
                let is_torn = {
                    let (_, end) = ctx.bind_file(&ds.wal);
                    end == "torn"
                };
                ctx.rep.hit(if is_torn { "cut.torn_tail" } else { "cut.record_boundary" });
                let info = CrashInfo { stream: cc.stream, what: format!("epoch {ei}: log cut at byte {n} of {}", file.len()), prev_torn, rotated: rotated_any, unsynced_ckpt: false, compare_model: cc.compare_model, bloom: cc.bloom, failed_puts: &failed_puts, script: &script };
                let k = check_recovery(ctx, &ds, &cfg, &Expect { prefixes: &prefixes, floor }, &info);
                results.push((n, k, is_torn));
            }
            // choose the crash this chain continues from (prefer a torn tail)
            let torn_ones: Vec<&(usize, Option<usize>, bool)> = results.iter().filter(|x| x.2).collect();
            let pick = if cc.resume_full {
                *results.last().unwrap()
            } else if !torn_ones.is_empty() && r.chance(2, 3) {
                **r.pick(&torn_ones)
            } else {
                *r.pick(&results)
            };
            match pick.1 {
                None => return, // property already violated on this state; reported
                Some(k) => (DiskState { snap: snap_bytes.clone(), snap_name: snap_name.clone(), wal: file[..pick.0].to_vec(), segments: read_segments(&dir), tmp: None, wal_missing: false }, k, pick.2),
            }
        };
        if ei + 1 == epochs.len() {
            break;
        }
        // ---- recover for real and keep writing on the recovered store
        drop(store);
        std::fs::write(&wal_path, &resume_ds.wal).unwrap();
        for (name, _) in read_segments(&dir) {
            let _ = std::fs::remove_file(dir.join(name));
        }
        for (name, b) in &resume_ds.segments {
            std::fs::write(dir.join(name), b).unwrap();
        }
        match &resume_ds.snap {
            Some(b) => std::fs::write(&snap_path, b).unwrap(),
            None => {
                let _ = std::fs::remove_file(&snap_path);
            },
        }
        let tmp_path = dir.join("snap.bin.tmp");
        match &resume_ds.tmp {
            Some(t) => std::fs::write(&tmp_path, t).unwrap(),
            None => {
                let _ = std::fs::remove_file(&tmp_path);
            },
        }
        // with a leftover temp file and no snapshot, recovery gets the (non-existent) snapshot path
        let sp = if resume_ds.snap.is_some() || resume_ds.tmp.is_some() { Some(snap_path.as_path()) } else { None };
        let reopened = if cc.bloom { TensorStore::recover_with_bloom(&wal_path, &cfg, sp, BLOOM_ITEMS, BLOOM_FPR) } else { TensorStore::recover(&wal_path, &cfg, sp) };
        store = match reopened {
            Ok(s) => s,
            Err(_) => return, // reported by check_recovery
        };
        let repaired = std::fs::metadata(&wal_path).map(|m| m.len()).unwrap_or(0);
        let ans = ctx.m.ask(&format!("{} {} {}", if cc.bloom { "bresume" } else { "resume" }, resume_ds.snap_name, hex(&resume_ds.wal)));
        let mlen = ans.split_whitespace().nth(1).unwrap_or("?").to_string();
        ctx.rep.case(&format!("{}.repair_len", cc.stream), Some(&format!("{}|{}", resume_ds.wal.len(), repaired)));
        ctx.rep.compare(&format!("{}.repair_len", cc.stream), || json!({"script": script, "epoch": ei, "wal_len": resume_ds.wal.len()}), &format!("{repaired}"), &mlen);
        ctx.rep.hit(if torn { "resume.after_torn_tail" } else { "resume.after_clean_cut" });
        ctx.rep.hit(&format!("crash_number.{}", ei + 1));
        // the durable state the next epoch starts from
        let rec_img = durable_part(&image_of(&store));
        spec = decode_image(&rec_img);
        let _ = resume_k;
        snap_bytes = resume_ds.snap.clone();
        snap_name = resume_ds.snap_name.clone();
        live_snap = resume_ds.snap.as_ref().map(|_| resume_ds.snap_name.clone());
        prev_torn = torn;
        rotated_any = false;
    }
    let _ = std::fs::remove_dir_all(&dir);
}

fn key_class(k: &str) -> &'static str {
    if k.starts_with("emb:") {
        "embedding"
    } else if k.starts_with("node:") || k.starts_with("edge:") {
        "graph"
    } else if k.starts_with("table:") {
        "table"
    } else if k.starts_with("_cache:") {
        "cache"
    } else {
        "metadata"
    }
}

/// image items back to a spec map (only used with images already matched against the spec)
fn decode_image(img: &[String]) -> BTreeMap<String, Canon> {
    let mut m = BTreeMap::new();
    for it in img {
        if let Some((k, rest)) = it.split_once('=') {
            if let Some((b, e)) = rest.rsplit_once(':') {
                let key = String::from_utf8(nverif::unhex(k)).unwrap_or_default();
                let emb = if e == "none" { None } else { Some(nverif::unhex(e)) };
                m.insert(key, (nverif::unhex(b), emb));
            }
        }
    }
    m
}

// ------------------------------------------------------------------ other streams

fn stream_crc(ctx: &mut Ctx, r: &mut Rng, n: usize) {
    for i in 0..n {
        let len = if i < 4 { i } else { r.below(if i % 7 == 0 { 2000 } else { 64 }) as usize };
        let b = r.bytes(len);
        let imp = crc32fast::hash(&b).to_string();
        let model = ctx.m.ask(&format!("crc {}", hex(&b)));
        ctx.rep.case("crc32", Some(&hex(&b)));
        ctx.rep.compare("crc32", || json!({"bytes": hex(&b)}), &imp, &model);
    }
}

/// real `TensorWal::open(...).replay()` vs model `parse`/`entries` on real and damaged bytes
fn stream_frames(ctx: &mut Ctx, r: &mut Rng, n: usize) {
    for case in 0..n {
        // a real log
        let d = ctx.fresh_dir();
        let p = d.join("w.wal");
        let nrec = 1 + r.below(6) as usize;
        {
            let mut w = TensorWal::open(&p, WalConfig::default()).unwrap();
            for i in 0..nrec {
                let e = match r.below(6) {
                    0 => WalEntry::MetadataDelete { key: format!("k{i}") },
                    1 => WalEntry::TxBegin { tx_id: r.below(5) },
                    2 => WalEntry::TxCommit { tx_id: r.below(5) },
                    3 => WalEntry::Checkpoint { snapshot_id: r.below(3) },
                    4 => WalEntry::TxAbort { tx_id: r.below(5) },
                    _ => {
                        let mut dd = TensorData::new();
                        dd.set("f", TensorValue::Scalar(ScalarValue::Int(i as i64)));
                        WalEntry::MetadataSet { key: format!("k{i}"), data: dd }
                    },
                };
                w.append(&e).unwrap();
            }
        }
        let mut bytes = std::fs::read(&p).unwrap();
        // damage
        let kind = case % 7;
        let label = match kind {
            0 => "intact",
            1 => {
                let n = r.below(bytes.len() as u64 + 1) as usize;
                bytes.truncate(n);
                "truncated"
            },
            2 => {
                let i = r.below(bytes.len() as u64) as usize;
                bytes[i] ^= 1 << r.below(8);
                "bitflip"
            },
            3 => {
                // zero a checksum field (0 = unchecked)
                if bytes.len() >= 8 {
                    bytes[4..8].copy_from_slice(&[0, 0, 0, 0]);
                    if bytes.len() > 9 {
                        let i = 8 + r.below((bytes.len() - 8) as u64) as usize;
                        bytes[i] ^= 0x55;
                    }
                }
                "zero_crc_then_damage"
            },
            4 => {
                let extra = r.below(12) as usize;
                let g = r.bytes(extra);
                bytes.extend_from_slice(&g);
                "garbage_tail"
            },
            5 => {
                // huge length field at a random record start is hard to hit; overwrite the first
                if bytes.len() >= 4 {
                    bytes[0..4].copy_from_slice(&(r.below(1 << 20) as u32).to_le_bytes());
                }
                "length_field_damaged"
            },
            _ => {
                bytes.extend_from_slice(&frame(&[])[..]);
                "empty_payload_frame"
            },
        };
        std::fs::write(&p, &bytes).unwrap();
        // real: open (repairs the tail) then replay
        let pre_len = bytes.len();
        let w = TensorWal::open(&p, WalConfig::default()).unwrap();
        let kept = std::fs::metadata(&p).unwrap().len();
        let imp = match w.replay() {
            Ok(es) => format!("{} ok", es.len()),
            // by variant (rule 1)
            Err(tensor_store::wal::WalError::ChecksumMismatch { .. }) => "bad_crc".to_string(),
            Err(e) => format!("err:{}", vname(&e)),
        };
        drop(w);
        ctx.bind_file(&bytes);
        let ans = ctx.m.ask(&format!("entries {}", hex(&bytes)));
        let mut it = ans.rsplitn(2, ' ');
        let end = it.next().unwrap_or("");
        let ents = it.next().unwrap_or("");
        let cnt = if ents == "-" { 0 } else { ents.split(',').count() };
        let model = if end == "bad_crc" { "bad_crc".to_string() } else { format!("{cnt} ok") };
        ctx.rep.hit(&format!("frames.{label}"));
        ctx.rep.hit(&format!("frames.end.{end}"));
        ctx.rep.case("frame_parse", Some(&hex(&bytes)));
        ctx.rep.compare("frame_parse", || json!({"damage": label, "wal_hex": hex(&bytes)}), &imp, &model);
        let vl = ctx.m.ask(&format!("valid_len {}", hex(&bytes)));
        let imp_len = kept.min(pre_len as u64).to_string();
        ctx.rep.case("open_repair_len", Some(&format!("{label}{}", hex(&bytes))));
        ctx.rep.compare("open_repair_len", || json!({"damage": label, "wal_hex": hex(&bytes)}), &imp_len, &vl);
        let _ = std::fs::remove_dir_all(&d);
    }
}

/// FIXED class (repo f5ce42e5): a put_durable of an emb: key with a vector whose append is refused
/// (SizeLimitExceeded under auto_rotate = false, I/O error) returned an error but kept the entity id it had
/// allocated before logging: exists/scan showed a key no successful write created; a checkpoint persisted it.
/// Regression oracles: `probe_failed_put` (directed, first) and `incoherence_class` in every chain.
const FAILED_PUT_GHOST: &str = "tensor_store.slab_router.put_durable/failed_put_leaves_entity_index_entry";

/// class of the defect repaired by "only `emb:` keys get an entity-index entry" (put_durable / apply_wal_entry)
const NON_EMB_GHOST: &str = "tensor_store.slab_router.put_durable/non_emb_key_with_vector_stays_in_scan_after_delete";

/// the complete records of a log file, decoded by the real bitcode
fn file_entries(bytes: &[u8]) -> Vec<String> {
    let mut v = Vec::new();
    let mut pos = 0;
    while pos + 8 <= bytes.len() {
        let l = u32::from_le_bytes([bytes[pos], bytes[pos + 1], bytes[pos + 2], bytes[pos + 3]]) as usize;
        if pos + 8 + l > bytes.len() {
            break;
        }
        v.push(match bitcode::deserialize::<WalEntry>(&bytes[pos + 8..pos + 8 + l]) {
            Ok(e) => entry_str(&e),
            Err(_) => "undecodable".into(),
        });
        pos += 8 + l;
    }
    v
}

/// Regression case of the FIXED class `NON_EMB_GHOST`: durable put of a non-emb: key whose value carries
/// `_embedding`, durable delete, then scan / exists / get on the live store and on the store recovered from
/// the whole log. Oracle (on the implementation's own answers): the key is gone from both stores — not
/// listed by scan (empty prefix and the key as prefix), exists false, get rejected — and the two stores have
/// the same scan+get image. Correspondence: records logged, live image, recovered image vs the model.
fn probe_non_emb_vector_key(ctx: &mut Ctx) {
    let stream = "probe_non_emb_vector_key";
    // (key, dimension of its vector, other keys around it)
    for (key, dim, around) in [("a", 384usize, false), ("a", 3, true), ("user:1", 384, true), ("node:1", 2, true), ("table:t", 0, false), ("emb", 384, true), ("_blob:meta:z", 3, false)] {
        let dir = ctx.fresh_dir();
        let wal_path = dir.join("w.wal");
        let cfg = cfg_for(SyncMode::Immediate, None);
        let store = match TensorStore::open_durable(&wal_path, cfg.clone()) {
            Ok(s) => s,
            Err(e) => {
                ctx.rep.note(&format!("open_durable failed: {e}"));
                return;
            },
        };
        ctx.m.ask("open immediate 0");
        let mut ops: Vec<Op> = Vec::new();
        if around {
            ops.push(Op::Put("emb:s".into(), tdv("s", 2.0, 384)));
        }
        ops.push(Op::Put(key.into(), tdv("one", 1.0, dim)));
        if around {
            ops.push(Op::Put("emb:t".into(), tdv("t", 3.0, 384)));
            ops.push(Op::Put("b".into(), td("plain")));
        }
        ops.push(Op::Del(key.into()));
        let script = json!({"mode": "immediate", "ops": ops.iter().map(op_str).collect::<Vec<_>>(), "then": "scan / exists / get, delete again, recover from the whole log"});
        let mut model_records: Vec<String> = Vec::new();
        let run = |ctx: &mut Ctx, op: &Op, model_records: &mut Vec<String>| -> (String, String) {
            let (imp, line) = match op {
                Op::Put(k, d) => {
                    let c = canon(d);
                    (if store.put_durable(k.clone(), d.clone()).is_ok() { "ok" } else { "err" }, format!("put {} {} {}", hex(k.as_bytes()), hex(&c.0), ob_str(&c.1)))
                },
                Op::Del(k) => (if store.delete_durable(k).is_ok() { "ok" } else { "notfound" }, format!("del {}", hex(k.as_bytes()))),
                _ => unreachable!(),
            };
            let ans = ctx.m.ask(&line);
            let short = ans.split(" synced=").next().unwrap_or("").to_string();
            let mut it = short.splitn(2, ' ');
            let res = it.next().unwrap_or("").to_string();
            for e in it.next().unwrap_or("-").split(',').filter(|x| *x != "-") {
                model_records.push(e.to_string());
            }
            (imp.to_string(), res)
        };
        let mut imp_results = Vec::new();
        let mut model_results = Vec::new();
        for op in &ops {
            let (i, m) = run(ctx, op, &mut model_records);
            imp_results.push(i);
            model_results.push(m);
        }
        // ---- the live store after the delete
        let listed = store.scan("").iter().any(|k| k == key);
        let listed_by_prefix = store.scan(key).iter().any(|k| k == key);
        let exists = store.exists(key);
        let readable = store.get(key).is_ok();
        let live = image_of(&store);
        let mlive = canon_model_image(&format!("ok {}", ctx.m.ask("image")));
        // deleting it once more: NotFound (and one more MetadataDelete record: delete_durable logs first)
        let (i, m) = run(ctx, &Op::Del(key.into()), &mut model_records);
        imp_results.push(i.clone());
        model_results.push(m);
        let second_delete_notfound = i == "notfound";
        let live2 = image_of(&store);
        drop(store);
        // ---- records
        let file = std::fs::read(&wal_path).unwrap_or_default();
        let recs = file_entries(&file);
        for e in &recs {
            ctx.rep.hit(&format!("record.{}", e.split(':').next().unwrap_or("?")));
        }
        ctx.rep.case(&format!("{stream}.records"), Some(&format!("{key}|{dim}|{around}")));
        ctx.rep.compare(&format!("{stream}.records"), || json!({"script": script}), &format!("{} {}", imp_results.join(","), recs.join(",")), &format!("{} {}", model_results.join(","), model_records.join(",")));
        let eset_count_wrong = recs.iter().filter(|e| e.starts_with("eset:")).count() != if around { 2 } else { 0 };
        ctx.rep.case(&format!("{stream}.live_image"), Some(&format!("{key}|{dim}|{around}")));
        ctx.rep.compare(&format!("{stream}.live_image"), || json!({"script": script}), &fmt_image(&live), &mlive);
        // ---- recover from the whole log
        ctx.bind_file(&file);
        let rec = TensorStore::recover(&wal_path, &cfg, None);
        let (rec_img, r_listed, r_exists, r_readable) = match &rec {
            Ok(st) => (Some(image_of(st)), st.scan("").iter().any(|k| k == key) || st.scan(key).iter().any(|k| k == key), st.exists(key), st.get(key).is_ok()),
            Err(_) => (None, false, false, false),
        };
        drop(rec);
        let imp_rec = match &rec_img {
            Some(i) => fmt_image(i),
            None => "err".to_string(),
        };
        let mrec = canon_model_image(&ctx.m.ask(&format!("recover none {}", hex(&file))));
        ctx.rep.case(&format!("{stream}.recover"), Some(&format!("{key}|{dim}|{around}|{}", file.len())));
        ctx.rep.compare(&format!("{stream}.recover"), || json!({"script": script, "wal_len": file.len()}), &imp_rec, &mrec);
        // ---- oracle
        let mut wrong: Vec<&str> = Vec::new();
        if listed { wrong.push("live scan(\"\") lists the deleted key"); }
        if listed_by_prefix { wrong.push("live scan(key) lists the deleted key"); }
        if exists { wrong.push("live exists is true"); }
        if readable { wrong.push("live get succeeds"); }
        if !second_delete_notfound { wrong.push("second delete_durable did not answer NotFound"); }
        if live != live2 { wrong.push("a delete of the absent key changed the live image"); }
        if eset_count_wrong { wrong.push("EmbeddingSet records: expected one per emb: put that carries a vector, none for the non-emb: key"); }
        if r_listed { wrong.push("recovered scan lists the deleted key"); }
        if r_exists { wrong.push("recovered exists is true"); }
        if r_readable { wrong.push("recovered get succeeds"); }
        if rec_img.as_ref() != Some(&live) { wrong.push("live and recovered stores have different scan+get images"); }
        if wrong.is_empty() {
            ctx.rep.hit("oracle.non_emb_vector_key_gone_after_delete");
        } else {
            ctx.rep.hit(&format!("violation.{NON_EMB_GHOST}"));
            ctx.rep.violation(NON_EMB_GHOST, &wrong.join("; "), json!({"script": script, "live": live, "recovered": rec_img, "records": recs}));
        }
        let _ = std::fs::remove_dir_all(&dir);
    }
}

/// FIXED class (repo a74fb575; needs two real threads): `checkpoint` released the log mutex between its fsync,
/// the snapshot and the marker + truncate steps, so a put_durable / delete_durable of another thread that landed
/// after the snapshot was taken and before the log was truncated was acknowledged, absent from the snapshot and
/// wiped from the log. Since the fix the mutex is held from the fsync to the truncation.
const CKPT_RACE: &str = "tensor_store.slab_router.checkpoint/concurrent_durable_write_lost_by_truncate";

/// Regression oracle of `CKPT_RACE`. One writer thread issues Immediate durable writes in a loop (`mixed`: every
/// other step also deletes the key written one step earlier) while the main thread takes a checkpoint; after both
/// have finished the directory is recovered (snapshot + log) and the state is compared with the writes that had
/// returned Ok, in order: a key whose put was acknowledged is missing, or a key whose delete was acknowledged is
/// back = violation. Real threads, real time: before the fix 3-10 writes fell into the window on every run;
/// with the mutex held across the checkpoint none can.
fn probe_checkpoint_vs_writer(ctx: &mut Ctx, round: usize, mixed: bool) {
    use std::sync::atomic::{AtomicBool, Ordering};
    use std::sync::{Arc, Mutex};
    let dir = ctx.fresh_dir();
    let wal_path = dir.join("w.wal");
    let snap_path = dir.join("snap.bin");
    let cfg = cfg_for(SyncMode::Immediate, None);
    let Ok(store) = TensorStore::open_durable(&wal_path, cfg.clone()) else { return };
    let store = Arc::new(store);
    for i in 0..40 {
        let _ = store.put_durable(format!("base{i}"), td("0123456789012345678901234567890123456789"));
    }
    let stop = Arc::new(AtomicBool::new(false));
    // the acknowledged writes of the writer thread, in order: (is_put, index)
    let acked: Arc<Mutex<Vec<(bool, usize)>>> = Arc::new(Mutex::new(Vec::new()));
    let writer = {
        let (store, stop, acked) = (store.clone(), stop.clone(), acked.clone());
        std::thread::spawn(move || {
            let mut i = 0usize;
            while !stop.load(Ordering::SeqCst) && i < 5000 {
                if store.put_durable(format!("w{i}"), td("x")).is_ok() {
                    acked.lock().unwrap().push((true, i));
                    if mixed && i % 2 == 1 && store.delete_durable(&format!("w{}", i - 1)).is_ok() {
                        acked.lock().unwrap().push((false, i - 1));
                    }
                    i += 1;
                }
            }
        })
    };
    std::thread::sleep(std::time::Duration::from_millis(if round % 2 == 0 { 10 } else { 4 }));
    let ck = store.checkpoint(&snap_path);
    stop.store(true, Ordering::SeqCst);
    let _ = writer.join();
    let acked: Vec<(bool, usize)> = acked.lock().unwrap().clone();
    let mut expect: BTreeMap<usize, bool> = BTreeMap::new(); // index -> present
    for (is_put, i) in &acked {
        expect.insert(*i, *is_put);
    }
    let live_agrees = expect.iter().all(|(i, present)| store.exists(&format!("w{i}")) == *present);
    drop(store);
    let rec = TensorStore::recover(&wal_path, &cfg, Some(&snap_path));
    let script = json!({"script": "40 base puts; thread A: put_durable w0, w1, … in a loop (mixed: also delete_durable of the previous key at every odd step); thread B: checkpoint; join; recover from snapshot + log", "mixed": mixed, "round": round, "acknowledged_writes": acked.len()});
    ctx.rep.case("probe_checkpoint_vs_writer", Some(&format!("{round}|{mixed}")));
    match (&ck, &rec) {
        (Ok(_), Ok(r)) => {
            let lost_puts: Vec<String> = expect.iter().filter(|(i, present)| **present && !r.exists(&format!("w{i}"))).map(|(i, _)| format!("w{i}")).collect();
            let lost_deletes: Vec<String> = expect.iter().filter(|(i, present)| !**present && r.exists(&format!("w{i}"))).map(|(i, _)| format!("w{i}")).collect();
            let base_lost: Vec<String> = (0..40).map(|i| format!("base{i}")).filter(|k| !r.exists(k)).collect();
            if acked.is_empty() {
                ctx.rep.hit("checkpoint_vs_writer.writer_got_nothing_acknowledged");
            }
            if lost_puts.is_empty() && lost_deletes.is_empty() && base_lost.is_empty() && live_agrees {
                ctx.rep.hit("oracle.checkpoint_vs_writer_every_acknowledged_write_recovered");
            } else if !base_lost.is_empty() || !live_agrees {
                // not the window of the checkpoint: writes issued before the writer started are gone, or the
                // running store itself disagrees with its acknowledgements
                ctx.rep.hit("violation.tensor_store.slab_router.checkpoint/state_differs_from_acknowledged_writes");
                ctx.rep.violation("tensor_store.slab_router.checkpoint/state_differs_from_acknowledged_writes", "a checkpoint taken while another thread writes: base keys missing after recovery, or the running store disagrees with the acknowledged writes", json!({"script": script, "base_keys_missing": base_lost, "live_store_agrees_with_acks": live_agrees}));
            } else {
                ctx.rep.hit(&format!("violation.{CKPT_RACE}"));
                ctx.rep.violation(CKPT_RACE, &format!("a writer thread's Immediate durable writes (each returned Ok) overlapped a checkpoint of another thread; after both finished, recovery from the directory does not know {} acknowledged puts and shows {} keys whose delete was acknowledged: they were logged after the snapshot was taken and wiped by the truncation", lost_puts.len(), lost_deletes.len()),
                    json!({"script": script, "live_store_agreed_with_acks": live_agrees, "lost_puts": lost_puts.len(), "first_lost_puts": lost_puts.iter().take(4).collect::<Vec<_>>(), "lost_deletes": lost_deletes.len(), "first_lost_deletes": lost_deletes.iter().take(4).collect::<Vec<_>>()}));
            }
        },
        (ck, rec) => {
            ctx.rep.hit("violation.tensor_store.slab_router.checkpoint/fails_with_concurrent_writer");
            ctx.rep.violation("tensor_store.slab_router.checkpoint/fails_with_concurrent_writer", "checkpoint or the recovery that follows returned an error while another thread was writing", json!({"script": script, "checkpoint": ck.as_ref().map(|_| ()).map_err(|e| e.to_string()), "recover": rec.as_ref().map(|_| ()).map_err(|e| e.to_string())}));
        },
    }
    drop(rec);
    let _ = std::fs::remove_dir_all(&dir);
}

/// Regression cases of the FIXED class `FAILED_PUT_GHOST` (repo f5ce42e5): auto_rotate = false, a put_durable of
/// an emb: key with a 64-dim vector whose EmbeddingSet record (refused at record 0) or whose MetadataSet record
/// (refused at record 1) does not fit max_size_bytes returns an error. Oracle on the implementation's own
/// answers: the failed put changed nothing — scan+get image as before; for a key that was not there exists is
/// false, scan (empty prefix and the key as prefix) does not list it, get rejects it; a key that was there keeps
/// its value — on the running store, on the store recovered from the log alone, and after checkpoint + recover
/// (the checkpoint used to persist the leaked entry). Then the same key is written successfully (small vector).
fn probe_failed_put(ctx: &mut Ctx) {
    let stream = "probe_failed_put";
    let key = "emb:new";
    let big = tdv("x", 1.0, 64);
    let eset_size = 8 + bitcode::serialize(&WalEntry::EmbeddingSet { entity_id: tensor_store::EntityId::new(0), embedding: (0..64).map(|i| 1.0 + (i % 5) as f32 * 0.37).collect() }).map(|b| b.len()).unwrap_or(0);
    let smalls: Vec<(String, TensorData)> = (0..3).map(|i| (format!("k{i}"), td("vvvvvvvvvvvvvvvv"))).collect();
    let with_existing: Vec<(String, TensorData)> = vec![("k0".to_string(), td("vvvvvvvvvvvvvvvv")), (key.to_string(), tdv("old", 2.0, 3))];
    // (name, operations before, max_size_bytes (None: computed so that exactly `refuse_at` records of the put fit), refuse_at)
    let scenarios: Vec<(&str, Vec<(String, TensorData)>, Option<u64>, usize)> = vec![
        ("three_small_puts_max200", smalls.clone(), Some(200), 0),
        ("metadata_record_refused", smalls.clone(), None, 1),
        ("key_already_indexed", with_existing.clone(), None, 0),
        ("key_already_indexed_metadata_record_refused", with_existing, None, 1),
        ("first_operation_of_the_store", Vec::new(), Some(40), 0),
        ("first_operation_metadata_record_refused", Vec::new(), None, 1),
    ];
    for (name, pre, fixed_max, refuse_at) in scenarios {
        // length of the log after the operations before (dry run without a limit)
        let pre_len = {
            let d = ctx.fresh_dir();
            let w = d.join("w.wal");
            let len = match TensorStore::open_durable(&w, cfg_for(SyncMode::Immediate, None)) {
                Ok(st) => {
                    for (k, v) in &pre {
                        let _ = st.put_durable(k.clone(), v.clone());
                    }
                    drop(st);
                    std::fs::metadata(&w).map(|m| m.len()).unwrap_or(0)
                },
                Err(_) => 0,
            };
            let _ = std::fs::remove_dir_all(&d);
            len
        };
        // (room for the checkpoint marker, about 12 bytes, is left in the second case; the MetadataSet record of a
        // 64-dim vector takes more than 270)
        let max = fixed_max.unwrap_or(pre_len + if refuse_at == 0 { 30 } else { eset_size as u64 + 40 });
        let dir = ctx.fresh_dir();
        let wal_path = dir.join("w.wal");
        let snap_path = dir.join("snap.bin");
        let mut cfg = cfg_for(SyncMode::Immediate, Some(max));
        cfg.auto_rotate = false;
        let Ok(store) = TensorStore::open_durable(&wal_path, cfg.clone()) else {
            ctx.rep.note("probe_failed_put: open_durable failed");
            continue;
        };
        let mut pre_ok = true;
        for (k, v) in &pre {
            pre_ok &= store.put_durable(k.clone(), v.clone()).is_ok();
        }
        let was_there = pre.iter().any(|(k, _)| k == key);
        let before = image_of(&store);
        let len_before = std::fs::metadata(&wal_path).map(|m| m.len() as usize).unwrap_or(0);
        let res = store.put_durable(key.to_string(), big.clone());
        let file = std::fs::read(&wal_path).unwrap_or_default();
        let appended = file_entries(&file[len_before.min(file.len())..]);
        let script = json!({"scenario": name, "auto_rotate": false, "max_size_bytes": max, "before": pre.iter().map(|(k, v)| op_str(&Op::Put(k.clone(), v.clone()))).collect::<Vec<_>>(), "then": format!("put_durable({key:?}, 64-dim vector) -> {}", if res.is_ok() { "Ok" } else { "Err" }), "records_appended_by_the_failed_put": appended});
        ctx.rep.case(stream, Some(name));
        if !pre_ok || res.is_ok() || appended.len() != refuse_at {
            // the scenario did not come out as designed (sizes changed?): say so, the oracle below still runs
            ctx.rep.hit("probe_failed_put.scenario_not_as_designed");
            ctx.rep.note(&format!("probe_failed_put {name}: before-ops ok={pre_ok}, put ok={}, records appended={} (designed: Err, {refuse_at})", res.is_ok(), appended.len()));
        } else {
            ctx.rep.hit(if refuse_at == 0 { "failed_put.embedding_record_refused" } else { "failed_put.metadata_record_refused" });
            ctx.rep.hit(if was_there { "failed_put.key_was_indexed" } else { "failed_put.key_was_new" });
        }
        // (where, exists, scan lists, scan by key prefix lists, get ok, image)
        let look = |st: &TensorStore| -> (bool, bool, bool, bool, Vec<String>) { (st.exists(key), st.scan("").iter().any(|k| k == key), st.scan(key).iter().any(|k| k == key), st.get(key).is_ok(), image_of(st)) };
        let mut seen: Vec<(&str, (bool, bool, bool, bool, Vec<String>))> = vec![("running store", look(&store))];
        // the log alone (the failed put may have left an orphan EmbeddingSet record in it)
        {
            let d2 = ctx.fresh_dir();
            let w2 = d2.join("w.wal");
            let _ = std::fs::write(&w2, &file);
            if let Ok(r) = TensorStore::recover(&w2, &cfg, None) {
                seen.push(("store recovered from the log", look(&r)));
            } else {
                ctx.rep.hit("violation.tensor_store.recover/recover_error");
                ctx.rep.violation("tensor_store.recover/recover_error", "recovery from the log of a session with a refused put failed", json!({"script": script}));
            }
            let _ = std::fs::remove_dir_all(&d2);
        }
        // checkpoint, recover from snapshot + (empty) log
        let ck = store.checkpoint(&snap_path);
        drop(store);
        if ck.is_err() {
            // the marker record itself did not fit: the checkpoint stopped with the snapshot in place and the log
            // whole, which recovery must cope with as with a crash at that step
            ctx.rep.hit("probe_failed_put.checkpoint_marker_refused");
        }
        match (Ok::<(), ()>(()), TensorStore::recover(&wal_path, &cfg, if snap_path.exists() { Some(snap_path.as_path()) } else { None })) {
            (Ok(_), Ok(r)) => {
                seen.push(("store recovered after a checkpoint", look(&r)));
                // the key can be written afterwards (the log is empty again: a small value fits)
                if res.is_err() {
                    let again = r.put_durable(key.to_string(), tdv("y", 2.0, 3));
                    let got = r.get(key).map(|d| canon(&d));
                    if ck.is_ok() && max >= 120 && !(again.is_ok() && got.as_ref().ok() == Some(&canon(&tdv("y", 2.0, 3)))) {
                        ctx.rep.hit("violation.tensor_store.slab_router.put_durable/put_after_failed_put_not_readable");
                        ctx.rep.violation("tensor_store.slab_router.put_durable/put_after_failed_put_not_readable", "after a refused put, checkpoint and recovery, a put of the same key with a small vector is not read back", json!({"script": script, "put_ok": again.is_ok(), "get_ok": got.is_ok()}));
                    }
                }
            },
            (_, rec) => {
                ctx.rep.hit("violation.tensor_store.recover/recover_error");
                ctx.rep.violation("tensor_store.recover/recover_error", "recovery after a refused put and a checkpoint failed", json!({"script": script, "checkpoint_ok": ck.is_ok(), "recover_error": rec.err().map(|e| e.to_string())}));
            },
        }
        if res.is_err() {
            for (where_, (exists, listed, listed_p, get_ok, img)) in &seen {
                let ghost = !was_there && !*get_ok && (*exists || *listed || *listed_p);
                if ghost {
                    ctx.rep.hit(&format!("violation.{FAILED_PUT_GHOST}"));
                    ctx.rep.violation(FAILED_PUT_GHOST, &format!("{where_}: a put_durable that returned an error left its key behind: exists={exists} scan_lists={listed} scan_by_key_prefix_lists={listed_p} get_ok={get_ok}"), json!({"script": script, "image_before": before, "image_after": img}));
                } else if *img != before || (was_there != *exists) || (was_there != *get_ok) || (was_there != *listed) || (was_there != *listed_p) {
                    ctx.rep.hit("violation.tensor_store.slab_router.put_durable/failed_put_changes_store");
                    ctx.rep.violation("tensor_store.slab_router.put_durable/failed_put_changes_store", &format!("{where_}: a put_durable that returned an error changed what the store answers: exists={exists} scan_lists={listed} scan_by_key_prefix_lists={listed_p} get_ok={get_ok} (key was there before: {was_there})"), json!({"script": script, "image_before": before, "image_after": img}));
                } else {
                    ctx.rep.hit("oracle.failed_put_changed_nothing");
                }
            }
        }
        let _ = std::fs::remove_dir_all(&dir);
    }
}

// ------------------------------------------------------------------ checkpoints on real files, leftovers included (CkptFs.lean)

/// a checkpoint that returned Ok on a directory that held a leftover `<snapshot>.tmp` (an earlier checkpoint was
/// interrupted inside its snapshot step) installed a snapshot file that is not the image of the store: bytes of the
/// stale temp file behind it / unreadable / other content — and truncated the log
const STALE_TMP: &str = "tensor_store.snapshot.save/stale_temp_file_corrupts_checkpoint_snapshot";
/// the same on a directory without any leftover temp file
const CKPT_SNAP_WRONG: &str = "tensor_store.slab_router.checkpoint/installed_snapshot_is_not_the_store";
const CKPT_TMP_LEFT: &str = "tensor_store.snapshot.save/temp_file_left_behind_by_checkpoint";

/// how a session of a `ckpt_fs` chain ends
#[derive(Clone, Debug)]
enum CkEnd {
    /// no checkpoint; the process dies (Immediate: the log holds every operation)
    Crash,
    /// a checkpoint is interrupted INSIDE its snapshot step with num/den of the image in `<snapshot>.tmp`
    /// (0 = temp file just created, den/den = image complete and fsynced, not yet renamed); old snapshot and log untouched
    Tmp(u32, u32),
    /// a checkpoint is interrupted after the rename with this many marker bytes in the log (usize::MAX = all of them)
    Marker(usize),
    /// a checkpoint runs to its end, then the process dies
    Truncated,
}

/// one session: durable puts / deletes and COMPLETED checkpoints (`Op::Ckpt`) on the store recovered from whatever
/// the previous session left on the same paths, then the end
#[derive(Clone, Debug)]
struct FsSession {
    ops: Vec<Op>,
    end: CkEnd,
}

fn fs_script_json(ss: &[FsSession]) -> Value {
    json!(ss.iter().map(|s| json!({"ops": s.ops.iter().map(op_str).collect::<Vec<_>>(), "end": match &s.end {
        CkEnd::Crash => "crash".to_string(),
        CkEnd::Tmp(a, b) => format!("checkpoint interrupted inside the snapshot step: {a}/{b} of the image in snap.bin.tmp, not renamed"),
        CkEnd::Marker(m) if *m == usize::MAX => "checkpoint interrupted after the marker, before the truncation".to_string(),
        CkEnd::Marker(m) => format!("checkpoint interrupted after the rename, {m} marker bytes in the log"),
        CkEnd::Truncated => "checkpoint completes, then crash".to_string(),
    }})).collect::<Vec<_>>())
}

/// the two files of the snapshot step
#[derive(Clone, PartialEq)]
struct SnapFiles {
    snap: Option<Vec<u8>>,
    tmp: Option<Vec<u8>>,
}
fn read_snap_files(dir: &std::path::Path) -> SnapFiles {
    SnapFiles { snap: std::fs::read(dir.join("snap.bin")).ok(), tmp: std::fs::read(dir.join("snap.bin.tmp")).ok() }
}
fn write_snap_files(dir: &std::path::Path, f: &SnapFiles) {
    for (name, b) in [("snap.bin", &f.snap), ("snap.bin.tmp", &f.tmp)] {
        match b {
            Some(x) => std::fs::write(dir.join(name), x).unwrap(),
            None => {
                let _ = std::fs::remove_file(dir.join(name));
            },
        }
    }
}
fn file_tok(b: &Option<Vec<u8>>) -> String {
    match b {
        None => "none".into(),
        Some(b) => format!("some:{}", hex(b)),
    }
}
fn files_tok(f: &SnapFiles) -> String {
    format!("{} {}", file_tok(&f.snap), file_tok(&f.tmp))
}
fn files_short(f: &SnapFiles) -> Value {
    json!({"snap.bin": f.snap.as_ref().map(|b| format!("{} bytes", b.len())), "snap.bin.tmp": f.tmp.as_ref().map(|b| format!("{} bytes", b.len()))})
}

/// one run of a `ckpt_fs` chain. `quiet`: real objects and oracles only, nothing recorded (used by the shrinker)
struct FsRun<'a> {
    ctx: &'a mut Ctx,
    stream: &'a str,
    quiet: bool,
    /// the model is consulted until the first model/implementation disagreement; the run continues real-only
    model_on: bool,
    script: Value,
    /// oracle violations found: (class, what, details)
    found: Vec<(String, String, Value)>,
    cfg: WalConfig,
    /// the session being run
    session: usize,
}

impl FsRun<'_> {
    fn hit(&mut self, k: &str) {
        if !self.quiet {
            self.ctx.rep.hit(k);
        }
    }
    fn viol(&mut self, class: &str, what: &str, details: Value) {
        self.hit(&format!("violation.{class}"));
        self.found.push((class.to_string(), what.to_string(), details));
    }
    fn ask(&mut self, line: &str) -> Option<String> {
        if self.model_on { Some(self.ctx.m.ask(line)) } else { None }
    }
    fn compare(&mut self, sub: &str, key: Option<&str>, what: Value, imp: &str, model: Option<String>) {
        let Some(model) = model else { return };
        let stream = format!("{}.{sub}", self.stream);
        self.ctx.rep.case(&stream, key);
        let script = &self.script;
        if !self.ctx.rep.compare(&stream, || json!({"script": script, "at": what}), imp, &model) {
            self.model_on = false;
            self.ctx.rep.hit("ckpt_fs.continues_real_only_after_disagreement");
        }
    }

    /// A crash state (files of the snapshot step + log) as a real directory: real recovery, the model's `recoverFs`
    /// on the same bytes, and the oracle: the recovered image is exactly `expect` (Immediate: every operation issued
    /// is acknowledged). `blame`: class of a violation already diagnosed at the checkpoint that installed the snapshot.
    fn check_state(&mut self, files: &SnapFiles, wal: &[u8], expect: &[String], what: &str, blame: Option<&'static str>) -> bool {
        let d = self.ctx.fresh_dir();
        std::fs::write(d.join("w.wal"), wal).unwrap();
        write_snap_files(&d, files);
        let r = TensorStore::recover(d.join("w.wal"), &self.cfg, Some(&d.join("snap.bin")));
        let mut incoherent = Vec::new();
        let (imp, img) = match &r {
            Ok(st) => {
                let img = image_of(st);
                incoherent = incoherent_keys(st, &keys_of_images(&[expect.to_vec()]));
                (fmt_image(&img), Some(img))
            },
            // rule 2 (BUILDING.md): every refusal of `recover` is the one variant WalError(String); compared as `err`
            Err(e @ tensor_store::SlabRouterError::WalError(_)) => {
                let t = e.to_string().to_lowercase();
                self.hit(if t.contains("snapshot") { "ckpt_fs.recover.refused.snapshot_wording" } else { "ckpt_fs.recover.refused.other_wording" });
                ("err".to_string(), None)
            },
            Err(e) => (format!("err other:{}", vname(e)), None),
        };
        drop(r);
        if self.model_on {
            self.ctx.bind_file(wal);
        }
        let model = self.ask(&format!("fs_recover {} {}", file_tok(&files.snap), hex(wal))).map(|a| {
            let a = canon_model_image(&a);
            if a.starts_with("err ") { "err".to_string() } else { a }
        });
        let key = format!("{what}|{}|{}", wal.len(), imp.len());
        self.compare("recover", Some(&key), json!({"crash": what, "files": files_short(files), "wal_len": wal.len()}), &imp, model);
        let bad: Option<(&str, String)> = match &img {
            None => Some(("recover_error", imp.clone())),
            Some(img) if durable_part(img) != expect => Some(("state_differs_from_acknowledged_writes", format!("recovered {:?}, acknowledged writes give {:?}", durable_part(img), expect))),
            Some(_) => None,
        };
        let ok = bad.is_none();
        if let Some((kind, detail)) = bad {
            let class = blame.map(|c| c.to_string()).unwrap_or_else(|| format!("tensor_store.recover/{kind}"));
            self.viol(&class, &format!("{kind} at crash state `{what}`: {detail}"), json!({"crash": what, "files": files_short(files), "wal_len": wal.len()}));
        } else {
            self.hit("oracle.recovered_state_is_acked_prefix");
        }
        for (k, w) in incoherent {
            self.viol(INCOHERENT, &format!("recovered store: key {k:?}: {w}"), json!({"crash": what}));
        }
        let _ = std::fs::remove_dir_all(&d);
        ok
    }

    /// The image `save_v3` writes for this store now: a save of the same store object into an empty directory
    /// (two saves of one store may order their entries differently: its LENGTH and what it loads as are compared).
    fn reference_image(&mut self, store: &TensorStore) -> Vec<u8> {
        let d = self.ctx.fresh_dir();
        let p = d.join("img.bin");
        let b = if store.save_snapshot(&p).is_ok() { std::fs::read(&p).unwrap_or_default() } else { Vec::new() };
        let _ = std::fs::remove_dir_all(&d);
        b
    }

    /// One REAL `checkpoint(snap.bin)` on the directory as it is — with whatever an interrupted checkpoint left —
    /// and the oracles of "taking a checkpoint never loses data" on its own outputs: it succeeds; the file it
    /// installed loads as exactly the running store; nothing of a stale temp file sits behind the image; no temp
    /// file is left. Returns (checkpoint id, files after, class of what is wrong with the installed snapshot).
    fn real_checkpoint(&mut self, store: &TensorStore, dir: &std::path::Path, img_ref: &[u8], what: &str) -> Option<(u64, SnapFiles, Option<&'static str>)> {
        let pre = read_snap_files(dir);
        let live = image_of(store);
        let stale_len = pre.tmp.as_ref().map(Vec::len);
        self.hit(&format!("ckpt_fs.leftover.{}", match stale_len {
            None => "none",
            Some(l) if l > img_ref.len() => "longer_than_image",
            Some(l) if l == img_ref.len() => "same_length_as_image",
            Some(_) => "shorter_than_image",
        }));
        let class = if pre.tmp.is_some() { STALE_TMP } else { CKPT_SNAP_WRONG };
        let details = |extra: Value| json!({"at": what, "files_before": files_short(&pre), "image_bytes_of_a_reference_save": img_ref.len(), "observed": extra});
        let id = match store.checkpoint(dir.join("snap.bin")) {
            Ok(id) => id,
            Err(e) => {
                self.viol(if pre.tmp.is_some() { STALE_TMP } else { "tensor_store.slab_router.checkpoint/fails" }, "checkpoint returns an error on the directory an interrupted checkpoint left behind: later checkpoints do not keep working", details(json!({"error_variant": vname(&e)})));
                return None;
            },
        };
        let post = read_snap_files(dir);
        let p = post.snap.clone().unwrap_or_default();
        let loaded = TensorStore::load_snapshot(dir.join("snap.bin")).map(|s| image_of(&s));
        // bytes of the stale temp file that sit behind the image in the installed file
        let tail = match &pre.tmp {
            Some(st) if p.len() > img_ref.len() && p.len() == st.len() => p.iter().rev().zip(st.iter().rev()).take_while(|(a, b)| a == b).count().min(p.len() - img_ref.len()),
            _ => 0,
        };
        let mut bad = None;
        match &loaded {
            Ok(img) if *img == live => {},
            other => {
                bad = Some(class);
                self.viol(class, "checkpoint returned Ok (snapshot renamed into place, log truncated), but the snapshot file it installed does not load as the running store: every write acknowledged before the checkpoint is unreachable", details(json!({"load": match other { Ok(_) => "loads, as different content".to_string(), Err(e) => format!("rejected ({})", vname(e)) }, "installed_bytes": p.len(), "bytes_of_the_stale_temp_file_behind_the_image": tail})));
            },
        }
        if bad.is_none() && tail > 0 {
            bad = Some(STALE_TMP);
            self.viol(STALE_TMP, "the snapshot file a checkpoint installed carries bytes of the stale temp file behind the image", details(json!({"installed_bytes": p.len(), "bytes_of_the_stale_temp_file_behind_the_image": tail})));
        }
        if post.tmp.is_some() {
            self.viol(CKPT_TMP_LEFT, "a temp file exists after a checkpoint that returned Ok", details(json!({"temp_bytes": post.tmp.as_ref().map(Vec::len)})));
        }
        if bad.is_none() && post.tmp.is_none() {
            self.hit("oracle.installed_snapshot_is_the_store");
        }
        Some((id, post, bad))
    }

    /// What may FOLLOW a crash state: on its directory, recover; delete (durably) every key but the first and write
    /// one small key, so that the next image is shorter than anything left behind; take a checkpoint to the SAME
    /// path (`real_checkpoint` and its oracles); crash; recover: exactly the acknowledged writes. Real only.
    fn probe_next_checkpoint(&mut self, files: &SnapFiles, wal: &[u8], spec: &BTreeMap<String, Canon>, what: &str) {
        let n_before = self.found.len();
        self.probe_next_checkpoint_inner(files, wal, spec, what);
        // what a probe finds needs only the sessions up to the one it branched off from
        let upto = self.session + 1;
        for f in self.found.iter_mut().skip(n_before) {
            f.2["script_prefix_sessions"] = json!(upto);
        }
    }
    fn probe_next_checkpoint_inner(&mut self, files: &SnapFiles, wal: &[u8], spec: &BTreeMap<String, Canon>, what: &str) {
        let d = self.ctx.fresh_dir();
        std::fs::write(d.join("w.wal"), wal).unwrap();
        write_snap_files(&d, files);
        let Ok(store) = TensorStore::recover(d.join("w.wal"), &self.cfg, Some(&d.join("snap.bin"))) else {
            let _ = std::fs::remove_dir_all(&d);
            return; // reported by check_state on the same state
        };
        let mut spec = spec.clone();
        let keys: Vec<String> = spec.keys().skip(1).cloned().collect();
        for k in keys {
            if store.delete_durable(&k).is_ok() {
                spec.remove(&k);
            }
        }
        if store.put_durable("z".to_string(), td("z")).is_ok() {
            spec.insert("z".into(), canon(&td("z")));
        }
        let what2 = format!("{what}; then recover, delete all keys but one, put z, checkpoint to the same path");
        let img_ref = self.reference_image(&store);
        let res = self.real_checkpoint(&store, &d, &img_ref, &what2);
        drop(store);
        if let Some((_, _, bad)) = res {
            let r = TensorStore::recover(d.join("w.wal"), &self.cfg, Some(&d.join("snap.bin")));
            let exp = spec_image(&spec);
            match &r {
                Ok(st) if durable_part(&image_of(st)) == exp => self.hit("oracle.next_checkpoint_after_crash_state"),
                Ok(st) => {
                    let got = durable_part(&image_of(st));
                    self.viol(bad.unwrap_or("tensor_store.recover/state_differs_from_acknowledged_writes"), &format!("recovery after the checkpoint that followed crash state `{what}` gives {got:?}, the acknowledged writes give {exp:?}"), json!({"at": what2}));
                },
                Err(e) => self.viol(bad.unwrap_or("tensor_store.recover/recover_error"), "recovery fails after a checkpoint that returned Ok: every acknowledged write is lost", json!({"at": what2, "error_variant": vname(e)})),
            }
        }
        let _ = std::fs::remove_dir_all(&d);
    }
}

/// image byte counts at which the temp-file crash states of one checkpoint are materialised
fn tmp_cuts(len: usize, stale: Option<usize>, thorough: bool) -> Vec<usize> {
    let mut v = vec![0, 1, 19, 20, 21, len / 2, len.saturating_sub(1), len];
    if let Some(s) = stale {
        v.extend([s.saturating_sub(1), s, s + 1]);
    }
    if thorough {
        v.extend((0..len).step_by((len / 24).max(1)));
    }
    v.retain(|x| *x <= len);
    v.sort();
    v.dedup();
    v
}

/// Runs a chain of sessions on ONE directory (same log path, same snapshot path throughout): every checkpoint's crash
/// states — log fsynced; temp file created / partly written / complete and not renamed (next to whatever an
/// EARLIER interrupted checkpoint left); renamed, marker absent / partial / complete; truncated — are materialised as
/// real directories, leftover temp files included, recovered for real (vs `recoverFs`), and probed with a further
/// checkpoint + recovery; the chain itself continues from the state the session's end names, on the same paths.
/// Returns the violations found.
fn run_fs_chain(ctx: &mut Ctx, stream: &str, sessions: &[FsSession], quiet: bool) -> Vec<(String, String, Value)> {
    let cfg = cfg_for(SyncMode::Immediate, None);
    let thorough = ctx.thorough;
    let dir = ctx.fresh_dir();
    let wal_path = dir.join("w.wal");
    let snap_path = dir.join("snap.bin");
    let chain_id = ctx.n_dirs;
    let mut run = FsRun { ctx, stream, quiet, model_on: !quiet, script: json!({"mode": "immediate", "sessions": fs_script_json(sessions)}), found: Vec::new(), cfg: cfg.clone(), session: 0 };
    let Ok(mut store) = TensorStore::open_durable(&wal_path, cfg.clone()) else { return run.found };
    run.ask("open immediate 0");
    run.ask("fs_set none none");
    let mut spec: BTreeMap<String, Canon> = BTreeMap::new();
    let mut snap_ctr = 0u32;
    // class of what is wrong with the snapshot file currently in place (diagnosed by the checkpoint that installed it)
    let mut blame: Option<&'static str> = None;

    for (si, s) in sessions.iter().enumerate() {
        run.session = si;
        // the steps of the session; the end adds one more checkpoint unless it is a plain crash
        let mut steps: Vec<(Op, Option<&CkEnd>)> = s.ops.iter().map(|o| (o.clone(), None)).collect();
        if !matches!(s.end, CkEnd::Crash) {
            steps.push((Op::Ckpt, Some(&s.end)));
        }
        // the disk state the chain continues from after this session's crash
        let mut resume: Option<(SnapFiles, Vec<u8>)> = None;
        for (oi, (op, end)) in steps.iter().enumerate() {
            match op {
                Op::Put(k, d) => {
                    let res = store.put_durable(k.clone(), d.clone());
                    let c = canon(d);
                    let m = run.ask(&format!("put {} {} {}", hex(k.as_bytes()), hex(&c.0), ob_str(&c.1))).map(|a| a.split_whitespace().next().unwrap_or("").to_string());
                    run.hit("op.put");
                    run.compare("op_result", None, json!({"session": si, "op": oi}), if res.is_ok() { "ok" } else { "err" }, m);
                    if res.is_ok() {
                        spec.insert(k.clone(), c);
                    }
                },
                Op::Del(k) => {
                    // without a size limit the log cannot refuse: the variant decides (see run_chain)
                    let res = store.delete_durable(k);
                    let m = run.ask(&format!("del {}", hex(k.as_bytes()))).map(|a| a.split_whitespace().next().unwrap_or("").to_string());
                    run.hit("op.delete");
                    run.compare("op_result", None, json!({"session": si, "op": oi}), if res.is_ok() { "ok" } else { "notfound" }, m);
                    spec.remove(k);
                },
                Op::Sync => {},
                Op::Ckpt => {
                    run.hit("op.checkpoint");
                    let at = format!("session {si} checkpoint@step{oi}");
                    let wal_before = std::fs::read(&wal_path).unwrap_or_default();
                    let n_rec = if run.model_on { run.ctx.bind_file(&wal_before).0 } else { 0 };
                    run.ask("ckpt_sync");
                    let pre = read_snap_files(&dir);
                    let img = run.reference_image(&store);
                    let expect = spec_image(&spec);
                    let cuts = tmp_cuts(img.len(), pre.tmp.as_ref().map(Vec::len), thorough);
                    // ---- the crash states before the rename: the model's `FSys.ckptStates` vs the directories built here
                    let mut pre_states: Vec<(String, SnapFiles)> = vec![(format!("{at}: log fsynced, snapshot step not started"), pre.clone())];
                    for &j in &cuts {
                        let kind = if j == 0 { "created, empty" } else if j == img.len() { "complete and fsynced, not renamed" } else { "partly written" };
                        pre_states.push((format!("{at}: temp file {kind} ({j}/{} image bytes)", img.len()), SnapFiles { snap: pre.snap.clone(), tmp: Some(img[..j].to_vec()) }));
                    }
                    let cuts_s = cuts.iter().map(|c| c.to_string()).collect::<Vec<_>>().join(",");
                    let name = format!("f{chain_id}_{}", snap_ctr + 1);
                    let m_states = run.ask(&format!("fs_ckpt 0 0 {name} {} 0 {cuts_s}", hex(&img)));
                    let local = {
                        let mut v: Vec<String> = pre_states.iter().map(|(_, f)| format!("{} {n_rec}", files_tok(f))).collect();
                        let done = SnapFiles { snap: Some(img.clone()), tmp: None };
                        v.push(format!("{} {n_rec}", files_tok(&done)));
                        v.push(format!("{} {}", files_tok(&done), n_rec + 1));
                        v.push(format!("{} 0", files_tok(&done)));
                        v.join(" | ")
                    };
                    run.compare("crash_states", Some(&format!("{}|{}", img.len(), cuts_s)), json!({"at": at, "what": "files and log records at every crash state of a checkpoint (model: FSys.ckptStates on the directory as it is, given the image) vs the directories the harness materialises", "files_before": files_short(&pre)}), &local, m_states);
                    let mut probed = 0;
                    for (i, (what, f)) in pre_states.iter().enumerate() {
                        run.check_state(f, &wal_before, &expect, what, blame);
                        let tl = f.tmp.as_ref().map(Vec::len);
                        run.hit(if i == 0 { "ckpt_fs.state.log_fsynced" } else if tl == Some(0) { "ckpt_fs.state.tmp_created" } else if tl == Some(img.len()) { "ckpt_fs.state.tmp_complete" } else { "ckpt_fs.state.tmp_partial" });
                        // a further checkpoint on this crash state: all of them (thorough) / the longest leftovers and the empty one
                        let interesting = i > 0 && (thorough || tl == Some(0) || tl.map_or(false, |l| 2 * l >= img.len()));
                        if interesting && blame.is_none() && (thorough || probed < 4) {
                            probed += 1;
                            run.probe_next_checkpoint(f, &wal_before, &spec, what);
                        }
                    }
                    // ---- the end of this checkpoint
                    if let Some(CkEnd::Tmp(a, b)) = end {
                        let j = (img.len() as u64 * u64::from(*a) / u64::from((*b).max(1))) as usize;
                        run.hit(if j == 0 { "ckpt_fs.interrupted.tmp_created" } else if j >= img.len() { "ckpt_fs.interrupted.tmp_complete" } else { "ckpt_fs.interrupted.tmp_partial" });
                        resume = Some((SnapFiles { snap: pre.snap.clone(), tmp: Some(img[..j.min(img.len())].to_vec()) }, wal_before.clone()));
                        break;
                    }
                    // ---- the REAL checkpoint, on the directory as it is
                    let Some((id, post, bad)) = run.real_checkpoint(&store, &dir, &img, &at) else { return run.found };
                    blame = bad;
                    snap_ctr += 1;
                    let p = post.snap.clone().unwrap_or_default();
                    // correspondence: the model runs the same checkpoint on ITS directory, writing the first
                    // `reference length` bytes of the installed file as the image
                    // (two saves of one store might differ in length; only an installed file that is exactly as long as
                    // the leftover temp file AND longer than the reference image is cut to the reference length)
                    if p.len() != img.len() {
                        run.hit("ckpt_fs.installed_length_differs_from_reference");
                    }
                    let overlay_shape = p.len() > img.len() && pre.tmp.as_ref().map(Vec::len) == Some(p.len());
                    let new_bytes = if overlay_shape { &p[..img.len()] } else { &p[..] };
                    let m_fin = run.ask(&format!("fs_ckpt 0 1 {name} {} {id} -", hex(new_bytes))).map(|a| a.rsplit(" | ").next().unwrap_or("").to_string());
                    run.compare("installed_files", Some(&format!("{}|{:?}", p.len(), pre.tmp.as_ref().map(Vec::len))), json!({"at": at, "what": "snapshot file, temp file and log records after a checkpoint that returned Ok", "files_before": files_short(&pre), "files_after": files_short(&post)}), &format!("{} 0", files_tok(&post)), m_fin);
                    if bad.is_none() {
                        run.ask(&format!("fs_bind {} {name}", hex(&p)));
                    }
                    let after_len = std::fs::metadata(&wal_path).map(|m| m.len()).unwrap_or(0);
                    run.compare("ckpt_truncates", None, json!({"at": at}), &format!("{after_len}"), Some("0".to_string()));
                    // ---- the crash states after the rename: installed file + log with 0..all marker bytes; truncated
                    let marker = frame(&bitcode::serialize(&WalEntry::Checkpoint { snapshot_id: id }).unwrap());
                    let mut mcuts = if thorough { vec![0, 3, 8, marker.len() - 1, marker.len()] } else { vec![0, 5, marker.len()] };
                    if let Some(CkEnd::Marker(m)) = end {
                        mcuts.push((*m).min(marker.len()));
                    }
                    mcuts.sort();
                    mcuts.dedup();
                    for (pi, mc) in mcuts.iter().enumerate() {
                        let mut w = wal_before.clone();
                        w.extend_from_slice(&marker[..*mc]);
                        let what = format!("{at}: snapshot renamed into place, {mc}/{} marker bytes", marker.len());
                        run.check_state(&post, &w, &expect, &what, blame);
                        run.hit(if *mc == 0 { "ckpt_fs.state.renamed" } else { "ckpt_fs.state.marker" });
                        if pi == 0 && blame.is_none() {
                            run.probe_next_checkpoint(&post, &w, &spec, &what);
                        }
                    }
                    run.check_state(&post, &[], &expect, &format!("{at}: log truncated"), blame);
                    run.hit("ckpt_fs.state.truncated");
                    match end {
                        Some(CkEnd::Marker(m)) => {
                            let mut w = wal_before.clone();
                            w.extend_from_slice(&marker[..(*m).min(marker.len())]);
                            run.hit("ckpt_fs.interrupted.after_rename");
                            resume = Some((post.clone(), w));
                            break;
                        },
                        Some(_) => {
                            run.hit("ckpt_fs.interrupted.after_truncate");
                            resume = Some((post.clone(), Vec::new()));
                            break;
                        },
                        None => {},
                    }
                },
            }
        }
        // ---- live store vs model vs the writes, before the crash
        let live = image_of(&store);
        let mimg = run.ask("image").map(|a| canon_model_image(&format!("ok {a}")));
        run.compare("live_image", Some(&fmt_image(&live)), json!({"session": si}), &fmt_image(&live), mimg);
        if durable_part(&live) != spec_image(&spec) {
            run.viol("tensor_store.live/state_differs_from_writes", "live store answers differently from the writes issued", json!({"session": si, "live": durable_part(&live), "expected": spec_image(&spec)}));
        }
        // ---- crash: the directory becomes the chosen state (a plain crash: the files as they are), same paths
        let (files, wal) = resume.unwrap_or_else(|| (read_snap_files(&dir), std::fs::read(&wal_path).unwrap_or_default()));
        drop(store);
        std::fs::write(&wal_path, &wal).unwrap();
        write_snap_files(&dir, &files);
        let expect = spec_image(&spec);
        let what = format!("end of session {si}");
        if !run.check_state(&files, &wal, &expect, &what, blame) {
            break; // the property is violated on this state; reported
        }
        // ---- recover for real on the same paths and go on
        store = match TensorStore::recover(&wal_path, &cfg, Some(&snap_path)) {
            Ok(s) => s,
            Err(_) => break,
        };
        if run.model_on {
            run.ctx.bind_file(&wal);
        }
        run.ask(&format!("fs_set {}", files_tok(&files)));
        let m = run.ask(&format!("fs_resume {}", hex(&wal))).map(|a| {
            let mut it = a.splitn(3, ' ');
            let (w0, _len, rest) = (it.next().unwrap_or(""), it.next(), it.next().unwrap_or(""));
            if w0 == "ok" { canon_model_image(&format!("ok {rest}")) } else { "err".to_string() }
        });
        run.compare("resume_image", None, json!({"session": si, "files": files_short(&files)}), &fmt_image(&image_of(&store)), m);
        run.hit(&format!("ckpt_fs.crash_number.{}", (si + 1).min(4)));
        if files.tmp.is_some() {
            run.hit("ckpt_fs.resumed_with_leftover_temp_file");
        }
    }
    let _ = std::fs::remove_dir_all(&dir);
    run.found
}

/// Runs a chain, and when an oracle fires shrinks the script (whole sessions, then the operations of each session)
/// by real-only re-runs that must hit the same class; the violation is reported with the shrunk script as its input.
fn fs_chain_reported(ctx: &mut Ctx, stream: &str, sessions: &[FsSession], shrink: bool) {
    let found = run_fs_chain(ctx, stream, sessions, false);
    if found.is_empty() {
        return;
    }
    let mut reported: HashSet<String> = HashSet::new();
    for (class, what, details) in &found {
        if !reported.insert(class.clone()) {
            continue;
        }
        let mut cur: Vec<FsSession> = sessions.to_vec();
        if let Some(n) = details["script_prefix_sessions"].as_u64() {
            cur.truncate(n as usize);
        }
        if shrink {
            let mut budget = 60usize;
            let fails = |cand: &[FsSession], ctx: &mut Ctx, budget: &mut usize| -> bool {
                if *budget == 0 {
                    return false;
                }
                *budget -= 1;
                run_fs_chain(ctx, stream, cand, true).iter().any(|f| f.0 == *class)
            };
            cur = nverif::shrink_list(&cur, &mut |c| fails(c, ctx, &mut budget));
            for i in 0..cur.len() {
                if cur[i].ops.len() > 1 {
                    let base = cur.clone();
                    let ops = nverif::shrink_list(&cur[i].ops, &mut |o| {
                        let mut cand = base.clone();
                        cand[i].ops = o.to_vec();
                        fails(&cand, ctx, &mut budget)
                    });
                    cur[i].ops = ops;
                }
            }
            ctx.rep.hit("ckpt_fs.shrunk_a_failing_script");
        }
        // the details of the shrunk script's own failure
        let (what2, details2) = if shrink {
            run_fs_chain(ctx, stream, &cur, true).into_iter().find(|f| f.0 == *class).map(|f| (f.1, f.2)).unwrap_or((what.clone(), details.clone()))
        } else {
            (what.clone(), details.clone())
        };
        ctx.rep.violation(class, &what2, json!({"stream": stream, "script": {"mode": "immediate", "sessions": fs_script_json(&cur)}, "details": details2, "sessions_before_shrinking": sessions.len()}));
    }
}

/// a value whose serialized size does not compress away: the image grows and shrinks with the number of keys
fn blob(i: u64, words: usize) -> TensorData {
    let mut x = i.wrapping_mul(0x9E37_79B9_7F4A_7C15).wrapping_add(0xD1B5_4A32_D192_ED03);
    let mut s = String::new();
    for _ in 0..words {
        x ^= x << 13;
        x ^= x >> 7;
        x ^= x << 17;
        s.push_str(&format!("{x:016x}"));
    }
    let mut d = td(&s);
    d.set("n", TensorValue::Scalar(ScalarValue::Int(i as i64)));
    d
}

/// DIRECTED: the shortest histories in which the truncation of the temp file is the only thing that keeps a
/// completed checkpoint's snapshot readable, and their neighbours
fn fs_directed() -> Vec<(&'static str, Vec<FsSession>)> {
    let grow = |from: u64, n: u64| -> Vec<Op> { (from..from + n).map(|i| Op::Put(format!("k{i:02}"), blob(i, 6))).collect() };
    let dels = |from: u64, n: u64| -> Vec<Op> { (from..from + n).map(|i| Op::Del(format!("k{i:02}"))).collect() };
    let with = |mut a: Vec<Op>, b: Vec<Op>| -> Vec<Op> { a.extend(b); a };
    vec![
        // the minimal one: image complete in the temp file, not renamed; recover; the store shrinks; a checkpoint completes; recover
        ("stale_complete_then_smaller_checkpoint", vec![
            FsSession { ops: grow(0, 8), end: CkEnd::Tmp(1, 1) },
            FsSession { ops: with(dels(0, 6), vec![Op::Ckpt, Op::Put("after".into(), td("x"))]), end: CkEnd::Crash },
            FsSession { ops: vec![Op::Put("later".into(), td("y"))], end: CkEnd::Truncated },
        ]),
        // neighbours: the stale file is a strict prefix / empty / shorter than the next image / same length
        ("stale_partial_then_smaller_checkpoint", vec![
            FsSession { ops: grow(0, 8), end: CkEnd::Tmp(7, 8) },
            FsSession { ops: dels(0, 7), end: CkEnd::Truncated },
            FsSession { ops: vec![Op::Put("later".into(), td("y"))], end: CkEnd::Crash },
        ]),
        ("stale_empty_then_checkpoint", vec![
            FsSession { ops: grow(0, 4), end: CkEnd::Tmp(0, 1) },
            FsSession { ops: dels(0, 2), end: CkEnd::Truncated },
        ]),
        ("stale_shorter_than_next_image", vec![
            FsSession { ops: grow(0, 3), end: CkEnd::Tmp(1, 1) },
            FsSession { ops: grow(3, 5), end: CkEnd::Truncated },
            FsSession { ops: dels(0, 8), end: CkEnd::Marker(5) },
        ]),
        ("stale_same_store_again", vec![
            FsSession { ops: grow(0, 5), end: CkEnd::Tmp(1, 1) },
            FsSession { ops: vec![], end: CkEnd::Truncated },
        ]),
        // two interrupted checkpoints in a row (the second one's temp file replaces the first one's), then a smaller one completes
        ("two_interrupted_then_smaller_checkpoint", vec![
            FsSession { ops: grow(0, 9), end: CkEnd::Tmp(1, 1) },
            FsSession { ops: dels(0, 3), end: CkEnd::Tmp(1, 2) },
            FsSession { ops: dels(3, 5), end: CkEnd::Marker(usize::MAX) },
            FsSession { ops: vec![Op::Put("later".into(), td("y"))], end: CkEnd::Truncated },
        ]),
        // an old snapshot in place, a bigger store's checkpoint interrupted, the store shrinks below BOTH, two more checkpoints
        ("old_snapshot_and_stale_temp", vec![
            FsSession { ops: with(grow(0, 3), vec![Op::Ckpt]), end: CkEnd::Crash },
            FsSession { ops: with(grow(3, 7), vec![Op::Put("emb:a".into(), tdv("e", 1.0, 3))]), end: CkEnd::Tmp(1, 1) },
            FsSession { ops: with(dels(0, 9), vec![Op::Del("emb:a".into()), Op::Ckpt, Op::Put("k00".into(), td("back")), Op::Ckpt]), end: CkEnd::Crash },
            FsSession { ops: vec![], end: CkEnd::Tmp(1, 3) },
        ]),
        // interrupted after the rename (the OLD snapshot is the longer file), the store shrinks, a checkpoint completes
        ("interrupted_after_rename_then_smaller_checkpoint", vec![
            FsSession { ops: grow(0, 8), end: CkEnd::Marker(0) },
            FsSession { ops: dels(0, 7), end: CkEnd::Truncated },
        ]),
    ]
}

/// RANDOM: sessions that alternately grow and shrink the store, most of them ending inside a checkpoint — biased
/// towards "image complete in the temp file, not renamed" — with completed checkpoints in between and at the end
fn gen_fs_sessions(r: &mut Rng) -> Vec<FsSession> {
    let n = 3 + r.below(2) as usize;
    let mut live: Vec<String> = Vec::new();
    let mut next = 0u64;
    let mut out = Vec::new();
    for si in 0..n {
        let mut ops = Vec::new();
        let growing = if si == 0 { true } else { r.chance(1, 3) };
        if growing {
            for _ in 0..(3 + r.below(6)) {
                let k = match r.below(8) {
                    0 => format!("emb:e{}", r.below(3)),
                    1 => format!("node:{}", r.below(3)),
                    3 => { let k = r.pick(UNI_KEYS).to_string(); if is_cache(&k) { "\u{44e}\u{433}".to_string() } else { k } },
                    2 if !live.is_empty() => r.pick(&live).clone(),
                    _ => {
                        next += 1;
                        format!("k{next:02}")
                    },
                };
                let d = if k.starts_with("emb:") && r.chance(1, 2) { tdv("e", r.below(4) as f32, 3) } else { blob(r.below(1000), 1 + r.below(8) as usize) };
                if !live.contains(&k) {
                    live.push(k.clone());
                }
                ops.push(Op::Put(k, d));
            }
        } else {
            // shrink: most of the live keys go
            let keep = r.below(3) as usize;
            r.shuffle(&mut live);
            while live.len() > keep {
                ops.push(Op::Del(live.pop().unwrap()));
            }
            if r.chance(1, 3) {
                ops.push(Op::Del("absent".into()));
            }
            if r.chance(1, 2) {
                next += 1;
                let k = format!("k{next:02}");
                live.push(k.clone());
                ops.push(Op::Put(k, td("s")));
            }
        }
        if r.chance(1, 3) && !ops.is_empty() {
            let at = r.below(ops.len() as u64 + 1) as usize;
            ops.insert(at, Op::Ckpt);
        }
        let end = if si + 1 == n {
            CkEnd::Truncated
        } else {
            match r.below(20) {
                0..=5 => CkEnd::Tmp(1, 1),
                6..=9 => CkEnd::Tmp(1 + r.below(15) as u32, 16),
                10 => CkEnd::Tmp(0, 1),
                11..=13 => CkEnd::Marker(*r.pick(&[0usize, 1, 5, 9, usize::MAX])),
                14..=16 => CkEnd::Truncated,
                _ => CkEnd::Crash,
            }
        };
        out.push(FsSession { ops, end });
    }
    out
}

fn td(s: &str) -> TensorData {
    let mut d = TensorData::new();
    d.set("f", TensorValue::Scalar(ScalarValue::String(s.to_string())));
    d
}
fn tdv(s: &str, x: f32, dim: usize) -> TensorData {
    let mut d = td(s);
    d.set("_embedding", TensorValue::Vector((0..dim).map(|i| x + (i % 5) as f32 * 0.37).collect()));
    d
}

fn main() {
    let args = parse_args();
    let rng = Rng::new(args.seed);
    let mut ctx = Ctx {
        m: Model::spawn(&args.driver),
        rep: Report::new("a case is non-trivial when it recovers a real store from a non-empty log (or compares a non-empty byte string); distinct = distinct (crash description, log length, recovered image)"),
        seen: HashSet::new(),
        tmp: tempfile::tempdir().unwrap(),
        n_dirs: 0,
        thorough: args.thorough,
        snap_contents: std::collections::HashMap::new(),
        max_rel_err: 0.0,
        n_inexact_obs: 0,
    };
    ctx.rep.expected_branches = [
        "record.set", "record.del", "record.eset", "record.edel", "record.eremove", "keyclass.embedding", "keyclass.graph", "keyclass.table",
        "keyclass.cache", "keyclass.metadata", "cut.torn_tail", "cut.record_boundary", "resume.after_torn_tail", "resume.after_clean_cut",
        "crash_number.1", "crash_number.2", "ckpt_state.before_fsync", "ckpt.unsynced_tail_flushed_by_checkpoint", "ckpt_state.before_snapshot", "ckpt_state.after_snapshot", "ckpt_state.inside_marker",
        "ckpt_state.after_marker", "ckpt_state.after_truncate", "frames.end.clean", "frames.end.torn", "frames.end.bad_crc", "frames.end.undecodable",
        "op.sync", "op.checkpoint", "oracle.recovered_state_is_acked_prefix",
        "config.bloom", "config.no_checksums", "config.no_verify", "config.batched01", "ckpt_state.partial_snapshot_tmp", "emb.nonvector", "crash_number.3", "config.no_auto_rotate", "op.refused_by_size_limit", "op.refused_put_of_emb_key_with_vector", "op.refused_put_after_0_records", "op.refused_put_after_1_records", "op.refused_delete_after_2_records", "failed_put.embedding_record_refused", "failed_put.metadata_record_refused", "failed_put.key_was_indexed", "failed_put.key_was_new", "oracle.failed_put_changed_nothing", "oracle.checkpoint_vs_writer_every_acknowledged_write_recovered", "oracle.exists_scan_get_agree", "rotate_state.log_path_missing", "rotate_state.fresh_file_created", "rotate_state.before_live_rename",
        "ckpt_fs.leftover.none", "ckpt_fs.leftover.longer_than_image", "ckpt_fs.leftover.shorter_than_image", "ckpt_fs.state.log_fsynced", "ckpt_fs.state.tmp_created", "ckpt_fs.state.tmp_partial", "ckpt_fs.state.tmp_complete", "ckpt_fs.state.renamed", "ckpt_fs.state.marker", "ckpt_fs.state.truncated",
        "ckpt_fs.interrupted.tmp_created", "ckpt_fs.interrupted.tmp_partial", "ckpt_fs.interrupted.tmp_complete", "ckpt_fs.interrupted.after_rename", "ckpt_fs.interrupted.after_truncate", "ckpt_fs.resumed_with_leftover_temp_file", "ckpt_fs.crash_number.3",
        "oracle.installed_snapshot_is_the_store", "oracle.next_checkpoint_after_crash_state",
        "key.first_char.none_empty_key", "key.first_char.ascii", "key.first_char.2_bytes", "key.first_char.3_bytes", "key.first_char.4_bytes", "oracle.every_acknowledged_key_readable",
    ]
    .iter()
    .map(|s| s.to_string())
    .collect();
    let th = args.thorough;

    // 0. DIRECTED, FIRST ON EVERY RUN (the report keeps the first 50 violations).
    // regression oracles of the two classes repaired last (silent on the repaired code):
    // f5ce42e5 put_durable/failed_put_leaves_entity_index_entry
    probe_failed_put(&mut ctx);
    // a74fb575 checkpoint/concurrent_durable_write_lost_by_truncate (two real threads)
    for round in 0..(if th { 12 } else { 4 }) {
        probe_checkpoint_vs_writer(&mut ctx, round, round % 2 == 1);
    }
    // the files of checkpoint's snapshot step (CkptFs.lean): a checkpoint interrupted with its image in
    // `snap.bin.tmp`, recovery, a store that shrinks, a LATER checkpoint on the same path that completes, recovery
    // (class snapshot.save/stale_temp_file_corrupts_checkpoint_snapshot) — and the neighbours of that history
    let t_start = std::time::Instant::now();
    for (name, sessions) in fs_directed() {
        ctx.rep.hit(&format!("ckpt_fs.directed.{name}"));
        fs_chain_reported(&mut ctx, "ckpt_fs_directed", &sessions, false);
    }
    let mut t_fs = t_start.elapsed();
    // keys whose first character is not ASCII, written, CHECKPOINTED (so that they live in the snapshot, not in the
    // log), crash, recovery from snapshot + log, overwritten / deleted / re-created after the recovery, second and
    // third crash: every acknowledged key must be readable by get / exists (not only listed by scan) — and the
    // neighbours: the same keys never checkpointed (replayed from the log), checkpoint in the second session only,
    // Manual / Batched, a Bloom-filtered store
    {
        let mut r = rng.fork("unicode_directed");
        let u = |i: usize| UNI_KEYS[i].to_string();
        // the minimal history: one put, checkpoint, crash, recover
        for k in ["\u{43a}\u{43b}\u{44e}\u{447}:1", "\u{e9}mile", "\u{65e5}\u{672c}:x", "\u{1F601}k", "\u{400}0", ""] {
            let cc = ChainCfg { stream: "chain_unicode_directed", random_cuts: 1, resume_full: true, ..BASE };
            run_chain(&mut ctx, &mut r, &cc, &[vec![Op::Put(k.into(), td("v1")), Op::Ckpt], vec![Op::Put("a".into(), td("x"))]]);
        }
        let all: Vec<Op> = (0..UNI_KEYS.len()).map(|i| Op::Put(u(i), blob(i as u64, 1))).collect();
        let eps_ckpt = vec![
            { let mut v = all.clone(); v.push(Op::Ckpt); v.push(Op::Put(u(1), td("after"))); v },
            vec![Op::Del(u(0)), Op::Put(u(5), td("v2")), Op::Put(u(9), tdv("e", 1.0, 3)), Op::Del(u(13)), Op::Ckpt, Op::Put(u(0), td("back")), Op::Del(u(10))],
            vec![Op::Del(u(5)), Op::Put(u(13), td("again")), Op::Del(u(16))],
        ];
        let eps_log = vec![all.clone(), vec![Op::Del(u(0)), Op::Put(u(5), td("v2")), Op::Ckpt, Op::Del(u(9))], vec![Op::Put(u(0), td("back"))]];
        for (mode, bloom) in [(SyncMode::Immediate, false), (SyncMode::Manual, false), (SyncMode::Batched { max_entries: 3 }, false), (SyncMode::Immediate, true)] {
            for (j, eps) in [&eps_ckpt, &eps_log].into_iter().enumerate() {
                if j == 1 && !th && (bloom || matches!(mode, SyncMode::Batched { .. })) {
                    continue;
                }
                let cc = ChainCfg { stream: "chain_unicode_directed", mode, random_cuts: 3, resume_full: mode == SyncMode::Immediate, bloom, ..BASE };
                run_chain(&mut ctx, &mut r, &cc, eps);
            }
        }
    }
    {
        let mut r = rng.fork("probes");
        // KNOWN FINDING tensor_store.wal.rotate/acked_entries_not_replayed: max_size_bytes=220, 14 Immediate
        // puts: acknowledged entries leave the file recovery reads
        let cc = ChainCfg { stream: "probe_rotation", mode: SyncMode::Immediate, max_size: Some(220), every_byte: false, random_cuts: 2, resume_full: false, compare_model: true, ..BASE };
        let eps = vec![(0..14).map(|i| Op::Put(format!("k{i}"), td("v"))).collect::<Vec<_>>()];
        run_chain(&mut ctx, &mut r, &cc, &eps);

        // regression cases of the FIXED classes (each of them violated the property before its fix)
        // bf541438 wal.open/append_after_torn_tail: torn tail, then acknowledged writes, then crash again
        let cc = ChainCfg { stream: "chain_directed", mode: SyncMode::Immediate, max_size: None, every_byte: true, random_cuts: 0, resume_full: false, compare_model: true, ..BASE };
        let eps = vec![
            vec![Op::Put("a".into(), td("v1")), Op::Put("emb:a".into(), tdv("e", 1.0, 3))],
            vec![Op::Put("b".into(), td("v2")), Op::Del("a".into())],
            vec![Op::Put("a".into(), td("v3"))],
        ];
        for _ in 0..(if th { 12 } else { 4 }) {
            run_chain(&mut ctx, &mut r, &cc, &eps);
        }
        // 197dc525 checkpoint/unsynced_tail_replayed_over_snapshot: checkpoint with an unsynced tail
        for mode in [SyncMode::Manual, SyncMode::Batched { max_entries: 5 }] {
            let cc = ChainCfg { stream: "probe_ckpt_unsynced", mode, max_size: None, every_byte: false, random_cuts: 2, resume_full: false, compare_model: true, ..BASE };
            let eps = vec![
                vec![Op::Put("k".into(), td("v1")), Op::Sync, Op::Put("k".into(), td("v2")), Op::Put("j".into(), td("w")), Op::Ckpt, Op::Put("k".into(), td("v3")), Op::Ckpt],
                vec![Op::Put("j".into(), td("w2")), Op::Ckpt, Op::Del("k".into())],
            ];
            run_chain(&mut ctx, &mut r, &cc, &eps);
        }
        // e374d74b recover/stale_entity_id_embedding: a later emb: key without vector read a stale embedding
        let cc = ChainCfg { stream: "probe_stale_entity_id", mode: SyncMode::Immediate, max_size: None, every_byte: false, random_cuts: 0, resume_full: true, compare_model: true, ..BASE };
        let eps = vec![
            vec![Op::Put("emb:a".into(), td("a")), Op::Put("emb:b".into(), tdv("b", 7.0, 384))],
            vec![Op::Put("emb:c".into(), td("c"))],
            vec![Op::Put("z".into(), td("z"))],
        ];
        run_chain(&mut ctx, &mut r, &cc, &eps);
        // e374d74b, other half: an emb: key overwritten with a value that carries no (usable) vector must not
        // keep returning its previous embedding, live and after recovery
        let eps = vec![
            vec![Op::Put("emb:b".into(), tdv("b", 7.0, 384)), Op::Put("emb:b".into(), td("b2")), Op::Put("emb:d".into(), tdv("d", 1.0, 384)), Op::Put("emb:d".into(), tdv("d2", 2.0, 3))],
            vec![Op::Put("emb:b".into(), tdv("b3", 3.0, 384)), Op::Put("emb:b".into(), tdv("b4", 4.0, 0))],
            vec![Op::Put("z".into(), td("z"))],
        ];
        run_chain(&mut ctx, &mut r, &cc, &eps);
        // 6b9ec7ce put_durable/embedding_record_replayed_without_its_metadata_record: a put on an existing
        // emb: key is two records (EmbeddingSet, MetadataSet): cut between them
        let cc = ChainCfg { stream: "probe_torn_put", mode: SyncMode::Immediate, max_size: None, every_byte: false, random_cuts: 0, resume_full: true, compare_model: true, ..BASE };
        let eps = vec![vec![Op::Put("emb:a".into(), tdv("one", 1.0, 384)), Op::Put("emb:a".into(), tdv("two", 2.0, 384))]];
        run_chain(&mut ctx, &mut r, &cc, &eps);
        // 6b9ec7ce recover/logged_entity_id_belongs_to_another_key: a non-emb: key that carried a vector kept
        // its index entry on delete (live) but lost it on replay, so the writer's ids and replay's differed
        // (since "only emb: keys get an entity-index entry" such a key has no id at all; the case stays)
        let cc = ChainCfg { stream: "probe_index_divergence", mode: SyncMode::Immediate, max_size: None, every_byte: false, random_cuts: 0, resume_full: true, compare_model: true, ..BASE };
        let eps = vec![vec![
            Op::Put("a".into(), tdv("one", 1.0, 384)),
            Op::Del("a".into()),
            Op::Put("a".into(), tdv("two", 2.0, 384)),
            Op::Put("emb:y".into(), tdv("y", 3.0, 384)),
            Op::Put("emb:z".into(), tdv("z", 4.0, 384)),
        ]];
        run_chain(&mut ctx, &mut r, &cc, &eps);
        // same shifted ids, then delete_durable of an emb: key: its EmbeddingDelete carries the writer's id,
        // which on replay is the id of emb:y (harmless: get falls back to the metadata slab)
        let cc = ChainCfg { stream: "probe_index_divergence_delete", mode: SyncMode::Immediate, max_size: None, every_byte: false, random_cuts: 0, resume_full: true, compare_model: true, ..BASE };
        let eps = vec![
            vec![
                Op::Put("a".into(), tdv("one", 1.0, 384)),
                Op::Del("a".into()),
                Op::Put("a".into(), tdv("two", 2.0, 384)),
                Op::Put("emb:y".into(), tdv("y", 3.0, 384)),
                Op::Put("emb:z".into(), tdv("z", 4.0, 384)),
                Op::Del("emb:z".into()),
            ],
            vec![Op::Put("emb:w".into(), tdv("w", 5.0, 384)), Op::Del("emb:y".into())],
            vec![Op::Put("z".into(), td("z"))],
        ];
        run_chain(&mut ctx, &mut r, &cc, &eps);
        // "only emb: keys get an entity-index entry" (put_durable / apply_wal_entry):
        // put_durable/non_emb_key_with_vector_stays_in_scan_after_delete. Directed oracle first, then the same
        // shape through crash chains (every cut; checkpoints; Batched, where the acknowledged prefix depends
        // on the number of records each put logs)
        probe_non_emb_vector_key(&mut ctx);
        let eps = vec![
            vec![
                Op::Put("a".into(), tdv("one", 1.0, 384)),
                Op::Del("a".into()),
                Op::Put("a".into(), tdv("two", 2.0, 3)),
                Op::Put("emb:y".into(), tdv("y", 3.0, 384)),
                Op::Del("a".into()),
                Op::Put("user:1".into(), tdv("u", 4.0, 2)),
            ],
            vec![Op::Del("user:1".into()), Op::Put("emb:z".into(), tdv("z", 5.0, 384)), Op::Put("a".into(), tdv("three", 6.0, 384)), Op::Del("emb:y".into())],
            vec![Op::Del("a".into()), Op::Put("b".into(), td("b"))],
        ];
        let cc = ChainCfg { stream: "probe_non_emb_vector_chain", mode: SyncMode::Immediate, max_size: None, every_byte: false, random_cuts: 4, resume_full: true, compare_model: true, ..BASE };
        run_chain(&mut ctx, &mut r, &cc, &eps);
        let eps = vec![
            vec![
                Op::Put("a".into(), tdv("one", 1.0, 3)),
                Op::Put("user:1".into(), tdv("u", 4.0, 2)),
                Op::Put("emb:y".into(), tdv("y", 3.0, 3)),
                Op::Del("a".into()),
                Op::Put("b".into(), td("b")),
                Op::Sync,
                Op::Put("a".into(), tdv("two", 2.0, 3)),
                Op::Ckpt,
                Op::Del("user:1".into()),
                Op::Put("node:1".into(), tdv("n", 7.0, 3)),
                Op::Del("a".into()),
            ],
            vec![Op::Put("a".into(), tdv("three", 6.0, 3)), Op::Del("node:1".into()), Op::Put("emb:z".into(), tdv("z", 5.0, 3)), Op::Ckpt, Op::Del("a".into())],
        ];
        for mode in [SyncMode::Batched { max_entries: 2 }, SyncMode::Batched { max_entries: 3 }, SyncMode::Manual] {
            let cc = ChainCfg { stream: "probe_non_emb_vector_chain", mode, max_size: None, every_byte: false, random_cuts: 4, resume_full: false, compare_model: true, ..BASE };
            run_chain(&mut ctx, &mut r, &cc, &eps);
        }
        // 384-dim embeddings (tensor-train compressed in the snapshot: within tolerance, not bit-exact)
        // through checkpoints, overwritten and deleted afterwards
        let cc = ChainCfg { stream: "probe_ckpt_emb384", mode: SyncMode::Immediate, max_size: None, every_byte: false, random_cuts: 0, resume_full: true, compare_model: true, ..BASE };
        let eps = vec![
            vec![Op::Put("emb:b".into(), tdv("b", 7.0, 384)), Op::Put("emb:c".into(), tdv("c", 2.0, 384)), Op::Ckpt],
            vec![Op::Put("z".into(), td("z")), Op::Put("emb:c".into(), tdv("c2", 3.0, 384)), Op::Ckpt, Op::Del("emb:b".into())],
            vec![Op::Put("emb:d".into(), td("d"))],
        ];
        run_chain(&mut ctx, &mut r, &cc, &eps);
    }

    {
        let mut r = rng.fork("probes2");
        // Bloom-filtered store (`open_durable_with_bloom`, `recover_with_bloom`): `get`/`exists` answer NotFound for
        // a key the filter was not given; recovery rebuilds the filter from scan(""), put_durable adds its key.
        // Every crash state is recovered WITH a filter; a recovered key the filter hides shows up as a key scan
        // lists and get rejects (model: BStore, filter without false positives)
        let eps = vec![
            vec![Op::Put("a".into(), td("v1")), Op::Put("emb:a".into(), tdv("e", 1.0, 384)), Op::Put("emb:b".into(), tdv("b", 2.0, 3)), Op::Del("a".into()), Op::Put("node:1".into(), td("n"))],
            vec![Op::Put("b".into(), td("v2")), Op::Del("emb:a".into()), Op::Ckpt, Op::Put("emb:c".into(), td("c")), Op::Put("_cache:x".into(), td("x"))],
            vec![Op::Put("a".into(), td("v3")), Op::Del("emb:b".into())],
        ];
        for resume_full in [true, false] {
            let cc = ChainCfg { stream: "probe_bloom", mode: SyncMode::Immediate, random_cuts: 3, resume_full, bloom: true, ..BASE };
            run_chain(&mut ctx, &mut r, &cc, &eps);
        }
        // several rotations in a row (max_rotated_files = 2: the third one deletes the oldest segment, every one
        // shifts .1 -> .2): the directory after every file-system call of each `rotate` is recovered for real
        let cc = ChainCfg { stream: "probe_rotation_steps", mode: SyncMode::Immediate, max_size: Some(220), random_cuts: 1, ..BASE };
        let eps = vec![(0..46).map(|i| Op::Put(format!("r{i}"), td("v"))).collect::<Vec<_>>()];
        run_chain(&mut ctx, &mut r, &cc, &eps);
        // checksums disabled (every record carries checksum 0 = unchecked) / not verified on replay
        let eps = vec![
            vec![Op::Put("k".into(), td("v1")), Op::Put("emb:a".into(), tdv("e", 1.0, 3)), Op::Del("k".into())],
            vec![Op::Put("j".into(), td("w")), Op::Ckpt, Op::Put("k".into(), td("v2"))],
        ];
        let cc = ChainCfg { stream: "probe_no_checksums", mode: SyncMode::Immediate, every_byte: th, random_cuts: 4, checksums: false, ..BASE };
        run_chain(&mut ctx, &mut r, &cc, &eps);
        let cc = ChainCfg { stream: "probe_no_verify", mode: SyncMode::Immediate, random_cuts: 4, verify: false, ..BASE };
        run_chain(&mut ctx, &mut r, &cc, &eps);
        // auto_rotate = false: a record that does not fit max_size_bytes is refused (SizeLimitExceeded) and the
        // operation returns an error before the in-memory apply. Three small puts, then a put of a new emb: key with
        // a 64-dim vector that does not fit (the entity id it was given is released again, repo f5ce42e5: class
        // FAILED_PUT_GHOST; the id stays consumed, so emb:big below gets a higher one), a checkpoint (empties the
        // log), a delete of the key that is not there, more writes
        let eps = vec![
            vec![Op::Put("k0".into(), td("vvvvvvvvvvvvvvvv")), Op::Put("k1".into(), td("vvvvvvvvvvvvvvvv")), Op::Put("k2".into(), td("vvvvvvvvvvvvvvvv")), Op::Put("emb:new".into(), tdv("x", 1.0, 64)), Op::Put("j".into(), td("w")), Op::Ckpt],
            vec![Op::Del("emb:new".into()), Op::Put("a".into(), td("v")), Op::Put("emb:new".into(), tdv("y", 2.0, 3)), Op::Put("emb:big".into(), tdv("z", 3.0, 64))],
            vec![Op::Put("b".into(), td("v2"))],
        ];
        let cc = ChainCfg { stream: "probe_size_limit", mode: SyncMode::Immediate, max_size: Some(200), random_cuts: 4, resume_full: true, no_rotate: true, ..BASE };
        run_chain(&mut ctx, &mut r, &cc, &eps);
        // the same through crash chains and against the model (f5ce42e5; `failMem`): (1) the EmbeddingSet record of
        // the refused put fits and its MetadataSet record does not (an orphan EmbeddingSet stays in the log);
        // (2) the key of the refused put is already indexed (nothing to release); (3) the id given to the refused
        // put stays consumed: the next new emb: keys of the same session get ids 1 and 2 (compared record by record)
        {
            let small = td("vvvvvvvvvvvvvvvv");
            let set_size = |k: &str, d: &TensorData| record_size("set", k, Some(d)) as u64;
            let eset64 = record_size(&format!("eset:0:{}", hex(&f32s_bytes(&(0..64).map(|i| 1.0 + (i % 5) as f32 * 0.37).collect::<Vec<f32>>()))), "emb:new", None) as u64;
            let eset3 = record_size(&format!("eset:0:{}", hex(&f32s_bytes(&[2.0, 2.37, 2.74]))), "emb:new", None) as u64;
            // (1)
            let pre: u64 = (0..3).map(|i| set_size(&format!("k{i}"), &small)).sum();
            let eps = vec![
                vec![Op::Put("k0".into(), small.clone()), Op::Put("k1".into(), small.clone()), Op::Put("k2".into(), small.clone()), Op::Put("emb:new".into(), tdv("x", 1.0, 64)), Op::Ckpt],
                vec![Op::Del("emb:new".into()), Op::Put("emb:new".into(), tdv("y", 2.0, 3)), Op::Put("emb:z".into(), tdv("z", 3.0, 3)), Op::Put("emb:big".into(), tdv("b", 3.0, 64))],
                vec![Op::Put("b".into(), td("v2"))],
            ];
            let cc = ChainCfg { stream: "probe_size_limit", mode: SyncMode::Immediate, max_size: Some(pre + eset64 + 40), random_cuts: 4, resume_full: true, no_rotate: true, ..BASE };
            run_chain(&mut ctx, &mut r, &cc, &eps);
            // the same without the checkpoint: the crash leaves the orphan EmbeddingSet record in the log
            let eps = vec![
                vec![Op::Put("k0".into(), small.clone()), Op::Put("k1".into(), small.clone()), Op::Put("k2".into(), small.clone()), Op::Put("emb:new".into(), tdv("x", 1.0, 64)), Op::Put("j".into(), td("w"))],
                vec![Op::Put("emb:new".into(), td("z"))],
            ];
            let cc = ChainCfg { stream: "probe_size_limit", mode: SyncMode::Immediate, max_size: Some(pre + eset64 + 40), random_cuts: 4, no_rotate: true, ..BASE };
            run_chain(&mut ctx, &mut r, &cc, &eps);
            // (2)
            let old = tdv("old", 2.0, 3);
            let pre = set_size("k0", &small) + eset3 + set_size("emb:new", &old);
            let eps = vec![
                vec![Op::Put("k0".into(), small.clone()), Op::Put("emb:new".into(), old.clone()), Op::Put("emb:new".into(), tdv("x", 1.0, 64)), Op::Ckpt, Op::Put("emb:q".into(), tdv("q", 4.0, 3))],
                vec![Op::Del("emb:new".into()), Op::Put("emb:r".into(), tdv("r", 5.0, 3))],
            ];
            let cc = ChainCfg { stream: "probe_size_limit", mode: SyncMode::Immediate, max_size: Some(pre + 100), random_cuts: 4, resume_full: true, no_rotate: true, ..BASE };
            run_chain(&mut ctx, &mut r, &cc, &eps);
            // (3)
            let eps = vec![
                vec![Op::Put("emb:big".into(), tdv("x", 1.0, 64)), Op::Put("emb:a".into(), tdv("a", 2.0, 3)), Op::Put("emb:b".into(), tdv("b", 3.0, 3)), Op::Del("emb:a".into()), Op::Put("emb:big".into(), tdv("x", 1.0, 64))],
                vec![Op::Put("emb:c".into(), tdv("c", 4.0, 3)), Op::Put("emb:big".into(), tdv("x", 1.0, 64)), Op::Put("emb:d".into(), tdv("d", 5.0, 3))],
            ];
            let cc = ChainCfg { stream: "probe_size_limit", mode: SyncMode::Immediate, max_size: Some(eset64 - 4), random_cuts: 4, no_rotate: true, ..BASE };
            run_chain(&mut ctx, &mut r, &cc, &eps);
        }
        // a delete refused in the middle of its records (EmbeddingDelete + EntityRemove fit, MetadataDelete does not):
        // first with the limit computed from the real record sizes, then over a range of limits
        {
            let ea = tdv("e", 1.0, 3);
            let kv = td("0123456789");
            let pre = record_size(&format!("eset:0:{}", hex(&f32s_bytes(&[1.0, 1.37, 1.74]))), "emb:a", None) + record_size("set", "emb:a", Some(&ea)) + record_size("set", "k", Some(&kv));
            let two = record_size("edel:0", "emb:a", None) + record_size("eremove:-", "emb:a", None);
            let eps = vec![
                vec![Op::Put("emb:a".into(), ea.clone()), Op::Put("k".into(), kv.clone()), Op::Del("emb:a".into()), Op::Del("k".into())],
                vec![Op::Del("emb:a".into()), Op::Put("q".into(), td("r"))],
            ];
            let cc = ChainCfg { stream: "probe_size_limit", mode: SyncMode::Immediate, max_size: Some((pre + two + 4) as u64), every_byte: th, random_cuts: 3, no_rotate: true, ..BASE };
            run_chain(&mut ctx, &mut r, &cc, &eps);
        }
        let eps = vec![
            vec![Op::Put("emb:a".into(), tdv("e", 1.0, 3)), Op::Put("k".into(), td("0123456789")), Op::Del("emb:a".into()), Op::Del("k".into()), Op::Put("emb:a".into(), td("z"))],
            vec![Op::Del("emb:a".into()), Op::Put("q".into(), td("r"))],
        ];
        let maxes: &[u64] = if th { &[150, 160, 170, 180, 190, 200, 215, 230] } else { &[160, 180, 200, 230] };
        for &max in maxes {
            let cc = ChainCfg { stream: "probe_size_limit", mode: SyncMode::Immediate, max_size: Some(max), every_byte: th, random_cuts: 3, no_rotate: true, ..BASE };
            run_chain(&mut ctx, &mut r, &cc, &eps);
        }
    }

    // 1. crc + frames
    let mut r = rng.fork("crc");
    stream_crc(&mut ctx, &mut r, if th { 2000 } else { 300 });
    let mut r = rng.fork("frames");
    stream_frames(&mut ctx, &mut r, if th { 1400 } else { 210 });

    // 2. random crash chains, Immediate
    {
        let mut r = rng.fork("chain_immediate");
        let n = if th { 80 } else { 24 };
        for i in 0..n {
            let cc = ChainCfg { stream: "chain_immediate", mode: SyncMode::Immediate, max_size: None, every_byte: th && i % 3 == 0, random_cuts: if th { 64 } else { 16 }, resume_full: false, compare_model: true, ..BASE };
            let ne = 1 + r.below(3) as usize;
            let eps: Vec<Vec<Op>> = (0..ne + 1).map(|_| { let n = 1 + r.below(7) as usize; gen_ops(&mut r, n, EmbPolicy::No384, false, false, &mut ctx.rep) }).collect();
            run_chain(&mut ctx, &mut r, &cc, &eps);
        }
    }
    // 3. chains with checkpoints (Immediate); every other chain also stores 384-dim vectors
    {
        let mut r = rng.fork("chain_ckpt");
        let n = if th { 60 } else { 20 };
        for i in 0..n {
            let cc = ChainCfg { stream: "chain_checkpoint", mode: SyncMode::Immediate, max_size: None, every_byte: false, random_cuts: if th { 32 } else { 6 }, resume_full: false, compare_model: true, ..BASE };
            let ne = 2 + r.below(2) as usize;
            let pol = if i % 2 == 0 { EmbPolicy::No384 } else { EmbPolicy::Any };
            let eps: Vec<Vec<Op>> = (0..ne)
                .map(|_| {
                    let n = 1 + r.below(6) as usize;
                    let mut v = gen_ops(&mut r, n, pol, false, true, &mut ctx.rep);
                    if r.chance(1, 2) {
                        v.push(Op::Ckpt);
                    }
                    v
                })
                .collect();
            run_chain(&mut ctx, &mut r, &cc, &eps);
        }
    }
    // 4. Batched / Manual (acknowledged = covered by a sync or a checkpoint); checkpoints anywhere,
    //    also over an unsynced tail
    {
        let mut r = rng.fork("chain_sync_modes");
        let n = if th { 72 } else { 24 };
        for i in 0..n {
            let mode = if i % 2 == 0 { SyncMode::Manual } else { SyncMode::Batched { max_entries: 2 + (i % 3) } };
            let cc = ChainCfg { stream: if i % 2 == 0 { "chain_manual" } else { "chain_batched" }, mode, max_size: None, every_byte: false, random_cuts: if th { 32 } else { 8 }, resume_full: false, compare_model: true, ..BASE };
            let ne = 2 + r.below(2) as usize;
            let pol = if i % 4 < 2 { EmbPolicy::No384 } else { EmbPolicy::Any };
            let eps: Vec<Vec<Op>> = (0..ne).map(|_| {
                let n = 2 + r.below(7) as usize;
                let mut v = gen_ops(&mut r, n, pol, true, true, &mut ctx.rep);
                if r.chance(1, 3) { v.push(Op::Ckpt); }
                v
            }).collect();
            run_chain(&mut ctx, &mut r, &cc, &eps);
        }
    }
    // 5. 384-dimensional embeddings (slab + entity index), no checkpoint; vectors also on non-emb: keys
    {
        let mut r = rng.fork("chain_emb384");
        let n = if th { 40 } else { 10 };
        for _ in 0..n {
            let cc = ChainCfg { stream: "chain_emb384", mode: SyncMode::Immediate, max_size: None, every_byte: false, random_cuts: 4, resume_full: false, compare_model: true, ..BASE };
            let eps: Vec<Vec<Op>> = (0..2).map(|_| { let n = 1 + r.below(6) as usize; gen_ops(&mut r, n, EmbPolicy::Any, false, false, &mut ctx.rep) }).collect();
            run_chain(&mut ctx, &mut r, &cc, &eps);
        }
    }

    // 6. the entity-index / embedding-slab overlay under checkpoints: few emb: keys, mostly 384-dim vectors,
    //    deletes, re-puts, checkpoints anywhere (old log replayed over a newer snapshot at the marker cuts)
    {
        let mut r = rng.fork("chain_overlay");
        let n = if th { 60 } else { 16 };
        for i in 0..n {
            let mode = match i % 4 { 0 | 1 => SyncMode::Immediate, 2 => SyncMode::Manual, _ => SyncMode::Batched { max_entries: 3 } };
            let cc = ChainCfg { stream: "chain_overlay", mode, max_size: None, every_byte: false, random_cuts: if th { 16 } else { 4 }, resume_full: false, compare_model: true, ..BASE };
            let ne = 2 + r.below(2) as usize;
            let eps: Vec<Vec<Op>> = (0..ne).map(|_| {
                let n = 3 + r.below(7) as usize;
                let mut v = gen_ops_keys(&mut r, n, OVERLAY_KEYS, EmbPolicy::Any, mode != SyncMode::Immediate, true, &mut ctx.rep);
                if r.chance(1, 2) { v.push(Op::Ckpt); }
                v
            }).collect();
            run_chain(&mut ctx, &mut r, &cc, &eps);
        }
    }


    // 7. Bloom-filtered stores through random crash chains (all modes, checkpoints)
    {
        let mut r = rng.fork("chain_bloom");
        let n = if th { 36 } else { 8 };
        for i in 0..n {
            let mode = match i % 4 { 0 | 1 => SyncMode::Immediate, 2 => SyncMode::Manual, _ => SyncMode::Batched { max_entries: 2 } };
            let cc = ChainCfg { stream: "chain_bloom", mode, random_cuts: if th { 12 } else { 4 }, bloom: true, ..BASE };
            let ne = 2 + r.below(2) as usize;
            let pol = if i % 2 == 0 { EmbPolicy::No384 } else { EmbPolicy::Any };
            let eps: Vec<Vec<Op>> = (0..ne).map(|_| {
                let n = 2 + r.below(6) as usize;
                let mut v = gen_ops(&mut r, n, pol, mode != SyncMode::Immediate, true, &mut ctx.rep);
                if r.chance(1, 3) { v.push(Op::Ckpt); }
                v
            }).collect();
            run_chain(&mut ctx, &mut r, &cc, &eps);
        }
    }
    // 8. configurations: checksums off, replay without verification, Batched with max_entries 0 and 1
    {
        let mut r = rng.fork("chain_configs");
        let n = if th { 36 } else { 9 };
        for i in 0..n {
            let (stream, mode, checksums, verify) = match i % 3 {
                0 => ("chain_no_checksums", SyncMode::Immediate, false, true),
                1 => ("chain_no_verify", if i % 2 == 0 { SyncMode::Manual } else { SyncMode::Immediate }, true, false),
                _ => ("chain_batched01", SyncMode::Batched { max_entries: (i / 3) % 2 }, true, true),
            };
            let cc = ChainCfg { stream, mode, random_cuts: if th { 16 } else { 5 }, checksums, verify, ..BASE };
            let ne = 2 + r.below(2) as usize;
            let eps: Vec<Vec<Op>> = (0..ne).map(|_| {
                let n = 2 + r.below(6) as usize;
                let mut v = gen_ops(&mut r, n, EmbPolicy::No384, mode != SyncMode::Immediate, true, &mut ctx.rep);
                if r.chance(1, 3) { v.push(Op::Ckpt); }
                v
            }).collect();
            run_chain(&mut ctx, &mut r, &cc, &eps);
        }
    }

    // 9. auto_rotate = false: random chains under random size limits (refused appends anywhere in an operation)
    {
        let mut r = rng.fork("chain_size_limit");
        let n = if th { 48 } else { 10 };
        for i in 0..n {
            let max = 80 + r.below(360);
            let cc = ChainCfg { stream: "chain_size_limit", mode: SyncMode::Immediate, max_size: Some(max), random_cuts: if th { 16 } else { 5 }, no_rotate: true, bloom: i % 5 == 4, ..BASE };
            let ne = 1 + r.below(3) as usize;
            let eps: Vec<Vec<Op>> = (0..ne).map(|_| {
                let n = 2 + r.below(7) as usize;
                if i % 2 == 0 { gen_ops_keys(&mut r, n, OVERLAY_KEYS, EmbPolicy::No384, false, false, &mut ctx.rep) } else { gen_ops(&mut r, n, EmbPolicy::No384, false, false, &mut ctx.rep) }
            }).collect();
            run_chain(&mut ctx, &mut r, &cc, &eps);
        }
    }

    // 9b. the non-ASCII key alphabet through random crash chains: every session likely checkpoints AFTER its writes
    //     (the keys live in the snapshot when the crash comes), all sync modes, Bloom filter now and then
    {
        let mut r = rng.fork("chain_unicode");
        let n = if th { 60 } else { 12 };
        for i in 0..n {
            let mode = match i % 4 { 0 | 1 => SyncMode::Immediate, 2 => SyncMode::Manual, _ => SyncMode::Batched { max_entries: 2 + (i % 3) } };
            let cc = ChainCfg { stream: "chain_unicode", mode, random_cuts: if th { 12 } else { 3 }, bloom: i % 5 == 4, ..BASE };
            let ne = 2 + r.below(2) as usize;
            let eps: Vec<Vec<Op>> = (0..ne).map(|_| {
                let n = 2 + r.below(7) as usize;
                let mut v = gen_ops_keys(&mut r, n, UNI_KEYS, EmbPolicy::No384, mode != SyncMode::Immediate, true, &mut ctx.rep);
                if r.chance(2, 3) { v.push(Op::Ckpt); }
                if r.chance(1, 2) {
                    let k = r.pick(UNI_KEYS).to_string();
                    v.push(if r.chance(2, 3) { Op::Put(k, td("tail")) } else { Op::Del(k) });
                }
                v
            }).collect();
            run_chain(&mut ctx, &mut r, &cc, &eps);
        }
    }

    // 10. checkpoints on real files: sessions that grow and shrink the store and end at every step boundary of a
    //     checkpoint, temp files left behind included; further checkpoints and recoveries on the same paths
    {
        let t0 = std::time::Instant::now();
        let mut r = rng.fork("chain_ckpt_fs");
        let n = if th { 40 } else { 8 };
        for _ in 0..n {
            let sessions = gen_fs_sessions(&mut r);
            fs_chain_reported(&mut ctx, "chain_ckpt_fs", &sessions, true);
        }
        t_fs += t0.elapsed();
    }
    ctx.rep.note(&format!("the ckpt_fs streams took {:.1} s of the {:.1} s of this run (wall)", t_fs.as_secs_f64(), t_start.elapsed().as_secs_f64()));

    let mre = ctx.max_rel_err;
    ctx.rep.note(&format!("embeddings of dimension >= {TT_MIN_DIM} that came back through a checkpoint snapshot are compared within relative L2 error {TT_REL_TOL} (tensor-train snapshot format, lossy by design, property C07); largest error seen {mre:.3e}; everything else is compared bit-exact"));
    ctx.rep.note("crash model: the log file keeps any byte prefix >= the synced length (Immediate: every returned operation is synced); snapshot file replaced atomically (temp + rename); directory-entry durability and media corruption are not modelled");
    ctx.rep.note("ckpt_fs streams: the snapshot file and the temp file `snap.bin.tmp` are state (model: CkptFs.lean); the crash states inside the snapshot step are built from the image a reference save of the same store writes (temp file = a byte prefix of it, old snapshot and whole log in place), the ones after the rename from the files the REAL checkpoint left; every one is a real directory that is recovered for real, the chain continues on the same paths with the leftover temp file in place, and every LATER checkpoint is the real one, judged by: it returns Ok, the file it installed loads as the running store, carries nothing of the stale temp file, no temp file is left, recovery afterwards gives exactly the acknowledged writes");
    ctx.rep.note("checkpoint crash states are reconstructed from the files before/after the real checkpoint call (snapshot file after, log before, marker record re-encoded with the real bitcode + crc32fast); no hook in /repo needed");
    ctx.rep.note("out of scope here, noted for C11: put_durable applies to memory after releasing the log mutex, so concurrent writers can apply in a different order than they are logged");
    let lines = ctx.m.lines;
    ctx.rep.note(&format!("model driver answered {lines} lines"));
    ctx.rep.write(&args.out);
}
