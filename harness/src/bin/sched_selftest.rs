//! Self-test of the deterministic scheduler: two threads doing read-modify-write on one key
//! through the real TensorStore; a scripted interleaving must produce the lost update, and the
//! serial schedule must not.
use nverif::sched::run_threads;
use std::sync::Arc;
use tensor_store::{ScalarValue, TensorData, TensorStore, TensorValue};

fn rmw(store: &TensorStore) {
    let cur = store
        .get("k")
        .ok()
        .and_then(|d| match d.get("n") {
            Some(TensorValue::Scalar(ScalarValue::Int(i))) => Some(*i),
            _ => None,
        })
        .unwrap_or(0);
    let mut d = TensorData::new();
    d.set("n", TensorValue::Scalar(ScalarValue::Int(cur + 1)));
    store.put("k", d).unwrap();
}

fn run(script: &[usize]) -> i64 {
    let store = Arc::new(TensorStore::new());
    let tasks: Vec<Box<dyn FnOnce() + Send>> = (0..2)
        .map(|_| {
            let s = store.clone();
            Box::new(move || rmw(&s)) as Box<dyn FnOnce() + Send>
        })
        .collect();
    let sc = script.to_vec();
    let trace = run_threads(tasks, move |i, parked| {
        let want = sc.get(i).copied().unwrap_or(0);
        parked.iter().position(|p| p.0 == want).unwrap_or(0)
    });
    eprintln!("{:?}", trace.iter().map(|s| (s.thread, s.site)).collect::<Vec<_>>());
    match store.get("k").unwrap().get("n") {
        Some(TensorValue::Scalar(ScalarValue::Int(i))) => *i,
        _ => -1,
    }
}

fn main() {
    // each thread parks at: thread.start, store.get, store.put
    let serial = run(&[0, 0, 0, 1, 1, 1]);
    let racy = run(&[0, 1, 0, 1, 0, 1]);
    println!("serial={serial} racy={racy}");
    assert_eq!(serial, 2);
    assert_eq!(racy, 1);
    println!("sched selftest ok");
}
