//! C18 correspondence: real `graph_engine` path queries vs the Lean `Paths` model, plus
//! harness-side reference implementations (plain BFS, Bellman-Ford, bounded enumeration, union-find,
//! Kruskal, core peeling, brute-force triangles / SCC / articulation points) used as oracles on the
//! engine's own answers.
//!
//! Direction semantics used by the oracles (docs/book/src/architecture/graph-engine.md, "Direction
//! Enum" + "Undirected Edge Implementation"): a directed edge a->b can be followed a->b only, except
//! by APIs that take a `Direction`: `Incoming` follows it b->a, `Both` either way. An undirected edge
//! can be followed either way under every direction.
use std::collections::{BTreeMap, BTreeSet, HashMap, VecDeque};

use graph_engine::{
    AStarConfig, AllPathsConfig, BiconnectedConfig, CommunityConfig, CompareOp, Direction, GraphEngine,
    GraphError, KCoreConfig, MstConfig, PropertyValue, SccConfig, TraversalFilter, TriangleConfig,
    VariableLengthConfig,
};
use nverif::*;
use serde_json::{json, Value};

// ------------------------------------------------------------------ graph description

#[derive(Clone, Debug)]
struct GE {
    id: u64,
    src: u64,
    dst: u64,
    directed: bool,
    etype: u8,
    w: Option<i64>,
    #[allow(dead_code)]
    w_float: bool,
    p: Option<i64>,
}

#[derive(Clone, Debug, Default)]
struct GG {
    nodes: Vec<(u64, Option<i64>)>,
    edges: Vec<GE>,
}

impl GG {
    fn has(&self, n: u64) -> bool {
        self.nodes.iter().any(|x| x.0 == n)
    }
    fn node_prop(&self, n: u64) -> Option<Option<i64>> {
        self.nodes.iter().find(|x| x.0 == n).map(|x| x.1)
    }
    fn edge(&self, id: u64) -> Option<&GE> {
        self.edges.iter().find(|e| e.id == id)
    }
    fn to_json(&self) -> Value {
        json!({
            "nodes": self.nodes.iter().map(|(i, p)| json!([i, p])).collect::<Vec<_>>(),
            "edges": self.edges.iter().map(|e| json!({"id": e.id, "from": e.src, "to": e.dst, "directed": e.directed,
                "type": e.etype, "w": e.w, "p": e.p})).collect::<Vec<_>>(),
        })
    }
}

fn opt(v: Option<i64>) -> String {
    v.map_or("-".to_string(), |x| x.to_string())
}

fn ids(v: &[u64]) -> String {
    if v.is_empty() {
        "-".into()
    } else {
        v.iter().map(|x| x.to_string()).collect::<Vec<_>>().join(",")
    }
}

fn dots(v: &[u64]) -> String {
    v.iter().map(|x| x.to_string()).collect::<Vec<_>>().join(".")
}

// ------------------------------------------------------------------ filters

#[derive(Clone, Copy, Debug, PartialEq)]
enum Op {
    Eq,
    Ne,
    Lt,
    Le,
    Gt,
    Ge,
}
const OPS: [Op; 6] = [Op::Eq, Op::Ne, Op::Lt, Op::Le, Op::Gt, Op::Ge];

impl Op {
    fn name(self) -> &'static str {
        match self {
            Op::Eq => "eq",
            Op::Ne => "ne",
            Op::Lt => "lt",
            Op::Le => "le",
            Op::Gt => "gt",
            Op::Ge => "ge",
        }
    }
    fn real(self) -> CompareOp {
        match self {
            Op::Eq => CompareOp::Eq,
            Op::Ne => CompareOp::Ne,
            Op::Lt => CompareOp::Lt,
            Op::Le => CompareOp::Le,
            Op::Gt => CompareOp::Gt,
            Op::Ge => CompareOp::Ge,
        }
    }
    /// independent reading of the documented condition semantics (missing property: only != holds)
    fn eval(self, have: Option<i64>, v: i64) -> bool {
        match have {
            None => self == Op::Ne,
            Some(a) => match self {
                Op::Eq => a == v,
                Op::Ne => a != v,
                Op::Lt => a < v,
                Op::Le => a <= v,
                Op::Gt => a > v,
                Op::Ge => a >= v,
            },
        }
    }
}

#[derive(Clone, Debug, Default)]
struct Filt {
    node: Vec<(Op, i64)>,
    edge: Vec<(Op, i64)>,
}

impl Filt {
    fn is_none(&self) -> bool {
        self.node.is_empty() && self.edge.is_empty()
    }
    fn conds(c: &[(Op, i64)]) -> String {
        if c.is_empty() {
            "-".into()
        } else {
            c.iter().map(|(o, v)| format!("{}:{}", o.name(), v)).collect::<Vec<_>>().join(",")
        }
    }
    fn real(&self) -> Option<TraversalFilter> {
        if self.is_none() {
            return None;
        }
        let mut f = TraversalFilter::new();
        for (o, v) in &self.node {
            f = f.node_where("c", o.real(), PropertyValue::Int(*v));
        }
        for (o, v) in &self.edge {
            f = f.edge_where("p", o.real(), PropertyValue::Int(*v));
        }
        Some(f)
    }
    fn node_ok(&self, g: &GG, n: u64) -> bool {
        match g.node_prop(n) {
            None => true,
            Some(p) => self.node.iter().all(|(o, v)| o.eval(p, *v)),
        }
    }
    fn edge_ok(&self, e: &GE) -> bool {
        self.edge.iter().all(|(o, v)| o.eval(e.p, *v))
    }
}

fn gen_filter(r: &mut Rng) -> Filt {
    let mut f = Filt::default();
    let kind = r.below(4);
    if kind == 0 || kind == 2 {
        for _ in 0..1 + r.below(2) {
            f.node.push((*r.pick(&OPS), r.range(0, 3)));
        }
    }
    if kind == 1 || kind == 2 || kind == 3 {
        for _ in 0..1 + r.below(2) {
            f.edge.push((*r.pick(&OPS), r.range(0, 3)));
        }
    }
    f
}

// ------------------------------------------------------------------ generation

#[derive(Clone, Copy, Debug, PartialEq)]
enum WProfile {
    Unit,
    Zeroish,
    Equal,
    Large,
    Mixed,
    Negative,
}

struct Planned {
    #[allow(dead_code)]
    n: usize,
    node_props: Vec<Option<i64>>,
    edges: Vec<(usize, usize, bool, u8, Option<i64>, bool, Option<i64>)>,
    del_edges: Vec<usize>,
    del_nodes: Vec<usize>,
    shape: &'static str,
    wprofile: WProfile,
}

fn gen_weight(r: &mut Rng, wp: WProfile) -> Option<i64> {
    match wp {
        WProfile::Unit => {
            if r.chance(1, 3) {
                None
            } else {
                Some(1)
            }
        }
        WProfile::Zeroish => Some(if r.chance(1, 2) { 0 } else { r.range(0, 2) }),
        WProfile::Equal => Some(5),
        WProfile::Large => Some(match r.below(4) {
            0 => 1i64 << 40,
            1 => (1i64 << 40) - r.range(0, 3),
            2 => r.range(1, 1 << 30),
            _ => r.range(1, 9),
        }),
        WProfile::Mixed => match r.below(8) {
            0 => None,
            1 => Some(0),
            2 => Some(1i64 << 36),
            _ => Some(r.range(0, 12)),
        },
        WProfile::Negative => {
            if r.chance(1, 6) {
                Some(-r.range(1, 4))
            } else {
                Some(r.range(0, 9))
            }
        }
    }
}

fn plan_graph(r: &mut Rng, size_class: u8, allow_negative: bool) -> Planned {
    let n = match size_class {
        0 => 1 + r.below(7) as usize,
        1 => 8 + r.below(13) as usize,
        _ => 21 + r.below(20) as usize,
    };
    let shapes = ["sparse", "dense", "chain", "clusters", "star", "ring", "grid"];
    let shape = *r.pick(&shapes);
    let dir_mode = r.below(4); // 0 all directed, 1 all undirected, 2/3 mixed
    let wprofile = if allow_negative {
        WProfile::Negative
    } else {
        *r.pick(&[WProfile::Unit, WProfile::Zeroish, WProfile::Equal, WProfile::Large, WProfile::Mixed, WProfile::Mixed])
    };
    let node_props = (0..n).map(|_| if r.chance(1, 5) { None } else { Some(r.range(0, 3)) }).collect();
    let mut pairs: Vec<(usize, usize)> = Vec::new();
    let rnd = |r: &mut Rng| r.below(n as u64) as usize;
    match shape {
        "sparse" => {
            for _ in 0..(n + r.below(n as u64 + 1) as usize) {
                pairs.push((rnd(r), rnd(r)));
            }
        }
        "dense" => {
            let m = (n * n / 3).clamp(1, 160);
            for _ in 0..m {
                pairs.push((rnd(r), rnd(r)));
            }
        }
        "chain" => {
            for i in 0..n.saturating_sub(1) {
                pairs.push((i, i + 1));
            }
            for _ in 0..r.below(4) {
                pairs.push((rnd(r), rnd(r)));
            }
        }
        "clusters" => {
            let k = 2 + r.below(3) as usize;
            for _ in 0..(2 * n) {
                let c = r.below(k as u64) as usize;
                let members: Vec<usize> = (0..n).filter(|i| i % k == c).collect();
                if members.len() >= 2 {
                    pairs.push((*r.pick(&members), *r.pick(&members)));
                }
            }
        }
        "star" => {
            let hub = rnd(r);
            for i in 0..n {
                if i != hub {
                    pairs.push(if r.chance(1, 2) { (hub, i) } else { (i, hub) });
                }
            }
            for _ in 0..r.below(5) {
                pairs.push((rnd(r), rnd(r)));
            }
        }
        "ring" => {
            for i in 0..n {
                pairs.push((i, (i + 1) % n));
            }
            for _ in 0..r.below(4) {
                pairs.push((rnd(r), rnd(r)));
            }
        }
        _ => {
            let wdt = ((n as f64).sqrt() as usize).max(1);
            for i in 0..n {
                if (i + 1) % wdt != 0 && i + 1 < n {
                    pairs.push((i, i + 1));
                }
                if i + wdt < n {
                    pairs.push((i, i + wdt));
                }
            }
        }
    }
    // parallel edges and self-loops on purpose
    let extra = r.below(4) as usize;
    for _ in 0..extra {
        if !pairs.is_empty() && r.chance(2, 3) {
            let (a, b) = *r.pick(&pairs);
            pairs.push(if r.chance(1, 2) { (a, b) } else { (b, a) });
        } else {
            let a = rnd(r);
            pairs.push((a, a));
        }
    }
    r.shuffle(&mut pairs);
    let edges = pairs
        .into_iter()
        .map(|(a, b)| {
            let directed = match dir_mode {
                0 => true,
                1 => false,
                _ => r.chance(1, 2),
            };
            let w = gen_weight(r, wprofile);
            (a, b, directed, r.below(3) as u8, w, r.chance(1, 5), if r.chance(1, 4) { None } else { Some(r.range(0, 3)) })
        })
        .collect::<Vec<_>>();
    let mut del_edges = Vec::new();
    let mut del_nodes = Vec::new();
    if r.chance(1, 3) && !edges.is_empty() {
        for _ in 0..1 + r.below(3) {
            del_edges.push(r.below(edges.len() as u64) as usize);
        }
    }
    if r.chance(1, 6) && n > 2 {
        del_nodes.push(rnd(r));
    }
    Planned { n, node_props, edges, del_edges, del_nodes, shape, wprofile }
}

/// Build the real engine; return it with the description of the CURRENT graph (after deletions).

/// also returns the ids of the nodes that were created and then deleted
fn build_with_deleted(plan: &Planned) -> (GraphEngine, GG, Vec<u64>) {
    let mut deleted = Vec::new();
    let eng = GraphEngine::new();
    let mut gg = GG::default();
    let mut node_ids = Vec::new();
    for p in &plan.node_props {
        let mut props = HashMap::new();
        if let Some(v) = p {
            props.insert("c".to_string(), PropertyValue::Int(*v));
        }
        let id = eng.create_node("N", props).expect("create_node");
        node_ids.push(id);
        gg.nodes.push((id, *p));
    }
    let mut edge_ids = Vec::new();
    for (a, b, directed, t, w, wf, p) in &plan.edges {
        let mut props = HashMap::new();
        if let Some(w) = w {
            props.insert("w".to_string(), if *wf { PropertyValue::Float(*w as f64) } else { PropertyValue::Int(*w) });
        } else if *wf {
            // a non-numeric weight property counts as a missing one (default weight 1)
            props.insert("w".to_string(), PropertyValue::String("7".to_string()));
        }
        if let Some(p) = p {
            props.insert("p".to_string(), PropertyValue::Int(*p));
        }
        let id = eng
            .create_edge(node_ids[*a], node_ids[*b], format!("t{t}"), props, *directed)
            .expect("create_edge");
        edge_ids.push(id);
        gg.edges.push(GE { id, src: node_ids[*a], dst: node_ids[*b], directed: *directed, etype: *t, w: *w, w_float: *wf, p: *p });
    }
    for k in &plan.del_edges {
        let id = edge_ids[*k];
        if gg.edges.iter().any(|e| e.id == id) {
            eng.delete_edge(id).expect("delete_edge");
            gg.edges.retain(|e| e.id != id);
        }
    }
    for k in &plan.del_nodes {
        let id = node_ids[*k];
        if gg.has(id) {
            eng.delete_node(id).expect("delete_node");
            deleted.push(id);
            gg.nodes.retain(|x| x.0 != id);
            gg.edges.retain(|e| e.src != id && e.dst != id);
        }
    }
    (eng, gg, deleted)
}

fn load_model(m: &mut Model, g: &GG) -> bool {
    let mut ok = m.ask("reset") == "ok";
    for (i, p) in &g.nodes {
        ok &= m.ask(&format!("node {} {}", i, opt(*p))) == "ok";
    }
    for e in &g.edges {
        ok &= m.ask(&format!(
            "edge {} {} {} {} {} {} {}",
            e.id,
            e.src,
            e.dst,
            if e.directed { "d" } else { "u" },
            e.etype,
            opt(e.w),
            opt(e.p)
        )) == "ok";
    }
    ok
}

// ------------------------------------------------------------------ reference implementations (oracles)

/// can edge `e` be followed from `u`? returns the node reached (direction-respecting)
fn fwd(e: &GE, u: u64) -> Option<u64> {
    if e.src == u {
        Some(e.dst)
    } else if !e.directed && e.dst == u {
        Some(e.src)
    } else {
        None
    }
}
fn bwd(e: &GE, u: u64) -> Option<u64> {
    if e.dst == u {
        Some(e.src)
    } else if !e.directed && e.src == u {
        Some(e.dst)
    } else {
        None
    }
}

/// plain BFS hop distance from `s` to every node under the find_path filter semantics for target `t`
fn ref_bfs(g: &GG, s: u64, t: u64, f: &Filt) -> Option<usize> {
    if s == t {
        return Some(0);
    }
    let mut dist: BTreeMap<u64, usize> = BTreeMap::new();
    dist.insert(s, 0);
    let mut q = VecDeque::from([s]);
    while let Some(u) = q.pop_front() {
        let d = dist[&u];
        for e in &g.edges {
            if !f.edge_ok(e) {
                continue;
            }
            if let Some(v) = fwd(e, u) {
                if v != t && !f.node_ok(g, v) {
                    continue;
                }
                if !dist.contains_key(&v) {
                    dist.insert(v, d + 1);
                    q.push_back(v);
                }
            }
        }
    }
    dist.get(&t).copied()
}

fn weight_of(e: &GE) -> i128 {
    e.w.map_or(1, i128::from)
}

/// Bellman-Ford over direction-respecting hops; None = unreachable (weights assumed non-negative)
fn ref_costs(g: &GG, s: u64) -> BTreeMap<u64, i128> {
    let mut dist: BTreeMap<u64, i128> = BTreeMap::new();
    dist.insert(s, 0);
    for _ in 0..=g.nodes.len() {
        let mut changed = false;
        for e in &g.edges {
            let mut relax = |u: u64, v: u64| {
                if let Some(&du) = dist.get(&u) {
                    let nd = du + weight_of(e);
                    if dist.get(&v).map_or(true, |&dv| nd < dv) {
                        dist.insert(v, nd);
                        changed = true;
                    }
                }
            };
            relax(e.src, e.dst);
            if !e.directed {
                relax(e.dst, e.src);
            }
        }
        if !changed {
            break;
        }
    }
    dist
}

fn dir_step(e: &GE, u: u64, dir: Direction) -> Vec<u64> {
    let mut out = Vec::new();
    if dir == Direction::Outgoing || dir == Direction::Both {
        if let Some(v) = fwd(e, u) {
            out.push(v);
        }
    }
    if dir == Direction::Incoming || dir == Direction::Both {
        if let Some(v) = bwd(e, u) {
            out.push(v);
        }
    }
    out
}

/// nodes within `max_depth` hops (edge type / edge filter restrict hops; node filter only selects output)
fn ref_traverse(g: &GG, s: u64, dir: Direction, max_depth: usize, etype: Option<u8>, f: &Filt) -> Vec<u64> {
    let mut dist: BTreeMap<u64, usize> = BTreeMap::new();
    dist.insert(s, 0);
    let mut q = VecDeque::from([s]);
    while let Some(u) = q.pop_front() {
        let d = dist[&u];
        if d >= max_depth {
            continue;
        }
        for e in &g.edges {
            if etype.map_or(false, |t| t != e.etype) || !f.edge_ok(e) {
                continue;
            }
            for v in dir_step(e, u, dir) {
                if !dist.contains_key(&v) {
                    dist.insert(v, d + 1);
                    q.push_back(v);
                }
            }
        }
    }
    dist.keys().copied().filter(|v| *v == s || f.node_ok(g, *v)).collect()
}

#[derive(Clone)]
struct VCfg {
    min: usize,
    max: usize,
    dir: Direction,
    etypes: Option<Vec<u8>>,
    cycles: bool,
}

/// all (nodes, edges) chains from s to t with hop count in [min,max]; independent enumeration as a SET
fn ref_varpaths(g: &GG, s: u64, t: u64, c: &VCfg, f: &Filt) -> BTreeSet<(Vec<u64>, Vec<u64>)> {
    let mut out = BTreeSet::new();
    fn go(
        g: &GG, t: u64, c: &VCfg, f: &Filt, nodes: &mut Vec<u64>, edges: &mut Vec<u64>,
        out: &mut BTreeSet<(Vec<u64>, Vec<u64>)>,
    ) {
        let u = *nodes.last().unwrap();
        if u == t && edges.len() >= c.min && edges.len() <= c.max {
            out.insert((nodes.clone(), edges.clone()));
        }
        if edges.len() >= c.max {
            return;
        }
        for e in &g.edges {
            if c.etypes.as_ref().map_or(false, |ts| !ts.contains(&e.etype)) || !f.edge_ok(e) {
                continue;
            }
            let mut targets = dir_step(e, u, c.dir);
            targets.sort_unstable();
            targets.dedup();
            for v in targets {
                if !c.cycles && nodes.contains(&v) {
                    continue;
                }
                if v != t && !f.node_ok(g, v) {
                    continue;
                }
                nodes.push(v);
                edges.push(e.id);
                go(g, t, c, f, nodes, edges, out);
                nodes.pop();
                edges.pop();
            }
        }
    }
    let mut nodes = vec![s];
    let mut edges = vec![];
    go(g, t, c, f, &mut nodes, &mut edges, &mut out);
    out
}

struct Uf(Vec<usize>);
impl Uf {
    fn new(n: usize) -> Self {
        Uf((0..n).collect())
    }
    fn find(&mut self, x: usize) -> usize {
        let mut r = x;
        while self.0[r] != r {
            r = self.0[r];
        }
        let mut c = x;
        while self.0[c] != r {
            let nx = self.0[c];
            self.0[c] = r;
            c = nx;
        }
        r
    }
    fn union(&mut self, a: usize, b: usize) -> bool {
        let (ra, rb) = (self.find(a), self.find(b));
        if ra == rb {
            false
        } else {
            self.0[ra] = rb;
            true
        }
    }
}

fn index_of(g: &GG) -> BTreeMap<u64, usize> {
    g.nodes.iter().enumerate().map(|(i, x)| (x.0, i)).collect()
}

/// canonical partition: sorted list of sorted groups
fn canon_partition(groups: impl IntoIterator<Item = Vec<u64>>) -> Vec<Vec<u64>> {
    let mut gs: Vec<Vec<u64>> = groups
        .into_iter()
        .map(|mut v| {
            v.sort_unstable();
            v
        })
        .filter(|v| !v.is_empty())
        .collect();
    gs.sort();
    gs
}

fn ref_components(g: &GG) -> Vec<Vec<u64>> {
    let ix = index_of(g);
    let mut uf = Uf::new(g.nodes.len());
    for e in &g.edges {
        uf.union(ix[&e.src], ix[&e.dst]);
    }
    let mut m: BTreeMap<usize, Vec<u64>> = BTreeMap::new();
    for (id, _) in &g.nodes {
        let r = uf.find(ix[id]);
        m.entry(r).or_default().push(*id);
    }
    canon_partition(m.into_values())
}

/// simple undirected adjacency matrix (no self-loops, multiplicity ignored)
fn adj_matrix(g: &GG) -> Vec<Vec<bool>> {
    let ix = index_of(g);
    let n = g.nodes.len();
    let mut a = vec![vec![false; n]; n];
    for e in &g.edges {
        let (i, j) = (ix[&e.src], ix[&e.dst]);
        if i != j {
            a[i][j] = true;
            a[j][i] = true;
        }
    }
    a
}

fn ref_core_numbers(g: &GG) -> BTreeMap<u64, usize> {
    let a = adj_matrix(g);
    let n = a.len();
    let mut alive = vec![true; n];
    let mut core = vec![0usize; n];
    let mut k = 0usize;
    let mut left = n;
    while left > 0 {
        // remove everything of degree < k+1 repeatedly: those have core number k
        loop {
            let mut removed = false;
            for i in 0..n {
                if alive[i] {
                    let d = (0..n).filter(|&j| alive[j] && a[i][j]).count();
                    if d < k + 1 {
                        alive[i] = false;
                        core[i] = k;
                        left -= 1;
                        removed = true;
                    }
                }
            }
            if !removed {
                break;
            }
        }
        k += 1;
    }
    g.nodes.iter().enumerate().map(|(i, x)| (x.0, core[i])).collect()
}

fn ref_triangles(g: &GG) -> (usize, BTreeMap<u64, usize>) {
    let a = adj_matrix(g);
    let n = a.len();
    let mut per = vec![0usize; n];
    let mut total = 0;
    for i in 0..n {
        for j in i + 1..n {
            if !a[i][j] {
                continue;
            }
            for k in j + 1..n {
                if a[i][k] && a[j][k] {
                    total += 1;
                    per[i] += 1;
                    per[j] += 1;
                    per[k] += 1;
                }
            }
        }
    }
    (total, g.nodes.iter().enumerate().map(|(i, x)| (x.0, per[i])).collect())
}

fn ref_scc(g: &GG) -> Vec<Vec<u64>> {
    let ix = index_of(g);
    let n = g.nodes.len();
    let mut r = vec![vec![false; n]; n];
    for i in 0..n {
        r[i][i] = true;
    }
    for e in &g.edges {
        r[ix[&e.src]][ix[&e.dst]] = true;
        if !e.directed {
            r[ix[&e.dst]][ix[&e.src]] = true;
        }
    }
    for k in 0..n {
        for i in 0..n {
            if r[i][k] {
                for j in 0..n {
                    if r[k][j] {
                        r[i][j] = true;
                    }
                }
            }
        }
    }
    let mut seen = vec![false; n];
    let mut groups = Vec::new();
    for i in 0..n {
        if !seen[i] {
            let mut grp = Vec::new();
            for j in 0..n {
                if r[i][j] && r[j][i] {
                    seen[j] = true;
                    grp.push(g.nodes[j].0);
                }
            }
            groups.push(grp);
        }
    }
    canon_partition(groups)
}

fn count_components_without(a: &[Vec<bool>], skip: Option<usize>) -> usize {
    let n = a.len();
    let mut seen = vec![false; n];
    let mut c = 0;
    for s in 0..n {
        if Some(s) == skip || seen[s] {
            continue;
        }
        c += 1;
        let mut st = vec![s];
        seen[s] = true;
        while let Some(u) = st.pop() {
            for v in 0..n {
                if Some(v) != skip && a[u][v] && !seen[v] {
                    seen[v] = true;
                    st.push(v);
                }
            }
        }
    }
    c
}

fn ref_articulation(g: &GG) -> Vec<u64> {
    let a = adj_matrix(g);
    let base = count_components_without(&a, None);
    let mut out = Vec::new();
    for i in 0..a.len() {
        let isolated = !(0..a.len()).any(|j| a[i][j]);
        // removing an isolated node removes its own component
        let after = count_components_without(&a, Some(i));
        let expect = if isolated { base - 1 } else { base };
        if after > expect {
            out.push(g.nodes[i].0);
        }
    }
    out.sort_unstable();
    out
}

/// bridges: an adjacent pair whose removal disconnects it. `multigraph` = a pair joined by several
/// parallel edges is never a bridge; otherwise parallel edges are collapsed (simple-graph view, which
/// is what the engine's node-pair result type and neighbour sets implement).
fn ref_bridges(g: &GG, multigraph: bool) -> Vec<(u64, u64)> {
    let ix = index_of(g);
    let n = g.nodes.len();
    let mut mult = vec![vec![0usize; n]; n];
    for e in &g.edges {
        let (i, j) = (ix[&e.src], ix[&e.dst]);
        if i != j {
            mult[i][j] += 1;
            mult[j][i] += 1;
        }
    }
    let mut out = Vec::new();
    for i in 0..n {
        for j in i + 1..n {
            if mult[i][j] == 0 || (multigraph && mult[i][j] != 1) {
                continue;
            }
            // is j reachable from i without the (i,j) adjacency?
            let mut seen = vec![false; n];
            let mut st = vec![i];
            seen[i] = true;
            while let Some(u) = st.pop() {
                for v in 0..n {
                    if mult[u][v] > 0 && !seen[v] && !((u == i && v == j) || (u == j && v == i)) {
                        seen[v] = true;
                        st.push(v);
                    }
                }
            }
            if !seen[j] {
                let (a, b) = (g.nodes[i].0, g.nodes[j].0);
                out.push((a.min(b), a.max(b)));
            }
        }
    }
    out.sort_unstable();
    out
}

fn ref_mst_weight(g: &GG) -> (i128, usize) {
    let ix = index_of(g);
    let mut es: Vec<(i128, usize, usize)> = g.edges.iter().map(|e| (weight_of(e), ix[&e.src], ix[&e.dst])).collect();
    es.sort();
    let mut uf = Uf::new(g.nodes.len());
    let mut total = 0;
    let mut cnt = 0;
    for (w, a, b) in es {
        if uf.union(a, b) {
            total += w;
            cnt += 1;
        }
    }
    (total, cnt)
}

// ------------------------------------------------------------------ path validation

#[derive(Debug, PartialEq)]
enum WalkErr {
    Shape,
    Endpoints,
    UnknownEdge,
    Backwards,
    NotJoined,
    EdgeFilter,
    NodeFilter,
}

/// Is (nodes, edges) a direction-respecting chain from s to t that respects the filter?
fn check_walk(g: &GG, s: u64, t: u64, nodes: &[u64], edges: &[u64], f: &Filt) -> Result<i128, WalkErr> {
    if nodes.len() != edges.len() + 1 {
        return Err(WalkErr::Shape);
    }
    if nodes.first() != Some(&s) || nodes.last() != Some(&t) {
        return Err(WalkErr::Endpoints);
    }
    let mut total = 0i128;
    for i in 0..edges.len() {
        let Some(e) = g.edge(edges[i]) else { return Err(WalkErr::UnknownEdge) };
        let (u, v) = (nodes[i], nodes[i + 1]);
        let ok = (e.src == u && e.dst == v) || (!e.directed && e.dst == u && e.src == v);
        if !ok {
            if e.directed && e.dst == u && e.src == v {
                return Err(WalkErr::Backwards);
            }
            return Err(WalkErr::NotJoined);
        }
        if !f.edge_ok(e) {
            return Err(WalkErr::EdgeFilter);
        }
        if v != t && !f.node_ok(g, v) {
            return Err(WalkErr::NodeFilter);
        }
        total += weight_of(e);
    }
    Ok(total)
}

/// is the ordered hop u -> v over `e` allowed under `dir`?
fn hop_ok(e: &GE, u: u64, v: u64, dir: Direction) -> bool {
    dir_step(e, u, dir).contains(&v)
}

/// Bellman-Ford under a traversal direction (Outgoing = along edges, Incoming = against, Both = either)
fn ref_costs_dir(g: &GG, s: u64, dir: Direction) -> BTreeMap<u64, i128> {
    let mut dist: BTreeMap<u64, i128> = BTreeMap::new();
    dist.insert(s, 0);
    for _ in 0..=g.nodes.len() {
        let mut changed = false;
        for e in &g.edges {
            for (u, v) in [(e.src, e.dst), (e.dst, e.src)] {
                if !hop_ok(e, u, v, dir) {
                    continue;
                }
                if let Some(&du) = dist.get(&u) {
                    let nd = du + weight_of(e);
                    if dist.get(&v).map_or(true, |&dv| nd < dv) {
                        dist.insert(v, nd);
                        changed = true;
                    }
                }
            }
        }
        if !changed {
            break;
        }
    }
    dist
}

fn check_walk_dir(g: &GG, s: u64, t: u64, nodes: &[u64], edges: &[u64], dir: Direction) -> Result<i128, WalkErr> {
    if nodes.len() != edges.len() + 1 {
        return Err(WalkErr::Shape);
    }
    if nodes.first() != Some(&s) || nodes.last() != Some(&t) {
        return Err(WalkErr::Endpoints);
    }
    let mut total = 0i128;
    for i in 0..edges.len() {
        let Some(e) = g.edge(edges[i]) else { return Err(WalkErr::UnknownEdge) };
        let (u, v) = (nodes[i], nodes[i + 1]);
        if !hop_ok(e, u, v, dir) {
            if hop_ok(e, u, v, Direction::Both) {
                return Err(WalkErr::Backwards);
            }
            return Err(WalkErr::NotJoined);
        }
        total += weight_of(e);
    }
    Ok(total)
}

fn walk_class(site: &str, e: &WalkErr) -> String {
    match e {
        WalkErr::Backwards => format!("{site}/walks_directed_edge_backwards"),
        WalkErr::EdgeFilter | WalkErr::NodeFilter => format!("{site}/filter_not_respected"),
        WalkErr::UnknownEdge => format!("{site}/unknown_edge_id"),
        _ => format!("{site}/path_not_a_walk"),
    }
}


/// keep at most 3 inputs per violation class so that one noisy class cannot hide another behind the
/// report's overall cap; the full count goes to the distribution
fn viol(rep: &mut Report, class: &str, what: &str, input: Value) {
    let key = format!("violation.{class}");
    let seen = rep.distribution.get(&key).copied().unwrap_or(0);
    rep.hit(&key);
    if seen < 3 {
        rep.violation(class, what, input);
    }
}

// ------------------------------------------------------------------ per-graph checks

struct Ctx<'a> {
    eng: &'a GraphEngine,
    g: &'a GG,
    m: &'a mut Model,
    rep: &'a mut Report,
    tag: String,
}

fn qjson(g: &GG, tag: &str, q: &str) -> Value {
    json!({"graph": g.to_json(), "query": q, "shape": tag})
}

/// Error canonicalisation (BUILDING.md): a fall-back token names the error's VARIANT (first identifier of its
/// Debug rendering) and never carries its message text (`GraphError::StorageError(String)` etc.).
fn vname<T: std::fmt::Debug>(e: &T) -> String {
    format!("{e:?}").chars().take_while(|c| c.is_alphanumeric() || *c == '_').collect()
}

fn show_path_res(r: &Result<graph_engine::Path, GraphError>) -> String {
    match r {
        Ok(p) => format!("ok {} n={} e={}", p.edges.len(), ids(&p.nodes), ids(&p.edges)),
        Err(GraphError::NodeNotFound(n)) => format!("nonode {n}"),
        Err(GraphError::PathNotFound) => "none".into(),
        Err(e) => format!("err:{}", vname(e)),
    }
}

fn do_find_path(c: &mut Ctx, s: u64, t: u64, f: &Filt, stream: &str) {
    let g = c.g;
    let tag = c.tag.clone();
    let line = format!("path {} {} {} {}", s, t, Filt::conds(&f.node), Filt::conds(&f.edge));
    let rf = f.real();
    let res = c.eng.find_path(s, t, rf.as_ref());
    let imp = show_path_res(&res);
    let model = c.m.ask(&line);
    let nontrivial = s != t && c.g.has(s) && c.g.has(t);
    let key = format!("{}|{}", tag, line);
    c.rep.case(stream, if nontrivial { Some(&key) } else { None });
    c.rep.compare(stream, || qjson(g, &tag, &line), &imp, &model);
    let site = "graph_engine.find_path";
    let both = c.g.has(s) && c.g.has(t);
    match &res {
        Ok(p) => {
            c.rep.hit(if f.is_none() { "path.ok" } else { "path.filtered.ok" });
            c.rep.hit(&format!("path.hops.{}", p.edges.len().min(6)));
            if !both {
                viol(c.rep, &format!("{site}/path_for_missing_node"), "path returned although an endpoint does not exist", qjson(g, &tag, &line));
                return;
            }
            match check_walk(c.g, s, t, &p.nodes, &p.edges, f) {
                Err(e) => viol(c.rep, &walk_class(site, &e), &format!("returned path {imp} is not a qualifying walk: {e:?}"), qjson(g, &tag, &line)),
                Ok(_) => match ref_bfs(c.g, s, t, f) {
                    Some(d) if d < p.edges.len() => viol(c.rep, &format!("{site}/not_shortest"), &format!("returned {} hops, a qualifying walk with {d} exists", p.edges.len()), qjson(g, &tag, &line)),
                    Some(_) => {}
                    None => viol(c.rep, &format!("{site}/path_not_a_walk"), "reference search finds no walk at all", qjson(g, &tag, &line)),
                },
            }
        }
        Err(GraphError::PathNotFound) => {
            c.rep.hit(if f.is_none() { "path.none" } else { "path.filtered.none" });
            if let Some(d) = ref_bfs(c.g, s, t, f) {
                // was it only the filter that blocked? count for the distribution
                viol(c.rep, &format!("{site}/missed_path"), &format!("PathNotFound although a qualifying walk with {d} hops exists"), qjson(g, &tag, &line));
            } else if !f.is_none() && ref_bfs(c.g, s, t, &Filt::default()).is_some() {
                c.rep.hit("path.filter.blocked");
            }
        }
        Err(GraphError::NodeNotFound(n)) => {
            c.rep.hit("path.nonode");
            if c.g.has(*n) {
                viol(c.rep, &format!("{site}/spurious_node_not_found"), "NodeNotFound for an existing node", qjson(g, &tag, &line));
            }
        }
        Err(_) => viol(c.rep, &format!("{site}/unexpected_error"), &imp, qjson(g, &tag, &line)),
    }
}

fn cost_exact(x: f64) -> Option<i128> {
    if x.is_finite() && x.fract() == 0.0 && x.abs() < 9.0e15 {
        Some(x as i128)
    } else {
        None
    }
}

fn do_weighted(c: &mut Ctx, s: u64, t: u64, costs: &BTreeMap<u64, i128>, negative_graph: bool) {
    let g = c.g;
    let tag = c.tag.clone();
    let stream = if negative_graph { "find_weighted_path.negative" } else { "find_weighted_path" };
    let line = format!("wpath {s} {t}");
    let res = c.eng.find_weighted_path(s, t, "w");
    let imp = match &res {
        Ok(p) => match cost_exact(p.total_weight) {
            Some(cst) => format!("ok {} n={} e={}", cst, ids(&p.nodes), ids(&p.edges)),
            None => format!("ok inexact:{:016x} n={} e={}", p.total_weight.to_bits(), ids(&p.nodes), ids(&p.edges)),
        },
        Err(GraphError::NodeNotFound(n)) => format!("nonode {n}"),
        Err(GraphError::PathNotFound) => "none".into(),
        Err(GraphError::NegativeWeight { edge_id, .. }) => format!("neg {edge_id}"),
        Err(e) => format!("err:{}", vname(e)),
    };
    let model = c.m.ask(&line);
    let nontrivial = s != t && c.g.has(s) && c.g.has(t);
    let key = format!("{}|{}", tag, line);
    c.rep.case(stream, if nontrivial { Some(&key) } else { None });
    c.rep.compare(stream, || qjson(g, &tag, &line), &imp, &model);
    if negative_graph {
        // negative weights are outside the property's quantifier: correspondence only
        c.rep.hit(match &res {
            Ok(_) => "wpath.neg_graph.ok",
            Err(GraphError::NegativeWeight { .. }) => "wpath.neg",
            _ => "wpath.neg_graph.none",
        });
        return;
    }
    let site = "graph_engine.find_weighted_path";
    let none = Filt::default();
    match &res {
        Ok(p) => {
            c.rep.hit("wpath.ok");
            if !(c.g.has(s) && c.g.has(t)) {
                viol(c.rep, &format!("{site}/path_for_missing_node"), "path returned although an endpoint does not exist", qjson(g, &tag, &line));
                return;
            }
            match check_walk(c.g, s, t, &p.nodes, &p.edges, &none) {
                Err(e) => viol(c.rep, &walk_class(site, &e), &format!("returned path {imp} is not a walk: {e:?}"), qjson(g, &tag, &line)),
                Ok(sum) => {
                    if cost_exact(p.total_weight) != Some(sum) {
                        viol(c.rep, &format!("{site}/wrong_total"), &format!("total_weight {} but the returned edges sum to {sum}", p.total_weight), qjson(g, &tag, &line));
                    }
                    match costs.get(&t) {
                        Some(&best) if best < sum => viol(c.rep, &format!("{site}/not_optimal"), &format!("returned cost {sum}, a walk of cost {best} exists"), qjson(g, &tag, &line)),
                        Some(&best) => {
                            if best == 0 && s != t {
                                c.rep.hit("wpath.zero_cost");
                            }
                        }
                        None => viol(c.rep, &format!("{site}/path_not_a_walk"), "reference finds no walk", qjson(g, &tag, &line)),
                    }
                }
            }
        }
        Err(GraphError::PathNotFound) => {
            c.rep.hit("wpath.none");
            if let Some(best) = costs.get(&t) {
                viol(c.rep, &format!("{site}/missed_path"), &format!("PathNotFound although a walk of cost {best} exists"), qjson(g, &tag, &line));
            }
        }
        Err(GraphError::NodeNotFound(n)) => {
            c.rep.hit("wpath.nonode");
            if c.g.has(*n) {
                viol(c.rep, &format!("{site}/spurious_node_not_found"), "NodeNotFound for an existing node", qjson(g, &tag, &line));
            }
        }
        Err(_) => viol(c.rep, &format!("{site}/unexpected_error"), &imp, qjson(g, &tag, &line)),
    }
}

/// A* with the default (zero) heuristic, every direction: the COST is compared with the Lean model
/// (`astarCost`; which of several optimal paths comes back depends on heap tie order), the returned
/// path is validated as a walk of that cost against the Bellman-Ford reference.
fn do_astar(c: &mut Ctx, s: u64, t: u64, costs: &BTreeMap<u64, i128>, dir: Direction) {
    let g = c.g;
    let tag = c.tag.clone();
    let line = format!("astar {s} {t} weight=w dir={}", dir_name(dir));
    let cfg = AStarConfig::new().weight_property("w").direction(dir);
    c.rep.hit(&format!("astar.dir.{}", dir_name(dir)));
    let res = c.eng.astar_path(s, t, &cfg);
    let key = format!("{}|{}", tag, line);
    c.rep.case("astar_path", if s != t { Some(&key) } else { None });
    {
        let imp = match &res {
            Ok(r) => match &r.path {
                None => "none".to_string(),
                Some(p) => match cost_exact(p.total_weight) {
                    Some(x) => format!("ok {x}"),
                    None => format!("ok ~{}", p.total_weight),
                },
            },
            Err(e) => format!("err:{}", vname(e)),
        };
        let mline = format!("astar {s} {t} {}", dir_name(dir));
        let model = c.m.ask(&mline);
        c.rep.compare("astar_path", || qjson(g, &tag, &line), &imp, &model);
    }
    let site = "graph_engine.astar_path";
    match res {
        Err(e) => viol(c.rep, &format!("{site}/unexpected_error"), &format!("{e:?}"), qjson(g, &tag, &line)),
        Ok(r) => match r.path {
            None => {
                c.rep.hit("astar.none");
                if let Some(best) = costs.get(&t) {
                    if c.g.has(s) && c.g.has(t) {
                        viol(c.rep, &format!("{site}/missed_path"), &format!("no path although a walk of cost {best} exists"), qjson(g, &tag, &line));
                    }
                }
            }
            Some(p) => {
                c.rep.hit("astar.ok");
                let shown = format!("cost {} n={} e={}", p.total_weight, ids(&p.nodes), ids(&p.edges));
                if !c.g.has(s) || !c.g.has(t) {
                    if s != t {
                        viol(c.rep, &format!("{site}/path_for_missing_node"), &shown, qjson(g, &tag, &line));
                    }
                    return;
                }
                match check_walk_dir(c.g, s, t, &p.nodes, &p.edges, dir) {
                    Err(e) => viol(c.rep, &walk_class(site, &e), &format!("returned {shown}: {e:?}"), qjson(g, &tag, &line)),
                    Ok(sum) => {
                        if cost_exact(p.total_weight) != Some(sum) {
                            viol(c.rep, &format!("{site}/wrong_total"), &format!("returned {shown} but the edges sum to {sum}"), qjson(g, &tag, &line));
                        } else if let Some(&best) = costs.get(&t) {
                            if best < sum {
                                viol(c.rep, &format!("{site}/not_optimal"), &format!("returned {shown}, a walk of cost {best} exists"), qjson(g, &tag, &line));
                            }
                        }
                    }
                }
            }
        },
    }
}

/// A* under a config: `edge_type` restricts the search to edges of one type, no `weight_property`
/// makes every edge weigh 1. Cost compared with the model (`astarCostCfg` = the zero-heuristic A* on
/// the view of the graph), path validated on the harness-side view against Bellman-Ford.
fn do_astar_cfg(c: &mut Ctx, s: u64, t: u64, dir: Direction, etype: Option<u8>, weighted: bool) {
    let g = c.g;
    let tag = c.tag.clone();
    let view = GG {
        nodes: g.nodes.clone(),
        edges: g
            .edges
            .iter()
            .filter(|e| etype.map_or(true, |x| e.etype == x))
            .map(|e| {
                let mut e = e.clone();
                if !weighted {
                    e.w = None;
                }
                e
            })
            .collect(),
    };
    let et_arg = etype.map_or("-".to_string(), |x| x.to_string());
    let line = format!("astarcfg {s} {t} {} {et_arg} {}", dir_name(dir), u8::from(weighted));
    let mut cfg = AStarConfig::new().direction(dir);
    if weighted {
        cfg = cfg.weight_property("w");
    }
    if let Some(x) = etype {
        cfg = cfg.edge_type(format!("t{x}"));
    }
    let res = c.eng.astar_path(s, t, &cfg);
    let key = format!("{}|{}", tag, line);
    c.rep.case("astar_path.config", if s != t { Some(&key) } else { None });
    c.rep.hit(if weighted { "astar.cfg.typed" } else if etype.is_some() { "astar.cfg.typed_unweighted" } else { "astar.cfg.unweighted" });
    {
        let imp = match &res {
            Ok(r) => match &r.path {
                None => "none".to_string(),
                Some(p) => match cost_exact(p.total_weight) {
                    Some(x) => format!("ok {x}"),
                    None => format!("ok ~{}", p.total_weight),
                },
            },
            Err(e) => format!("err:{}", vname(e)),
        };
        let model = c.m.ask(&line);
        c.rep.compare("astar_path.config", || qjson(g, &tag, &line), &imp, &model);
    }
    let site = "graph_engine.astar_path";
    let costs = ref_costs_dir(&view, s, dir);
    match res {
        Err(e) => viol(c.rep, &format!("{site}/unexpected_error"), &format!("{e:?}"), qjson(g, &tag, &line)),
        Ok(r) => match r.path {
            None => {
                if let Some(best) = costs.get(&t) {
                    if g.has(s) && g.has(t) {
                        viol(c.rep, &format!("{site}/missed_path"), &format!("no path although a walk of cost {best} exists"), qjson(g, &tag, &line));
                    }
                }
            }
            Some(p) => {
                let shown = format!("cost {} n={} e={}", p.total_weight, ids(&p.nodes), ids(&p.edges));
                if !g.has(s) || !g.has(t) {
                    if s != t {
                        viol(c.rep, &format!("{site}/path_for_missing_node"), &shown, qjson(g, &tag, &line));
                    }
                    return;
                }
                if p.edges.iter().any(|id| g.edge(*id).is_some() && view.edge(*id).is_none()) {
                    viol(c.rep, &format!("{site}/edge_of_other_type"), &format!("returned {shown} for edge_type {et_arg}"), qjson(g, &tag, &line));
                    return;
                }
                match check_walk_dir(&view, s, t, &p.nodes, &p.edges, dir) {
                    Err(e) => viol(c.rep, &walk_class(site, &e), &format!("returned {shown}: {e:?}"), qjson(g, &tag, &line)),
                    Ok(sum) => {
                        if cost_exact(p.total_weight) != Some(sum) {
                            viol(c.rep, &format!("{site}/wrong_total"), &format!("returned {shown} but the edges sum to {sum}"), qjson(g, &tag, &line));
                        } else if let Some(&best) = costs.get(&t) {
                            if best < sum {
                                viol(c.rep, &format!("{site}/not_optimal"), &format!("returned {shown}, a walk of cost {best} exists"), qjson(g, &tag, &line));
                            }
                        }
                    }
                }
            }
        },
    }
}

/// find_all_paths (all shortest paths): compared with the model (same paths, same order) + oracle.
fn do_all_paths(c: &mut Ctx, s: u64, t: u64, caps: Option<(usize, usize)>) {
    let g = c.g;
    let tag = c.tag.clone();
    let (mp, cap) = caps.unwrap_or((1000, 100));
    let line = if caps.is_some() { format!("allpaths {s} {t} {mp} {cap}") } else { format!("allpaths {s} {t}") };
    let res = c.eng.find_all_paths(s, t, caps.map(|(mp, cap)| AllPathsConfig { max_paths: mp, max_parents_per_node: cap }));
    let imp = match &res {
        Ok(ap) => format!(
            "ok {} {} {}",
            ap.hop_count,
            ap.paths.len(),
            ap.paths.iter().map(|p| format!("{}/{}", dots(&p.nodes), dots(&p.edges))).collect::<Vec<_>>().join(";")
        )
        .trim_end()
        .to_string(),
        Err(GraphError::NodeNotFound(n)) => format!("nonode {n}"),
        Err(GraphError::PathNotFound) => "none".into(),
        Err(e) => format!("err:{}", vname(e)),
    };
    let model = c.m.ask(&line);
    c.rep.compare("find_all_paths", || qjson(g, &tag, &line), &imp, &model);
    let key = format!("{}|{}", tag, line);
    c.rep.case("find_all_paths", if s != t { Some(&key) } else { None });
    let site = "graph_engine.find_all_paths";
    let none = Filt::default();
    let want = ref_bfs(c.g, s, t, &none);
    match res {
        Ok(ap) => {
            c.rep.hit("allpaths.ok");
            if ap.paths.len() > 1 {
                c.rep.hit("allpaths.multi");
            }
            if caps.is_some() {
                c.rep.hit("allpaths.capped");
                if ap.paths.len() > mp {
                    viol(c.rep, &format!("{site}/more_than_max_paths"), &format!("{} paths for max_paths {mp}", ap.paths.len()), qjson(g, &tag, &line));
                }
                if ap.paths.is_empty() && mp > 0 {
                    viol(c.rep, &format!("{site}/missed_path"), "no path listed although a hop count is reported", qjson(g, &tag, &line));
                }
            }
            if Some(ap.hop_count) != want {
                viol(c.rep, &format!("{site}/not_shortest"), &format!("hop_count {} but BFS distance is {want:?}", ap.hop_count), qjson(g, &tag, &line));
                return;
            }
            let mut seen = BTreeSet::new();
            for p in &ap.paths {
                match check_walk(c.g, s, t, &p.nodes, &p.edges, &none) {
                    Err(e) => {
                        viol(c.rep, &walk_class(site, &e), &format!("path n={} e={}: {e:?}", ids(&p.nodes), ids(&p.edges)), qjson(g, &tag, &line));
                        return;
                    }
                    Ok(_) => {
                        if p.edges.len() != ap.hop_count {
                            viol(c.rep, &format!("{site}/not_shortest"), "a listed path is longer than hop_count", qjson(g, &tag, &line));
                            return;
                        }
                    }
                }
                seen.insert((p.nodes.clone(), p.edges.clone()));
            }
            // exact set of shortest chains (small cases only; only when no cap can have cut the set)
            if caps.is_none() && ap.hop_count <= 6 && ap.paths.len() < 900 {
                let cfg = VCfg { min: ap.hop_count, max: ap.hop_count, dir: Direction::Outgoing, etypes: None, cycles: false };
                if c.g.edges.len() <= 60 {
                    let all = ref_varpaths(c.g, s, t, &cfg, &none);
                    if all.len() < 900 && all != seen {
                        viol(c.rep, &format!("{site}/wrong_path_set"), &format!("{} shortest chains exist, {} distinct returned", all.len(), seen.len()), qjson(g, &tag, &line));
                    }
                    if seen.len() != ap.paths.len() {
                        c.rep.observe(json!({"what": "find_all_paths returned duplicate paths", "query": line}));
                    }
                }
            }
        }
        Err(GraphError::PathNotFound) => {
            c.rep.hit("allpaths.none");
            if want.is_some() {
                viol(c.rep, &format!("{site}/missed_path"), &format!("PathNotFound, BFS distance {want:?}"), qjson(g, &tag, &line));
            }
        }
        Err(GraphError::NodeNotFound(_)) => c.rep.hit("allpaths.nonode"),
        Err(e) => viol(c.rep, &format!("{site}/unexpected_error"), &format!("{e:?}"), qjson(g, &tag, &line)),
    }
}

/// all simple minimum-weight chains from s to t (independent enumeration; small cases only)
fn ref_min_weight_paths(g: &GG, s: u64, t: u64, best: i128, limit: usize) -> Option<BTreeSet<(Vec<u64>, Vec<u64>)>> {
    fn go(
        g: &GG, t: u64, left: i128, nodes: &mut Vec<u64>, edges: &mut Vec<u64>,
        out: &mut BTreeSet<(Vec<u64>, Vec<u64>)>, limit: usize, steps: &mut usize,
    ) -> bool {
        *steps += 1;
        if *steps > 20_000 || out.len() > limit {
            return false;
        }
        let u = *nodes.last().unwrap();
        if u == t && left == 0 {
            out.insert((nodes.clone(), edges.clone()));
        }
        for e in &g.edges {
            let Some(v) = fwd(e, u) else { continue };
            let w = weight_of(e);
            if w > left || nodes.contains(&v) {
                continue;
            }
            nodes.push(v);
            edges.push(e.id);
            let ok = go(g, t, left - w, nodes, edges, out, limit, steps);
            nodes.pop();
            edges.pop();
            if !ok {
                return false;
            }
        }
        true
    }
    let mut out = BTreeSet::new();
    let mut steps = 0usize;
    let mut nodes = vec![s];
    let mut edges = vec![];
    if go(g, t, best, &mut nodes, &mut edges, &mut out, limit, &mut steps) {
        Some(out)
    } else {
        None
    }
}

/// find_all_weighted_paths (all minimum-weight paths): compared with the model (same total, same paths,
/// same order) + oracles (every listed path is a simple walk of the minimum weight; below the caps
/// the distinct listed paths are exactly the simple minimum-weight chains).
fn do_all_weighted(c: &mut Ctx, s: u64, t: u64, costs: &BTreeMap<u64, i128>, caps: Option<(usize, usize)>) {
    let g = c.g;
    let tag = c.tag.clone();
    let (mp, cap) = caps.unwrap_or((1000, 100));
    let line = format!("allwpaths {s} {t} {mp} {cap}");
    let res = c.eng.find_all_weighted_paths(s, t, "w", caps.map(|(mp, cap)| AllPathsConfig { max_paths: mp, max_parents_per_node: cap }));
    let key = format!("{}|{}", tag, line);
    c.rep.case("find_all_weighted_paths", if s != t && g.has(s) && g.has(t) { Some(&key) } else { None });
    {
        let imp = match &res {
            Ok(ap) => match cost_exact(ap.total_weight) {
                Some(x) => format!(
                    "ok {} {} {}",
                    x,
                    ap.paths.len(),
                    ap.paths.iter().map(|p| format!("{}/{}", dots(&p.nodes), dots(&p.edges))).collect::<Vec<_>>().join(";")
                )
                .trim_end()
                .to_string(),
                None => format!("ok inexact:{:016x}", ap.total_weight.to_bits()),
            },
            Err(GraphError::NodeNotFound(n)) => format!("nonode {n}"),
            Err(GraphError::PathNotFound) => "none".into(),
            Err(GraphError::NegativeWeight { edge_id, .. }) => format!("neg {edge_id}"),
            Err(e) => format!("err:{}", vname(e)),
        };
        let model = c.m.ask(&line);
        c.rep.compare("find_all_weighted_paths", || qjson(g, &tag, &line), &imp, &model);
    }
    let site = "graph_engine.find_all_weighted_paths";
    let none = Filt::default();
    match res {
        Ok(ap) => {
            c.rep.hit("allwpaths.ok");
            if caps.is_some() {
                c.rep.hit("allwpaths.capped");
            }
            let want = costs.get(&t).copied();
            if cost_exact(ap.total_weight) != want || want.is_none() {
                viol(c.rep, &format!("{site}/not_optimal"), &format!("total_weight {} but the minimum is {want:?}", ap.total_weight), qjson(g, &tag, &line));
                return;
            }
            if ap.paths.is_empty() && mp > 0 {
                viol(c.rep, &format!("{site}/missed_path"), "no path listed although a total weight is reported", qjson(g, &tag, &line));
            }
            if ap.paths.len() > mp {
                viol(c.rep, &format!("{site}/more_than_max_paths"), &format!("{} paths for max_paths {mp}", ap.paths.len()), qjson(g, &tag, &line));
            }
            let mut seen = BTreeSet::new();
            for p in &ap.paths {
                match check_walk(g, s, t, &p.nodes, &p.edges, &none) {
                    Err(e) => {
                        viol(c.rep, &walk_class(site, &e), &format!("path n={} e={}: {e:?}", ids(&p.nodes), ids(&p.edges)), qjson(g, &tag, &line));
                        return;
                    }
                    Ok(sum) => {
                        if Some(sum) != want || cost_exact(p.total_weight) != want {
                            viol(c.rep, &format!("{site}/wrong_total"), &format!("listed path n={} e={} weighs {sum} (says {}), minimum {want:?}", ids(&p.nodes), ids(&p.edges), p.total_weight), qjson(g, &tag, &line));
                            return;
                        }
                    }
                }
                seen.insert((p.nodes.clone(), p.edges.clone()));
            }
            if ap.paths.len() > 1 {
                c.rep.hit("allwpaths.multi");
            }
            if seen.len() != ap.paths.len() {
                c.rep.hit("allwpaths.duplicates");
                if c.rep.distribution.get("allwpaths.duplicates").copied().unwrap_or(0) <= 3 {
                    c.rep.observe(json!({"what": "find_all_weighted_paths lists the same path twice (an undirected edge left from its `to` end is relaxed through the out-list and again through the in-list, so the parent entry is pushed twice)", "query": line, "shape": c.tag}));
                }
            }
            // below the caps: the distinct listed paths are exactly the simple minimum-weight chains
            if caps.is_none() && ap.paths.len() < 900 && g.edges.len() <= 40 {
                if let Some(all) = ref_min_weight_paths(g, s, t, want.unwrap_or(0), 400) {
                    // the per-node parent cap (100) cannot bind with <= 40 edges
                    if all != seen {
                        let missing = all.difference(&seen).next().cloned();
                        let extra = seen.difference(&all).next().cloned();
                        viol(c.rep, &format!("{site}/wrong_path_set"), &format!("{} simple minimum-weight chains exist, {} distinct returned; missing {missing:?} extra {extra:?}", all.len(), seen.len()), qjson(g, &tag, &line));
                    } else {
                        c.rep.hit("allwpaths.set_checked");
                    }
                }
            }
        }
        Err(GraphError::PathNotFound) => {
            c.rep.hit("allwpaths.none");
            if let Some(best) = costs.get(&t) {
                viol(c.rep, &format!("{site}/missed_path"), &format!("PathNotFound although a walk of cost {best} exists"), qjson(g, &tag, &line));
            }
        }
        Err(GraphError::NodeNotFound(_)) => c.rep.hit("allwpaths.nonode"),
        Err(e) => viol(c.rep, &format!("{site}/unexpected_error"), &format!("{e:?}"), qjson(g, &tag, &line)),
    }
}

fn dir_name(d: Direction) -> &'static str {
    match d {
        Direction::Outgoing => "out",
        Direction::Incoming => "in",
        Direction::Both => "both",
    }
}

/// `edges_of` and `neighbors`: the public views of the stored adjacency every search runs on.
fn do_adjacency(c: &mut Ctx, n: u64, dir: Direction, etype: Option<u8>, f: &Filt) {
    let g = c.g;
    let tag = c.tag.clone();
    // ---- edges_of
    {
        let line = format!("edgesof {} {}", n, dir_name(dir));
        let res = c.eng.edges_of(n, dir);
        let imp = match &res {
            Ok(es) => format!("ok {}", ids(&es.iter().map(|e| e.id).collect::<Vec<_>>())),
            Err(GraphError::NodeNotFound(x)) => format!("nonode {x}"),
            Err(e) => format!("err:{}", vname(e)),
        };
        let model = c.m.ask(&line);
        let key = format!("{}|{}", tag, line);
        c.rep.case("edges_of", if g.has(n) { Some(&key) } else { None });
        c.rep.compare("edges_of", || qjson(g, &tag, &line), &imp, &model);
        if let Ok(es) = &res {
            let out = dir == Direction::Outgoing || dir == Direction::Both;
            let inc = dir == Direction::Incoming || dir == Direction::Both;
            let want: Vec<u64> = g
                .edges
                .iter()
                .filter(|e| (out && (e.src == n || (!e.directed && e.dst == n))) || (inc && (e.dst == n || (!e.directed && e.src == n))))
                .map(|e| e.id)
                .collect();
            let mut want = want;
            want.sort_unstable();
            let got: Vec<u64> = es.iter().map(|e| e.id).collect();
            let records_ok = es.iter().all(|e| g.edge(e.id).map_or(false, |x| x.src == e.from && x.dst == e.to && x.directed == e.directed));
            if got != want {
                viol(c.rep, "graph_engine.edges_of/wrong_set", &format!("got {got:?} want {want:?}"), qjson(g, &tag, &line));
            } else if !records_ok {
                viol(c.rep, "graph_engine.edges_of/wrong_record", &imp, qjson(g, &tag, &line));
            }
            c.rep.hit("edges_of.ok");
        } else {
            c.rep.hit("edges_of.nonode");
        }
    }
    // ---- neighbors
    {
        let line = format!(
            "nbrs {} {} {} {} {}",
            n,
            dir_name(dir),
            etype.map_or("-".to_string(), |t| t.to_string()),
            Filt::conds(&f.node),
            Filt::conds(&f.edge)
        );
        let rf = f.real();
        let et = etype.map(|t| format!("t{t}"));
        let res = c.eng.neighbors(n, et.as_deref(), dir, rf.as_ref());
        let (imp, got) = match &res {
            Ok(ns) => {
                let v: Vec<u64> = ns.iter().map(|x| x.id).collect();
                (format!("ok {}", ids(&v)), Some(v))
            }
            Err(GraphError::NodeNotFound(x)) => (format!("nonode {x}"), None),
            Err(e) => (format!("err:{}", vname(e)), None),
        };
        let model = c.m.ask(&line);
        let key = format!("{}|{}", tag, line);
        c.rep.case("neighbors", if g.has(n) { Some(&key) } else { None });
        c.rep.compare("neighbors", || qjson(g, &tag, &line), &imp, &model);
        if let Some(got) = got {
            let mut want: BTreeSet<u64> = BTreeSet::new();
            for e in &g.edges {
                if etype.map_or(false, |t| t != e.etype) || !f.edge_ok(e) {
                    continue;
                }
                for v in dir_step(e, n, dir) {
                    if v != n && g.has(v) && f.node_ok(g, v) {
                        want.insert(v);
                    }
                }
            }
            let want: Vec<u64> = want.into_iter().collect();
            c.rep.hit(if got.is_empty() { "nbrs.empty" } else { "nbrs.some" });
            if !f.is_none() {
                c.rep.hit("nbrs.filtered");
            }
            if got != want {
                let extra: Vec<u64> = got.iter().copied().filter(|x| !want.contains(x)).collect();
                let kind = if !extra.is_empty() { "node_not_a_neighbour" } else { "node_missing" };
                viol(c.rep, &format!("graph_engine.neighbors/{kind}"), &format!("got {got:?} want {want:?}"), qjson(g, &tag, &line));
            }
        } else {
            c.rep.hit("nbrs.nonode");
        }
    }
}

fn do_traverse(c: &mut Ctx, s: u64, dir: Direction, md: usize, etype: Option<u8>, f: &Filt) {
    let g = c.g;
    let tag = c.tag.clone();
    let line = format!(
        "trav {} {} {} {} {} {}",
        s,
        dir_name(dir),
        md,
        etype.map_or("-".to_string(), |t| t.to_string()),
        Filt::conds(&f.node),
        Filt::conds(&f.edge)
    );
    let rf = f.real();
    let et = etype.map(|t| format!("t{t}"));
    let res = c.eng.traverse(s, dir, md, et.as_deref(), rf.as_ref());
    let (imp, got) = match &res {
        Ok(ns) => {
            let mut v: Vec<u64> = ns.iter().map(|n| n.id).collect();
            v.sort_unstable();
            (format!("ok {}", ids(&v)), Some(v))
        }
        Err(GraphError::NodeNotFound(n)) => (format!("nonode {n}"), None),
        Err(e) => (format!("err:{}", vname(e)), None),
    };
    let model = c.m.ask(&line);
    let key = format!("{}|{}", tag, line);
    c.rep.case("traverse", if md > 0 && c.g.has(s) { Some(&key) } else { None });
    c.rep.compare("traverse", || qjson(g, &tag, &line), &imp, &model);
    c.rep.hit(&format!("trav.{}", dir_name(dir)));
    if let Some(got) = got {
        c.rep.hit("trav.ok");
        let mut dedup = got.clone();
        dedup.dedup();
        let want = ref_traverse(c.g, s, dir, md, etype, f);
        if dedup.len() != got.len() {
            viol(c.rep, "graph_engine.traverse/duplicate_node", &imp, qjson(g, &tag, &line));
        } else if got != want {
            let extra: Vec<u64> = got.iter().copied().filter(|x| !want.contains(x)).collect();
            let missing: Vec<u64> = want.iter().copied().filter(|x| !got.contains(x)).collect();
            let kind = if !extra.is_empty() { "node_outside_bounds" } else { "node_missing" };
            viol(c.rep, &format!("graph_engine.traverse/{kind}"), &format!("extra {extra:?} missing {missing:?}"), qjson(g, &tag, &line));
        }
        if got.len() < c.g.nodes.len() && md > 0 {
            c.rep.hit("trav.bounded");
        }
    } else {
        c.rep.hit("trav.nonode");
    }
}

fn do_varpaths(c: &mut Ctx, s: u64, t: u64, cfg: &VCfg, f: &Filt) {
    do_varpaths_capped(c, s, t, cfg, f, None)
}

/// `cap = Some(k)` (k >= 1): `max_paths = k`; the answer must be the first k matches of the full
/// enumeration (compared with the model), each within bounds and in the reference set, and the flag
/// `truncated` may only be raised when k matches were returned.
fn do_varpaths_capped(c: &mut Ctx, s: u64, t: u64, cfg: &VCfg, f: &Filt, cap: Option<usize>) {
    let g = c.g;
    let tag = c.tag.clone();
    let line = format!(
        "vpaths {} {} {} {} {} {} {} {} {}",
        s,
        t,
        cfg.min,
        cfg.max,
        dir_name(cfg.dir),
        cfg.etypes.as_ref().map_or("-".to_string(), |ts| if ts.is_empty() { "-".into() } else { ts.iter().map(|x| x.to_string()).collect::<Vec<_>>().join(",") }),
        u8::from(cfg.cycles),
        Filt::conds(&f.node),
        Filt::conds(&f.edge)
    );
    let line = match cap {
        Some(k) => format!("vpathsk{} {k}", &line["vpaths".len()..]),
        None => line,
    };
    let mut vc = VariableLengthConfig::with_hops(cfg.min, cfg.max).direction(cfg.dir).allow_cycles(cfg.cycles).max_paths(cap.unwrap_or(1_000_000));
    if let Some(ts) = &cfg.etypes {
        if !ts.is_empty() {
            let names: Vec<String> = ts.iter().map(|t| format!("t{t}")).collect();
            let refs: Vec<&str> = names.iter().map(String::as_str).collect();
            vc = vc.edge_types(&refs);
        }
    }
    if let Some(rf) = f.real() {
        vc = vc.with_filter(rf);
    }
    let res = c.eng.find_variable_paths(s, t, vc);
    let site = "graph_engine.find_variable_paths";
    match res {
        Ok(vp) => {
            if let Some(k) = cap {
                let imp = format!(
                    "ok {} {}",
                    vp.paths.len(),
                    vp.paths.iter().map(|p| format!("{}/{}", dots(&p.nodes), dots(&p.edges))).collect::<Vec<_>>().join(";")
                );
                let imp = imp.trim_end().to_string();
                let model = c.m.ask(&line);
                let key = format!("{}|{}", tag, line);
                c.rep.case("find_variable_paths.capped", if !vp.paths.is_empty() { Some(&key) } else { None });
                c.rep.compare("find_variable_paths.capped", || qjson(g, &tag, &line), &imp, &model);
                c.rep.hit(if vp.stats.truncated { "vpaths.capped.truncated" } else { "vpaths.capped.complete" });
                if vp.paths.len() > k {
                    viol(c.rep, &format!("{site}/more_than_max_paths"), &format!("{} paths for max_paths {k}", vp.paths.len()), qjson(g, &tag, &line));
                }
                if vp.stats.truncated && vp.paths.len() < k {
                    viol(c.rep, &format!("{site}/truncated_below_max_paths"), &format!("truncated with {} paths for max_paths {k}", vp.paths.len()), qjson(g, &tag, &line));
                }
                let want = ref_varpaths(c.g, s, t, cfg, f);
                for p in &vp.paths {
                    if !want.contains(&(p.nodes.clone(), p.edges.clone())) {
                        viol(c.rep, &format!("{site}/extra_path"), &format!("listed path n={} e={} is not a qualifying chain within the bounds", ids(&p.nodes), ids(&p.edges)), qjson(g, &tag, &line));
                        return;
                    }
                }
                let distinct: BTreeSet<(Vec<u64>, Vec<u64>)> = vp.paths.iter().map(|p| (p.nodes.clone(), p.edges.clone())).collect();
                if !vp.stats.truncated && distinct != want {
                    viol(c.rep, &format!("{site}/missing_path"), &format!("not truncated but {} of {} matches listed", distinct.len(), want.len()), qjson(g, &tag, &line));
                }
                return;
            }
            if vp.stats.truncated {
                c.rep.hit("vpaths.truncated");
                return;
            }
            let imp = format!(
                "ok {} {}",
                vp.paths.len(),
                vp.paths.iter().map(|p| format!("{}/{}", dots(&p.nodes), dots(&p.edges))).collect::<Vec<_>>().join(";")
            );
            let imp = imp.trim_end().to_string();
            let model = c.m.ask(&line);
            let key = format!("{}|{}", tag, line);
            c.rep.case("find_variable_paths", if !vp.paths.is_empty() { Some(&key) } else { None });
            c.rep.compare("find_variable_paths", || qjson(g, &tag, &line), &imp, &model);
            c.rep.hit(if vp.paths.is_empty() { "vpaths.empty" } else { "vpaths.ok" });
            if cfg.cycles {
                c.rep.hit("vpaths.cycles");
            }
            let got: BTreeSet<(Vec<u64>, Vec<u64>)> = vp.paths.iter().map(|p| (p.nodes.clone(), p.edges.clone())).collect();
            if got.len() != vp.paths.len() {
                c.rep.hit("vpaths.duplicates");
                c.rep.observe(json!({"what": "find_variable_paths lists the same path twice (directed self-loop seen through out- and in-list under Direction::Both)", "query": line, "shape": c.tag}));
            }
            for p in &vp.paths {
                let n = p.edges.len();
                if n < cfg.min || n > cfg.max {
                    viol(c.rep, &format!("{site}/outside_hop_bounds"), &format!("path with {n} hops for bounds {}..{}", cfg.min, cfg.max), qjson(g, &tag, &line));
                    return;
                }
            }
            let want = ref_varpaths(c.g, s, t, cfg, f);
            if got != want {
                let extra = got.difference(&want).next().cloned();
                let missing = want.difference(&got).next().cloned();
                let kind = if extra.is_some() { "extra_path" } else { "missing_path" };
                viol(c.rep, &format!("{site}/{kind}"), &format!("extra {extra:?} missing {missing:?} (got {}, want {})", got.len(), want.len()), qjson(g, &tag, &line));
            }
        }
        Err(GraphError::NodeNotFound(n)) => {
            let model = c.m.ask(&line);
            c.rep.case("find_variable_paths", None);
            c.rep.compare("find_variable_paths", || qjson(g, &tag, &line), &format!("nonode {n}"), &model);
            c.rep.hit("vpaths.nonode");
        }
        Err(e) => viol(c.rep, &format!("{site}/unexpected_error"), &format!("{e:?}"), qjson(g, &tag, &line)),
    }
}

fn show_pairs<V: std::fmt::Display>(m: &BTreeMap<u64, V>) -> String {
    if m.is_empty() {
        "-".into()
    } else {
        m.iter().map(|(k, v)| format!("{k}:{v}")).collect::<Vec<_>>().join(",")
    }
}

/// The algorithm family on the whole graph (`etype = None`) or restricted to one edge type.
/// Union-find components, Kruskal, core peeling and the forward triangle count are compared with the
/// Lean model (exact answers) AND with the independent references; SCC / articulation points / bridges
/// with the references only.
fn do_algorithms(c: &mut Ctx, etype: Option<u8>) {
    let full = c.g;
    if full.nodes.is_empty() {
        return;
    }
    // the graph the textbook definitions are evaluated on: same nodes, edges of the requested type
    let sub = GG { nodes: full.nodes.clone(), edges: full.edges.iter().filter(|e| etype.map_or(true, |t| e.etype == t)).cloned().collect() };
    let g = &sub;
    let et_name = etype.map(|t| format!("t{t}"));
    let et_arg = etype.map_or("-".to_string(), |t| t.to_string());
    let sfx = if etype.is_some() { ".typed" } else { "" };
    let tag0 = c.tag.clone();
    let gj = || json!({"graph": full.to_json(), "edge_type": et_name, "shape": tag0});
    let tagc = format!("{}|et={}", c.tag, et_arg);
    // connected components
    c.rep.case(&format!("algo.connected_components{sfx}"), Some(&tagc));
    {
        let cfg = et_name.as_ref().map(|n| CommunityConfig::new().edge_type(n.clone()));
        let line = format!("components {et_arg}");
        match c.eng.connected_components(cfg) {
            Ok(r) => {
                let comm: BTreeMap<u64, u64> = r.communities.iter().map(|(k, v)| (*k, *v)).collect();
                let imp = format!("ok {}", show_pairs(&comm));
                let model = c.m.ask(&line);
                c.rep.compare(&format!("algo.connected_components{sfx}"), || json!({"graph": full.to_json(), "query": line}), &imp, &model);
                let got = canon_partition(r.members.clone().into_values());
                let want = ref_components(g);
                c.rep.hit(&format!("components.{}", want.len().min(5)));
                // members / communities / community_count must describe the same partition
                let mut by_root: BTreeMap<u64, Vec<u64>> = BTreeMap::new();
                for (n, root) in &comm {
                    by_root.entry(*root).or_default().push(*n);
                }
                let from_comm = canon_partition(by_root.clone().into_values());
                if got != want {
                    viol(c.rep, "graph_engine.connected_components/wrong_partition", &format!("got {got:?} want {want:?}"), gj());
                } else if from_comm != want || r.community_count != want.len() {
                    viol(c.rep, "graph_engine.connected_components/inconsistent_result", &format!("communities {from_comm:?} count {} members {got:?}", r.community_count), gj());
                } else if by_root.iter().any(|(root, ms)| !ms.contains(root)) {
                    viol(c.rep, "graph_engine.connected_components/label_not_a_member", &format!("{comm:?}"), gj());
                }
            }
            Err(e) => viol(c.rep, "graph_engine.connected_components/unexpected_error", &format!("{e:?}"), gj()),
        }
    }
    // strongly connected components
    c.rep.case(&format!("algo.scc{sfx}"), Some(&tagc));
    {
        let cfg = match &et_name {
            Some(n) => SccConfig::new().edge_type(n.clone()),
            None => SccConfig::new(),
        };
        match c.eng.strongly_connected_components(&cfg) {
            Ok(r) => {
                let got = canon_partition(r.members.clone());
                {
                    let imp = format!("ok {}", got.iter().map(|grp| dots(grp)).collect::<Vec<_>>().join(";"));
                    let line = format!("scc {et_arg}");
                    let model = c.m.ask(&line);
                    c.rep.compare(&format!("algo.scc{sfx}"), || json!({"graph": full.to_json(), "query": line}), &imp, &model);
                    let mut by_comp: BTreeMap<usize, Vec<u64>> = BTreeMap::new();
                    for (n, k) in &r.components {
                        by_comp.entry(*k).or_default().push(*n);
                    }
                    if canon_partition(by_comp.into_values()) != got || r.component_count != got.len() {
                        viol(c.rep, "graph_engine.strongly_connected_components/inconsistent_result", &format!("components map / count {} disagree with members {got:?}", r.component_count), gj());
                    }
                    c.rep.hit(if got.iter().any(|grp| grp.len() > 1) { "scc.nontrivial" } else { "scc.singletons" });
                }
                let want = ref_scc(g);
                if got != want {
                    viol(c.rep, "graph_engine.strongly_connected_components/wrong_partition", &format!("got {got:?} want {want:?}"), gj());
                }
            }
            Err(e) => viol(c.rep, "graph_engine.strongly_connected_components/unexpected_error", &format!("{e:?}"), gj()),
        }
    }
    // minimum spanning forest (no edge-type option): both settings of compute_forest
    if etype.is_none() {
        for forest in [true, false] {
            c.rep.case("algo.mst", Some(&format!("{tagc}|forest={forest}")));
            match c.eng.minimum_spanning_tree(&MstConfig::new("w").compute_forest(forest)) {
                Ok(r) => {
                    let weights: Vec<String> = r.edges.iter().map(|e| cost_exact(e.weight).map_or(format!("inexact:{}", e.weight), |x| x.to_string())).collect();
                    let imp = format!(
                        "ok {} {} {}",
                        cost_exact(r.total_weight).map_or(format!("inexact:{}", r.total_weight), |x| x.to_string()),
                        r.tree_count,
                        if weights.is_empty() { "-".to_string() } else { weights.join(",") }
                    );
                    let line = format!("mst {}", u8::from(forest));
                    let model = c.m.ask(&line);
                    c.rep.compare("algo.mst", || json!({"graph": full.to_json(), "query": line}), &imp, &model);
                    let (want_w, want_cnt) = ref_mst_weight(g);
                    let comps = ref_components(g).len();
                    let ix = index_of(g);
                    let mut uf = Uf::new(g.nodes.len());
                    let mut sum = 0i128;
                    let mut forest_ok = true;
                    for me in &r.edges {
                        match g.edge(me.edge_id) {
                            Some(e) if e.src == me.from && e.dst == me.to && cost_exact(me.weight) == Some(weight_of(e)) => {
                                sum += weight_of(e);
                                if !uf.union(ix[&e.src], ix[&e.dst]) {
                                    forest_ok = false;
                                }
                            }
                            _ => forest_ok = false,
                        }
                    }
                    c.rep.hit(if comps > 1 { "mst.forest" } else { "mst.tree" });
                    if g.edges.iter().any(|e| weight_of(e) < 0) {
                        c.rep.hit("mst.negative_weight");
                    }
                    if !forest_ok {
                        viol(c.rep, "graph_engine.minimum_spanning_tree/not_a_forest", "edges listed do not form a forest of real edges", gj());
                    } else if r.edges.len() != want_cnt || r.tree_count != comps {
                        viol(c.rep, "graph_engine.minimum_spanning_tree/not_spanning", &format!("edges {} (want {want_cnt}), tree_count {} (components {comps})", r.edges.len(), r.tree_count), gj());
                    } else if sum != want_w || cost_exact(r.total_weight) != Some(want_w) {
                        viol(c.rep, "graph_engine.minimum_spanning_tree/not_minimum", &format!("total {} / edge sum {sum}, minimum is {want_w}", r.total_weight), gj());
                    }
                }
                Err(e) => viol(c.rep, "graph_engine.minimum_spanning_tree/unexpected_error", &format!("{e:?}"), gj()),
            }
        }
    }
    // core numbers
    c.rep.case(&format!("algo.kcore{sfx}"), Some(&tagc));
    {
        let cfg = match &et_name {
            Some(n) => KCoreConfig::new().undirected().edge_type(n.clone()),
            None => KCoreConfig::new().undirected(),
        };
        match c.eng.kcore_decomposition(&cfg) {
            Ok(r) => {
                let got: BTreeMap<u64, usize> = r.core_numbers.iter().map(|(k, v)| (*k, *v)).collect();
                let line = format!("kcore {et_arg}");
                let model = c.m.ask(&line);
                c.rep.compare(&format!("algo.kcore{sfx}"), || json!({"graph": full.to_json(), "query": line}), &format!("ok {}", show_pairs(&got)), &model);
                let want = ref_core_numbers(g);
                let degeneracy = want.values().copied().max().unwrap_or(0);
                c.rep.hit(&format!("kcore.degeneracy.{}", degeneracy.min(5)));
                let mut cores: BTreeMap<u64, usize> = BTreeMap::new();
                for (k, ns) in &r.cores {
                    for n in ns {
                        cores.insert(*n, *k);
                    }
                }
                if got != want {
                    viol(c.rep, "graph_engine.kcore_decomposition/wrong_core_number", &format!("got {got:?} want {want:?}"), gj());
                } else if r.degeneracy != degeneracy || cores != want {
                    viol(c.rep, "graph_engine.kcore_decomposition/inconsistent_result", &format!("degeneracy {} cores {cores:?} core_numbers {got:?}", r.degeneracy), gj());
                }
            }
            Err(e) => viol(c.rep, "graph_engine.kcore_decomposition/unexpected_error", &format!("{e:?}"), gj()),
        }
    }
    // triangles: undirected view against the textbook count; the default (directed, out-neighbour) mode
    // has no textbook definition and is compared with the model only
    for undirected in [true, false] {
        let stream = format!("algo.triangles{}{sfx}", if undirected { "" } else { ".directed_mode" });
        c.rep.case(&stream, Some(&tagc));
        let mut cfg = TriangleConfig::new();
        if undirected {
            cfg = cfg.undirected();
        }
        if let Some(n) = &et_name {
            cfg = cfg.edge_type(n.clone());
        }
        match c.eng.count_triangles(&cfg) {
            Ok(r) => {
                let got_per: BTreeMap<u64, usize> = r.node_triangles.iter().map(|(k, v)| (*k, *v)).collect();
                let line = format!("triangles {et_arg} {}", u8::from(undirected));
                let model = c.m.ask(&line);
                c.rep.compare(&stream, || json!({"graph": full.to_json(), "query": line}), &format!("ok {} {}", r.triangle_count, show_pairs(&got_per)), &model);
                if undirected {
                    let (want, want_per) = ref_triangles(g);
                    c.rep.hit(if want == 0 { "triangles.zero" } else { "triangles.some" });
                    if r.triangle_count != want {
                        viol(c.rep, "graph_engine.count_triangles/wrong_count", &format!("triangle_count {} but the graph has {want} triangles", r.triangle_count), gj());
                    } else if got_per != want_per {
                        viol(c.rep, "graph_engine.count_triangles/wrong_node_count", &format!("got {got_per:?} want {want_per:?}"), gj());
                    }
                }
            }
            Err(e) => viol(c.rep, "graph_engine.count_triangles/unexpected_error", &format!("{e:?}"), gj()),
        }
    }
    // articulation points
    let bcfg = match &et_name {
        Some(n) => BiconnectedConfig::new().edge_type(n.clone()),
        None => BiconnectedConfig::new(),
    };
    c.rep.case(&format!("algo.articulation{sfx}"), Some(&tagc));
    match c.eng.articulation_points(&bcfg) {
        Ok(mut got) => {
            got.sort_unstable();
            {
                let line = format!("artic {et_arg}");
                let model = c.m.ask(&line);
                c.rep.compare(&format!("algo.articulation{sfx}"), || json!({"graph": full.to_json(), "query": line}), &format!("ok {}", ids(&got)), &model);
                let mut d = got.clone();
                d.dedup();
                if d.len() != got.len() {
                    viol(c.rep, "graph_engine.articulation_points/duplicate", &format!("{got:?}"), gj());
                }
                c.rep.hit(if got.is_empty() { "artic.none" } else { "artic.some" });
            }
            let want = ref_articulation(g);
            if got != want {
                viol(c.rep, "graph_engine.articulation_points/wrong_set", &format!("got {got:?} want {want:?}"), gj());
            }
        }
        Err(e) => viol(c.rep, "graph_engine.articulation_points/unexpected_error", &format!("{e:?}"), gj()),
    }
    // bridges
    c.rep.case(&format!("algo.bridges{sfx}"), Some(&tagc));
    match c.eng.bridges(&bcfg) {
        Ok(bs) => {
            let mut got: Vec<(u64, u64)> = bs.into_iter().map(|(a, b)| (a.min(b), a.max(b))).collect();
            got.sort_unstable();
            {
                let line = format!("bridges {et_arg}");
                let model = c.m.ask(&line);
                let imp = if got.is_empty() { "ok -".to_string() } else { format!("ok {}", got.iter().map(|(a, b)| format!("{a}.{b}")).collect::<Vec<_>>().join(";")) };
                c.rep.compare(&format!("algo.bridges{sfx}"), || json!({"graph": full.to_json(), "query": line}), &imp, &model);
            }
            let want = ref_bridges(g, false);
            c.rep.hit(if want.is_empty() { "bridges.none" } else { "bridges.some" });
            if got != want {
                viol(c.rep, "graph_engine.bridges/wrong_set", &format!("got {got:?} want {want:?}"), gj());
            } else if want != ref_bridges(g, true) {
                // outside the property's list (components / spanning tree / core numbers / triangles):
                // recorded, not failed
                c.rep.hit("bridges.parallel_pair_reported");
                if c.rep.distribution.get("bridges.parallel_pair_reported").copied().unwrap_or(0) <= 5 {
                    c.rep.observe(json!({"what": "bridges() reports a node pair joined by parallel edges as a bridge (simple-graph view); in the multigraph removing one of those edges disconnects nothing", "bridges": format!("{got:?}"), "shape": tagc}));
                }
            }
        }
        Err(e) => viol(c.rep, "graph_engine.bridges/unexpected_error", &format!("{e:?}"), gj()),
    }
}

fn run_graph(plan: &Planned, m: &mut Model, rep: &mut Report, r: &mut Rng, budget: &Budget) {
    let (eng, g, deleted) = build_with_deleted(plan);
    let negative = g.edges.iter().any(|e| e.w.map_or(false, |w| w < 0));
    let tag = format!("{}:{:?}:n{}e{}", plan.shape, plan.wprofile, g.nodes.len(), g.edges.len());
    if !load_model(m, &g) {
        rep.disagree("load", json!({"graph": g.to_json()}), "ok", "model rejected graph lines");
        return;
    }
    rep.hit(&format!("shape.{}", plan.shape));
    rep.hit(&format!("weights.{:?}", plan.wprofile));
    rep.hit(&format!("nodes.{}", match g.nodes.len() { 0..=7 => "1-7", 8..=20 => "8-20", _ => "21-40" }));
    if g.edges.iter().any(|e| e.src == e.dst) {
        rep.hit("graph.self_loop");
    }
    {
        let mut seen = BTreeSet::new();
        if g.edges.iter().any(|e| !seen.insert((e.src.min(e.dst), e.src.max(e.dst)))) {
            rep.hit("graph.parallel_edges");
        }
    }
    if ref_components(&g).len() > 1 {
        rep.hit("graph.disconnected");
    }
    if g.edges.iter().any(|e| e.directed) && g.edges.iter().any(|e| !e.directed) {
        rep.hit("graph.mixed_direction");
    }
    if !plan.del_edges.is_empty() || !plan.del_nodes.is_empty() {
        rep.hit("graph.after_deletions");
    }
    if rep.samples.len() < 3 {
        rep.sample(json!({"shape": tag, "graph": g.to_json()}));
    }
    let mut rep_hit_deleted = false;
    let mut c = Ctx { eng: &eng, g: &g, m, rep, tag };
    let mut all: Vec<u64> = g.nodes.iter().map(|x| x.0).collect();
    let ghost = all.iter().copied().max().unwrap_or(0) + 7;
    all.push(ghost); // a node id that never existed
    for d in &deleted {
        // an id that existed and was deleted (its adjacency keys may linger in the store)
        if !all.contains(d) {
            all.push(*d);
            rep_hit_deleted = true;
        }
    }
    if rep_hit_deleted {
        c.rep.hit("query.deleted_node");
    }
    if plan.edges.iter().any(|e| e.4.is_none() && e.5) {
        c.rep.hit("weights.non_numeric_property");
    }
    let none = Filt::default();
    // ---- find_path, every ordered pair (plus the missing node)
    for &s in &all {
        for &t in &all {
            do_find_path(&mut c, s, t, &none, "find_path");
        }
    }
    // ---- find_path with filters
    for _ in 0..budget.filters {
        let f = gen_filter(r);
        for &s in &all {
            for &t in &all {
                if g.nodes.len() <= 12 || r.chance(budget.filter_pair_num, 16) {
                    do_find_path(&mut c, s, t, &f, "find_path.filtered");
                }
            }
        }
    }
    // ---- weighted
    let has_zero = g.edges.iter().any(|e| weight_of(e) == 0);
    for &s in &all {
        let costs = ref_costs(&g, s);
        let costs_in = ref_costs_dir(&g, s, Direction::Incoming);
        let costs_both = ref_costs_dir(&g, s, Direction::Both);
        debug_assert_eq!(costs, ref_costs_dir(&g, s, Direction::Outgoing));
        for &t in &all {
            do_weighted(&mut c, s, t, &costs, negative);
            if !negative {
                do_astar(&mut c, s, t, &costs, Direction::Outgoing);
                if g.nodes.len() <= 12 || r.chance(1, 4) {
                    do_astar(&mut c, s, t, &costs_in, Direction::Incoming);
                    do_astar(&mut c, s, t, &costs_both, Direction::Both);
                }
                if r.chance(1, 6) {
                    // config variants: one edge type and / or no weight property
                    let (etype, weighted) = match r.below(3) {
                        0 => (Some(r.below(3) as u8), true),
                        1 => (Some(r.below(3) as u8), false),
                        _ => (None, false),
                    };
                    let dir = *r.pick(&[Direction::Outgoing, Direction::Incoming, Direction::Both]);
                    do_astar_cfg(&mut c, s, t, dir, etype, weighted);
                }
                // find_all_weighted_paths on every graph, zero-weight edges / cycles / self-loops included
                // (before aa940b8b it did not terminate when a zero-weight cycle lay on a minimum-weight
                // route; tpl-zero-cycle and tpl-zero-selfloop are the directed regression cases)
                if has_zero {
                    c.rep.hit("allwpaths.zero_weight_graph");
                }
                if g.nodes.len() <= 12 || r.chance(1, 3) {
                    do_all_weighted(&mut c, s, t, &costs, None);
                    if r.chance(1, 4) {
                        // both caps small: max_paths cuts the enumeration, max_parents_per_node the parent lists
                        let caps = (1 + r.below(3) as usize, r.below(3) as usize);
                        do_all_weighted(&mut c, s, t, &costs, Some(caps));
                    }
                }
            }
        }
    }
    // ---- all shortest paths
    for &s in &all {
        for &t in &all {
            if g.nodes.len() <= 14 || r.chance(1, 6) {
                do_all_paths(&mut c, s, t, None);
                if r.chance(1, 4) {
                    let caps = (1 + r.below(3) as usize, r.below(3) as usize);
                    do_all_paths(&mut c, s, t, Some(caps));
                }
            }
        }
    }
    // ---- traversals
    let dirs = [Direction::Outgoing, Direction::Incoming, Direction::Both];
    // ---- the stored adjacency itself: edges_of / neighbors of every node in every direction
    for &s in &all {
        for &dir in &dirs {
            let etype = if r.chance(1, 3) { Some(r.below(3) as u8) } else { None };
            let f = if r.chance(1, 3) { gen_filter(r) } else { Filt::default() };
            do_adjacency(&mut c, s, dir, etype, &f);
        }
    }
    for &s in &all {
        for &dir in &dirs {
            for md in [0usize, 1, 2, 3, 5, 64] {
                if g.nodes.len() > 10 && !r.chance(1, 3) {
                    continue;
                }
                let etype = if r.chance(1, 3) { Some(r.below(3) as u8) } else { None };
                let f = if r.chance(1, 3) { gen_filter(r) } else { Filt::default() };
                do_traverse(&mut c, s, dir, md, etype, &f);
            }
        }
    }
    // ---- variable-length paths (bounded work: small or sparse graphs, short hops)
    let small = g.edges.len() <= 14;
    let tries = if small { budget.var_small } else { budget.var_large };
    for _ in 0..tries {
        let s = *r.pick(&all);
        let t = *r.pick(&all);
        let maxh = if small { 1 + r.below(4) as usize } else { 1 + r.below(2) as usize };
        let minh = r.below(maxh as u64 + 1) as usize;
        let cfg = VCfg {
            min: if r.chance(1, 12) { maxh + 1 } else { minh },
            max: if r.chance(1, 10) { 0 } else { maxh },
            dir: *r.pick(&dirs),
            etypes: if r.chance(1, 4) { Some(vec![r.below(3) as u8, r.below(3) as u8]) } else { None },
            cycles: r.chance(1, 3),
        };
        let f = if r.chance(1, 3) { gen_filter(r) } else { Filt::default() };
        do_varpaths(&mut c, s, t, &cfg, &f);
        if r.chance(1, 3) {
            let k = 1 + r.below(3) as usize;
            do_varpaths_capped(&mut c, s, t, &cfg, &f, Some(k));
        }
    }
    // ---- algorithm family: whole graph, then restricted to one edge type
    do_algorithms(&mut c, None);
    let t = r.below(3) as u8;
    do_algorithms(&mut c, Some(t));
}

struct Budget {
    filters: usize,
    filter_pair_num: u64,
    var_small: usize,
    var_large: usize,
}

/// hand-written graphs run first (the fixed defect's witness and relatives)
fn templates() -> Vec<Planned> {
    let e = |a: usize, b: usize, d: bool, w: Option<i64>| (a, b, d, 0u8, w, false, Some(1i64));
    let mk = |n: usize, edges: Vec<(usize, usize, bool, u8, Option<i64>, bool, Option<i64>)>, shape: &'static str| Planned {
        n,
        node_props: vec![Some(1); n],
        edges,
        del_edges: vec![],
        del_nodes: vec![],
        shape,
        wprofile: WProfile::Mixed,
    };
    vec![
        // one directed edge A->B: find_path(B, A) must be PathNotFound
        mk(2, vec![e(0, 1, true, Some(3))], "tpl-single-directed"),
        // the only short route runs against a directed edge; the real route is longer
        mk(4, vec![e(1, 0, true, Some(1)), e(0, 2, true, Some(1)), e(2, 3, true, Some(1)), e(3, 1, true, Some(1))], "tpl-backward-shortcut"),
        // mixed: undirected edge usable both ways, directed not
        mk(3, vec![e(0, 1, false, Some(2)), e(2, 1, true, Some(2))], "tpl-mixed"),
        // parallel edges with different weights, both orders
        mk(2, vec![e(0, 1, true, Some(9)), e(0, 1, true, Some(1)), e(1, 0, false, Some(4)), e(1, 0, false, Some(7))], "tpl-parallel"),
        // zero-weight cycle and self loops
        mk(3, vec![e(0, 1, true, Some(0)), e(1, 0, true, Some(0)), e(1, 1, true, Some(0)), e(1, 2, false, Some(0)), e(2, 2, false, Some(5))], "tpl-zero-cycle"),
        // 1 -> 2 (weight 0) plus a zero-weight self-loop on 2: find_all_weighted_paths(1, 2) used to run forever
        mk(2, vec![e(0, 1, true, Some(0)), e(1, 1, true, Some(0))], "tpl-zero-selfloop"),
        // one directed edge 1->2 weight 3 queried backwards with Direction::Both; parallel 9 / 1 (A* regression)
        mk(3, vec![e(0, 1, true, Some(3)), e(0, 2, true, Some(9)), e(0, 2, true, Some(1))], "tpl-astar-edge-choice"),
        // triangle with a pendant on the smallest id (degree order != id order)
        mk(4, vec![e(0, 1, false, None), e(1, 2, false, None), e(0, 2, false, None), e(0, 3, false, None)], "tpl-triangle-pendant"),
        // diamond of two equal-weight routes beside a direct edge of the same total: three minimum-weight
        // paths (the loop must keep running until the popped cost exceeds the destination cost, and
        // equal-cost parents must be appended, not replaced)
        mk(4, vec![e(0, 1, true, Some(1)), e(0, 2, true, Some(1)), e(1, 3, true, Some(1)), e(2, 3, true, Some(1)), e(0, 3, true, Some(2))], "tpl-diamond-equal"),
        // an undirected edge created as 1--0 and left from its `to` end (find_all_weighted_paths lists
        // the path twice: recorded as an observation), next to a directed parallel edge
        mk(3, vec![e(1, 0, false, Some(2)), e(0, 1, true, Some(2)), e(1, 2, false, Some(0))], "tpl-undirected-from-to-end"),
        // two triangles joined by a bridge, a pendant and an isolated node: components, articulation points,
        // bridges, core numbers 2/2/2/2/2/2/1/0, SCCs of the directed half
        mk(8, vec![e(0, 1, false, Some(1)), e(1, 2, false, Some(1)), e(2, 0, false, Some(1)), e(2, 3, false, Some(4)),
                   e(3, 4, true, Some(1)), e(4, 5, true, Some(1)), e(5, 3, true, Some(1)), e(5, 6, true, Some(7))], "tpl-two-triangles-bridge"),
        // Kruskal: a negative weight, a missing weight (= 1) and a tie between the two heaviest edges of a cycle
        mk(5, vec![e(0, 1, false, Some(3)), e(1, 2, false, Some(-1)), e(0, 2, false, Some(3)), e(2, 3, false, None)], "tpl-mst-tie-negative"),
        // union by rank: two chains merged at their far ends, then a redundant edge (path compression on a deep tree)
        mk(6, vec![e(0, 1, false, Some(1)), e(2, 3, false, Some(1)), e(4, 5, false, Some(1)), e(1, 3, false, Some(2)), e(3, 5, false, Some(2)), e(0, 5, false, Some(9))], "tpl-union-chains"),
    ]
}

/// corpus/C18/*.ops: hand-written graphs (past failures first); see the header of the files
fn corpus() -> Vec<Planned> {
    let mut files: Vec<_> = std::fs::read_dir("corpus/C18")
        .map(|d| d.filter_map(|e| e.ok()).map(|e| e.path()).collect())
        .unwrap_or_else(|_| vec![]);
    files.sort();
    let mut out: Vec<Planned> = Vec::new();
    let oi = |s: &str| if s == "-" { None } else { s.parse::<i64>().ok() };
    for f in files {
        let Ok(text) = std::fs::read_to_string(&f) else { continue };
        for line in text.lines() {
            let w: Vec<&str> = line.split_whitespace().collect();
            match w.as_slice() {
                ["graph", _name] => out.push(Planned {
                    n: 0,
                    node_props: vec![],
                    edges: vec![],
                    del_edges: vec![],
                    del_nodes: vec![],
                    shape: "corpus",
                    wprofile: WProfile::Mixed,
                }),
                ["node", _i, p] => {
                    if let Some(g) = out.last_mut() {
                        g.node_props.push(oi(p));
                        g.n += 1;
                    }
                }
                ["edge", a, b, k, t, wt, p] => {
                    if let (Some(g), Ok(a), Ok(b), Ok(t)) = (out.last_mut(), a.parse::<usize>(), b.parse::<usize>(), t.parse::<u8>()) {
                        if a < g.n && b < g.n {
                            g.edges.push((a, b, *k == "d", t, oi(wt), false, oi(p)));
                        }
                    }
                }
                _ => {}
            }
        }
    }
    out
}

fn main() {
    let args = parse_args();
    let mut rep = Report::new(
        "a case = one query (find_path / find_weighted_path / traverse / find_variable_paths / A* / find_all_paths / find_all_weighted_paths / edges_of / neighbors / one algorithm under one config) on one generated graph; \
         non-trivial = both endpoints exist and differ (paths), depth>0 (traverse), at least one path returned (variable-length), the node exists (edges_of / neighbors); keyed by graph shape + query text",
    );
    rep.expected_branches = [
        "path.ok", "path.none", "path.nonode", "path.filtered.ok", "path.filtered.none", "path.filter.blocked",
        "wpath.ok", "wpath.none", "wpath.nonode", "wpath.neg", "wpath.zero_cost",
        "trav.ok", "trav.nonode", "trav.bounded", "trav.out", "trav.in", "trav.both",
        "vpaths.ok", "vpaths.empty", "vpaths.cycles", "vpaths.nonode",
        "graph.self_loop", "graph.parallel_edges", "graph.disconnected", "graph.mixed_direction", "graph.after_deletions",
        "triangles.some", "allpaths.ok", "allpaths.none", "allpaths.multi", "astar.ok",
        "allpaths.capped", "allwpaths.ok", "allwpaths.none", "allwpaths.multi", "allwpaths.capped", "allwpaths.set_checked",
        "allwpaths.zero_weight_graph", "mst.forest", "mst.tree", "components.1", "components.2", "kcore.degeneracy.0",
        "kcore.degeneracy.2", "triangles.zero", "nbrs.some", "nbrs.empty", "nbrs.filtered", "nbrs.nonode", "edges_of.ok",
        "edges_of.nonode", "query.deleted_node", "weights.non_numeric_property",
        "astar.cfg.typed", "astar.cfg.typed_unweighted", "astar.cfg.unweighted", "scc.nontrivial", "scc.singletons", "artic.some", "artic.none", "bridges.some", "bridges.none",
        "vpaths.capped.truncated", "vpaths.capped.complete",
    ]
    .iter()
    .map(|s| s.to_string())
    .collect();
    let mut m = Model::spawn(&args.driver);
    let root = Rng::new(args.seed);
    let budget = if args.thorough {
        Budget { filters: 3, filter_pair_num: 8, var_small: 60, var_large: 25 }
    } else {
        Budget { filters: 2, filter_pair_num: 4, var_small: 30, var_large: 10 }
    };

    // templates first
    {
        let mut r = root.fork("templates");
        let from_files = corpus();
        rep.hit_n("corpus.graphs", from_files.len() as u64);
        for plan in from_files.iter().chain(templates().iter()) {
            run_graph(plan, &mut m, &mut rep, &mut r, &budget);
        }
    }
    let (small, medium, large, neg) = if args.thorough { (900, 300, 90, 120) } else { (220, 70, 20, 36) };
    let mut gen = root.fork("graphs");
    let mut qr = root.fork("queries");
    for (class, count) in [(0u8, small), (1, medium), (2, large)] {
        for _ in 0..count {
            let plan = plan_graph(&mut gen, class, false);
            run_graph(&plan, &mut m, &mut rep, &mut qr, &budget);
        }
    }
    let mut gen = root.fork("negative-graphs");
    for i in 0..neg {
        let plan = plan_graph(&mut gen, if i % 4 == 3 { 1 } else { 0 }, true);
        run_graph(&plan, &mut m, &mut rep, &mut qr, &budget);
    }
    rep.note("A* (zero heuristic) is modelled for its cost only (the returned path is validated by the harness-side oracles); count_triangles in its default directed mode has a model but no textbook definition; custom A* heuristics, biconnected components' edge sets, SCC condensation, clustering coefficients, find_variable_paths memory limit / stats are not modelled");
    rep.note("hash-map / hash-set iteration orders (neighbour sets, Kruskal's edge scan, DFS visiting order) are unspecified in the engine: answers are compared canonicalised (sets, partitions, totals, ascending accepted weights), and the Lean theorems prove the compared quantities independent of the order");
    rep.note("graphs with a negative weight are outside the property's quantifier: find_weighted_path is only compared with the model there (error/early-exit behaviour)");
    rep.note("weights are integers (Int or integer-valued Float properties) with path sums < 2^53, on which the engine's f64 arithmetic is exact");
    rep.write(&args.out);
}
