//! C11 correspondence: 2–8 REAL threads on a real `TensorStore` under the deterministic scheduler
//! vs the Lean model of the store's atomic steps (`drv_kv`).
//!
//! Per case: programs (one op list per thread) + a schedule.  The real run's yield trace
//! (thread, site, key per step), the per-op results with their first/last step, the final image,
//! the log records and the image of the store recovered from the log must equal the model's.
//! Oracles on the real outputs: Wing–Gong linearizability check of the recorded history against the
//! key→value specification; recovered state = last in-memory state after quiescence (per key, after
//! EVERY run with a log); the Lean witness interleavings replayed on the real store.
//!
//! Two ways of dealing with the log mutex of durable writes.  MIRROR (default): the harness tracks
//! the mutex from the yield trace and never grants a thread that would block, so a run is a fully
//! controlled schedule — but code that runs between the entry of `put_durable` / `delete_durable`
//! and `Mutex::lock` is then never executed while another thread holds the mutex.  REAL MUTEX
//! (`Ctx::real_mutex`, streams `directed.real_mutex.*`, `witness.delete_skip_if_absent`,
//! `random.durable_real_mutex`): such a thread IS granted, runs up to its block on the real mutex
//! (the scheduler sees the stall and goes on with the parked threads), and takes its log step when
//! the holder releases; the harness reconstructs from what it observes the EFFECTIVE step order
//! (the blocked thread's log step right after the holder's last step), which is the schedule the
//! model is asked about, and the oracles are evaluated on the real outputs as in every other run.
use nverif::sched::run_threads;
use nverif::*;
use serde_json::json;
use std::collections::{BTreeMap, BTreeSet, HashSet};
use std::sync::{Arc, Mutex};
use tensor_store::{
    CacheRing, ScalarValue, SyncMode, TensorData, TensorStore, TensorValue, TensorWal, WalConfig, WalEntry,
};

// ------------------------------------------------------------------ vocabulary shared with the model

#[derive(Clone, Copy, PartialEq, Eq, PartialOrd, Ord, Hash, Debug)]
enum Cls {
    P,
    G,
    T,
    C,
    E,
}
const CLASSES: [Cls; 5] = [Cls::P, Cls::G, Cls::T, Cls::C, Cls::E];

impl Cls {
    fn ch(self) -> char {
        match self {
            Cls::P => 'p',
            Cls::G => 'g',
            Cls::T => 't',
            Cls::C => 'c',
            Cls::E => 'e',
        }
    }
    fn prefix(self) -> &'static str {
        match self {
            Cls::P => "user:",
            Cls::G => "node:",
            Cls::T => "table:",
            Cls::C => "_cache:",
            Cls::E => "emb:",
        }
    }
    fn name(self) -> &'static str {
        match self {
            Cls::P => "plain",
            Cls::G => "graph",
            Cls::T => "table",
            Cls::C => "cache",
            Cls::E => "emb",
        }
    }
}

/// A key (or a scan prefix): ANY string, interned so that `Key` stays `Copy`.  Its class is what
/// `SlabRouter::classify_key` computes from the string; its order is the byte-wise order of the
/// strings (Rust's `String: Ord`, the model's `bleq`).
#[derive(Clone, Copy, PartialEq, Eq, Hash, Debug)]
struct Key(u32);

static KEYS: Mutex<Vec<String>> = Mutex::new(Vec::new());

impl Key {
    fn of(s: &str) -> Key {
        let mut t = KEYS.lock().unwrap();
        if let Some(i) = t.iter().position(|x| x == s) {
            return Key(i as u32);
        }
        t.push(s.to_string());
        Key((t.len() - 1) as u32)
    }
    fn new(cls: Cls, id: u32) -> Key {
        Key::of(&format!("{}{}", cls.prefix(), id))
    }
    fn real(self) -> String {
        KEYS.lock().unwrap()[self.0 as usize].clone()
    }
    /// mirror of `SlabRouter::classify_key`
    fn cls(self) -> Cls {
        let s = self.real();
        if s.starts_with("emb:") {
            Cls::E
        } else if s.starts_with("node:") || s.starts_with("edge:") {
            Cls::G
        } else if s.starts_with("table:") {
            Cls::T
        } else if s.starts_with("_cache:") {
            Cls::C
        } else {
            Cls::P
        }
    }
    /// `<p|g|t|c|e><id>` for `user:<id>` / `node:<id>` / `table:<id>` / `_cache:<id>` / `emb:<id>`
    /// (canonical decimal id), `x<hex of the UTF-8 bytes>` for every other string
    fn show(self) -> String {
        let s = self.real();
        for c in CLASSES {
            if let Some(rest) = s.strip_prefix(c.prefix()) {
                let canonical = !rest.is_empty() && rest.bytes().all(|b| b.is_ascii_digit()) && (rest.len() == 1 || !rest.starts_with('0'));
                if canonical {
                    return format!("{}{}", c.ch(), rest);
                }
            }
        }
        format!("x{}", hexs(s.as_bytes()))
    }
    /// as a scan prefix: `*` = "", a class letter = that class prefix, `x<hex>` otherwise
    fn show_pfx(self) -> String {
        let s = self.real();
        if s.is_empty() {
            return "*".into();
        }
        match CLASSES.iter().find(|c| c.prefix() == s) {
            Some(c) => c.ch().to_string(),
            None => format!("x{}", hexs(s.as_bytes())),
        }
    }
    fn from_real(s: &str) -> Key {
        Key::of(s)
    }
    fn shard(self) -> usize {
        self.real().as_bytes().first().map_or(0, |b| *b as usize % 16)
    }
}
impl PartialOrd for Key {
    fn partial_cmp(&self, o: &Key) -> Option<std::cmp::Ordering> {
        Some(self.cmp(o))
    }
}
impl Ord for Key {
    fn cmp(&self, o: &Key) -> std::cmp::Ordering {
        if self.0 == o.0 {
            return std::cmp::Ordering::Equal;
        }
        self.real().cmp(&o.real())
    }
}

fn hexs(b: &[u8]) -> String {
    b.iter().map(|x| format!("{x:02x}")).collect()
}
fn unhexs(h: &str) -> Vec<u8> {
    (0..h.len() / 2).map(|i| u8::from_str_radix(&h[2 * i..2 * i + 2], 16).unwrap_or(0)).collect()
}

/// mirror of `metadata_slab::next_prefix(..).is_some()` for a non-empty prefix: the prefix with its
/// last byte plus one is UTF-8 (a `&str` has no `0xFF` byte)
fn has_end_key(prefix: &str) -> bool {
    let mut b = prefix.as_bytes().to_vec();
    match b.pop() {
        Some(last) if last < 0xff => {
            b.push(last + 1);
            String::from_utf8(b).is_ok()
        }
        _ => false,
    }
}

#[derive(Clone, Copy, PartialEq, Eq, Hash, Debug, PartialOrd, Ord)]
enum VecF {
    N,
    Good(u32),
    Bad(u32),
    Torn,
}
#[derive(Clone, Copy, PartialEq, Eq, Hash, Debug, PartialOrd, Ord)]
struct Val {
    tag: u32,
    vec: VecF,
}
const DIM: usize = 384;
impl Val {
    fn show(self) -> String {
        let v = match self.vec {
            VecF::N => "n".to_string(),
            VecF::Good(t) => format!("g{t}"),
            VecF::Bad(t) => format!("b{t}"),
            VecF::Torn => "torn".to_string(),
        };
        format!("{}.{}", self.tag, v)
    }
    fn data(self) -> TensorData {
        let mut d = TensorData::new();
        if self.tag != 0 {
            d.set("m", TensorValue::Scalar(ScalarValue::Int(i64::from(self.tag))));
        }
        match self.vec {
            VecF::Good(t) => d.set("_embedding", TensorValue::Vector(vec![t as f32; DIM])),
            VecF::Bad(t) => d.set("_embedding", TensorValue::Vector(vec![t as f32; 3])),
            _ => {}
        }
        d
    }
    fn of_vec(v: &[f32]) -> VecF {
        if v.is_empty() || v.iter().any(|x| *x != v[0]) {
            return VecF::Torn;
        }
        if v.len() == DIM {
            VecF::Good(v[0] as u32)
        } else {
            VecF::Bad(v[0] as u32)
        }
    }
    fn of_data(d: &TensorData) -> Val {
        let tag = match d.get("m") {
            Some(TensorValue::Scalar(ScalarValue::Int(i))) => *i as u32,
            _ => 0,
        };
        let vec = match d.get("_embedding") {
            Some(TensorValue::Vector(v)) => Val::of_vec(v),
            Some(_) => VecF::Torn,
            None => VecF::N,
        };
        Val { tag, vec }
    }
}

#[derive(Clone, Copy, PartialEq, Eq, Debug)]
enum Op {
    Put(Key, Val),
    Get(Key),
    Del(Key),
    Ex(Key),
    Scan(Key),
    PutD(Key, Val),
    DelD(Key),
}
impl Op {
    fn show(&self) -> String {
        match self {
            Op::Put(k, v) => format!("P,{},{}", k.show(), v.show()),
            Op::PutD(k, v) => format!("PD,{},{}", k.show(), v.show()),
            Op::Get(k) => format!("G,{}", k.show()),
            Op::Del(k) => format!("D,{}", k.show()),
            Op::DelD(k) => format!("DD,{}", k.show()),
            Op::Ex(k) => format!("E,{}", k.show()),
            Op::Scan(p) => format!("S,{}", p.show_pfx()),
        }
    }
    fn key(&self) -> Option<Key> {
        match self {
            Op::Put(k, _) | Op::PutD(k, _) | Op::Get(k) | Op::Del(k) | Op::DelD(k) | Op::Ex(k) => Some(*k),
            Op::Scan(_) => None,
        }
    }
    fn kind(&self) -> &'static str {
        match self {
            Op::Put(..) => "put",
            Op::PutD(..) => "put_durable",
            Op::Get(..) => "get",
            Op::Del(..) => "delete",
            Op::DelD(..) => "delete_durable",
            Op::Ex(..) => "exists",
            Op::Scan(..) => "scan",
        }
    }
}

#[derive(Clone, PartialEq, Eq, Debug)]
enum Res {
    Ok,
    Nf,
    Found(Val),
    Bool(bool),
    Keys(Vec<Key>),
    Other(String),
}
impl Res {
    fn show(&self) -> String {
        match self {
            Res::Ok => "ok".into(),
            Res::Nf => "nf".into(),
            Res::Found(v) => format!("v{}", v.show()),
            Res::Bool(b) => if *b { "T" } else { "F" }.into(),
            Res::Keys(ks) => format!("k[{}]", ks.iter().map(|k| k.show()).collect::<Vec<_>>().join("+")),
            Res::Other(s) => format!("other({s})"),
        }
    }
}

fn show_progs(progs: &[Vec<Op>]) -> String {
    progs
        .iter()
        .map(|p| {
            if p.is_empty() {
                "-".to_string()
            } else {
                p.iter().map(|o| o.show()).collect::<Vec<_>>().join(";")
            }
        })
        .collect::<Vec<_>>()
        .join("|")
}

fn parse_key(s: &str) -> Option<Key> {
    if let Some(h) = s.strip_prefix('x') {
        if h.len() % 2 != 0 || !h.bytes().all(|b| b.is_ascii_hexdigit()) {
            return None;
        }
        return String::from_utf8(unhexs(h)).ok().map(|k| Key::of(&k));
    }
    let c = s.chars().next()?;
    let cls = CLASSES.iter().copied().find(|x| x.ch() == c)?;
    s[1..].parse().ok().map(|id| Key::new(cls, id))
}
fn parse_pfx(s: &str) -> Option<Key> {
    if s == "*" {
        return Some(Key::of(""));
    }
    if s.len() == 1 {
        return CLASSES.iter().find(|x| x.ch().to_string() == s).map(|c| Key::of(c.prefix()));
    }
    parse_key(s)
}
fn parse_val(s: &str) -> Option<Val> {
    let (a, b) = s.split_once('.')?;
    let tag = a.parse().ok()?;
    let vec = if b == "n" {
        VecF::N
    } else if let Some(t) = b.strip_prefix('g') {
        VecF::Good(t.parse().ok()?)
    } else if let Some(t) = b.strip_prefix('b') {
        VecF::Bad(t.parse().ok()?)
    } else {
        return None;
    };
    Some(Val { tag, vec })
}
fn parse_op(s: &str) -> Option<Op> {
    let f: Vec<&str> = s.split(',').collect();
    Some(match f.as_slice() {
        ["P", k, v] => Op::Put(parse_key(k)?, parse_val(v)?),
        ["PD", k, v] => Op::PutD(parse_key(k)?, parse_val(v)?),
        ["G", k] => Op::Get(parse_key(k)?),
        ["D", k] => Op::Del(parse_key(k)?),
        ["DD", k] => Op::DelD(parse_key(k)?),
        ["E", k] => Op::Ex(parse_key(k)?),
        ["S", p] => Op::Scan(parse_pfx(p)?),
        _ => return None,
    })
}
fn parse_progs(s: &str) -> Option<Vec<Vec<Op>>> {
    s.split('|')
        .map(|p| if p == "-" { Some(vec![]) } else { p.split(';').map(parse_op).collect() })
        .collect()
}
fn parse_sched(s: &str) -> Vec<usize> {
    if s == "-" {
        vec![]
    } else {
        s.split(',').filter_map(|x| x.parse().ok()).collect()
    }
}
fn show_sched(s: &[usize]) -> String {
    if s.is_empty() {
        "-".into()
    } else {
        s.iter().map(|x| x.to_string()).collect::<Vec<_>>().join(",")
    }
}

// ------------------------------------------------------------------ the real run

fn exec(store: &TensorStore, op: &Op) -> Res {
    // Error canonicalisation (BUILDING.md), rule 1: by VARIANT. `TensorStoreError` has the single variant
    // `NotFound` (put_durable / delete_durable map every router error to it as well); `Res::Other` is for
    // a variant added later and carries its NAME, never message text.
    let err = |e: tensor_store::TensorStoreError| match e {
        tensor_store::TensorStoreError::NotFound(_) => Res::Nf,
        #[allow(unreachable_patterns)]
        other => Res::Other(format!("err:{}", format!("{other:?}").chars().take_while(|c| c.is_alphanumeric()).collect::<String>())),
    };
    match op {
        Op::Put(k, v) => match store.put(k.real(), v.data()) {
            Ok(()) => Res::Ok,
            Err(e) => err(e),
        },
        Op::PutD(k, v) => match store.put_durable(k.real(), v.data()) {
            Ok(()) => Res::Ok,
            Err(e) => err(e),
        },
        Op::Get(k) => match store.get(&k.real()) {
            Ok(d) => Res::Found(Val::of_data(&d)),
            Err(e) => err(e),
        },
        Op::Del(k) => match store.delete(&k.real()) {
            Ok(()) => Res::Ok,
            Err(e) => err(e),
        },
        Op::DelD(k) => match store.delete_durable(&k.real()) {
            Ok(()) => Res::Ok,
            Err(e) => err(e),
        },
        Op::Ex(k) => Res::Bool(store.exists(&k.real())),
        Op::Scan(p) => {
            let pfx = p.real();
            let raw = store.scan(&pfx);
            // the sibling prefix scans, read in the same atomic step (they have no yield hook, every
            // other worker is parked): `scan_count` = the number of keys `scan` lists;
            // `scan_filter_map` = the listed keys that are in the metadata slab, in byte order
            let count = store.scan_count(&pfx);
            let mut in_md: Vec<String> = raw.iter().filter(|k| store.router().metadata.contains(k)).cloned().collect();
            in_md.sort();
            let sfm: Vec<String> = store.scan_filter_map(&pfx, |k, _| Some(k.to_string()));
            if count != raw.len() {
                return Res::Other(format!("sibling: scan_count({pfx:?}) = {count}, scan lists {} keys {raw:?}", raw.len()));
            }
            if sfm != in_md {
                return Res::Other(format!("sibling: scan_filter_map({pfx:?}) = {sfm:?}, the keys scan lists that are in the metadata slab = {in_md:?}"));
            }
            let mut ks: Vec<Key> = raw.iter().map(|s| Key::from_real(s)).collect();
            ks.sort();
            ks.dedup();
            Res::Keys(ks)
        }
    }
}

#[derive(Clone, Debug)]
struct HRec {
    t: usize,
    i: usize,
    op: Op,
    res: Res,
    inv: usize,
    ret: usize,
    /// the step before which the operation was CALLED (= `inv`, except for a durable write that
    /// waited for the log mutex: called when it was granted, first atomic step when it got the mutex)
    call: usize,
}

struct RunOut {
    /// the threads in the order in which they were granted (a grant of a thread that then blocked
    /// on the real log mutex included): what a scripted schedule speaks about
    grants: Vec<usize>,
    /// durable writers that were granted while the mutex was held: "<waiter site>_behind_<holder site>_<same|other>_key"
    waits: Vec<String>,
    /// a runner was still running after the stall window although the mutex does not explain it
    /// (machine load): the step order is not known, the run is discarded
    unexplained: bool,
    /// the threads in the order of their atomic steps (= `grants` when nobody waited for the mutex)
    sched: Vec<usize>,
    trace: String,
    hist: Vec<HRec>,
    hist_s: String,
    image: String,
    wal: Option<String>,
    rimage: Option<String>,
    mem_view: BTreeMap<Key, String>,
    rec_view: BTreeMap<Key, String>,
    steps: Vec<(usize, String, String)>,
    stalled: bool,
    deviated: bool,
    panicked: bool,
    crash: Option<CrashProbe>,
    /// the first moment of the run (see `FilterProbe`) at which the store's own `exists` / `get`
    /// denied a key that its slabs held
    filter_probe: Option<FilterProbe>,
    /// per `emb:` key of the programs: the number of LIVE entries the entity index holds for it once
    /// every thread has finished (`EntityIndex::scan_prefix`, entries whose key is exactly the key)
    live_ids: BTreeMap<Key, usize>,
}

/// the live entity ids of one key (Lean: `Index.liveIds`): the entity index read in place
fn live_ids_of(store: &TensorStore, key: &str) -> usize {
    store.router().index.scan_prefix(key).iter().filter(|(k, _)| k == key).count()
}

/// the yield point INSIDE `EntityIndex::try_get_or_create`, between the missed lookup under the read
/// locks and the write locks (proposed/C11-hook-entity-index-yield.diff; absent from the tree until
/// that hook is committed: `index_hook_present`)
const SITE_INDEX_MISS: &str = "index.get_or_create.after_miss";

/// the yield point INSIDE `CacheRing::get`, between the index lookup (`index.read()`, released) and the
/// slot read (`slots.write()`) - proposed/C11-hook-cache-ring-yield.diff; absent from the tree until
/// that hook is committed (`ring_hook_present`)
const SITE_RING_GET: &str = "cache_ring.get.after_index";

/// Pairs of `_cache:` keys with ONE FxHash (rustc-hash 2.x, `str::hash` = `hash_bytes(bytes)` then the
/// 0xFF terminator; found offline from the symmetry of `multiply_mix(s0, s1)` in the two halves of the
/// last 16 bytes of a 32-byte key).  `CacheRing` indexes its slots by that hash, so the two keys of a
/// pair share one index entry.  Checked at start against the REAL ring (`pair_collides`): a pair
/// that no longer collides (the hash function changed) is skipped with a counted note.
const COLLIDING: [(&str, &str); 7] = [
    ("_cache:sess:aafhA0A00000zizOwoOy", "_cache:sess:aafhY8O6270xbatIuhO1"),
    ("_cache:sess:Hczrgs0DOdoE2T0gief0", "_cache:sess:HczrceqJv4ZB6BqiP5S7"),
    ("_cache:q:dhgAxOjww71P7gGhk5Fgwn8", "_cache:q:dhgAxOjKIl2m3xJTUnEZsq5"),
    ("_cache:user:Pl5p30bZuf4r4PmZWBsU", "_cache:user:Pl5pr89OMM3SuX6Ooitt"),
    ("_cache:page:wVRmEaIyZ6RJ9N2gohUv", "_cache:page:wVRmEA7pb4Fj9nLnWjAV"),
    ("_cache:tok:4SeZO7v5MMum8BuU66daz", "_cache:tok:4SeZO818KBZJ0M2X09KFr"),
    ("_cache:1Yr4gMUr9vrJbQtrGzybIe7DC", "_cache:1Yr4gMUr95aYMzzrN9jqfN9DJ"),
];

/// The hash `CacheRing::hash_key` computes - `FxHasher::default()` of rustc-hash 2.x fed `str::hash`
/// (`write(bytes)`, then `write_u8(0xff)`) - re-stated here because the harness cannot name the
/// crate (its Cargo.toml is frozen).  `fx_matches_the_crate` checks the re-statement against the
/// rustc-hash that is linked into tensor_store, through the one public function that exposes it.
mod fx {
    const K: u64 = 0xf135_7aea_2e62_a9c5;
    const SEED1: u64 = 0x243f_6a88_85a3_08d3;
    const SEED2: u64 = 0x1319_8a2e_0370_7344;
    const PREVENT_TRIVIAL_ZERO_COLLAPSE: u64 = 0xa409_3822_299f_31d0;
    fn multiply_mix(x: u64, y: u64) -> u64 {
        let full = u128::from(x) * u128::from(y);
        (full as u64) ^ ((full >> 64) as u64)
    }
    fn le(b: &[u8]) -> u64 {
        let mut x = [0u8; 8];
        x[..b.len()].copy_from_slice(b);
        u64::from_le_bytes(x)
    }
    pub fn hash_bytes(bytes: &[u8]) -> u64 {
        let len = bytes.len();
        let (mut s0, mut s1) = (SEED1, SEED2);
        if len <= 16 {
            if len >= 8 {
                s0 ^= le(&bytes[0..8]);
                s1 ^= le(&bytes[len - 8..]);
            } else if len >= 4 {
                s0 ^= le(&bytes[0..4]);
                s1 ^= le(&bytes[len - 4..]);
            } else if len > 0 {
                s0 ^= u64::from(bytes[0]);
                s1 ^= (u64::from(bytes[len - 1]) << 8) | u64::from(bytes[len / 2]);
            }
        } else {
            let mut off = 0;
            while off < len - 16 {
                let t = multiply_mix(s0 ^ le(&bytes[off..off + 8]), PREVENT_TRIVIAL_ZERO_COLLAPSE ^ le(&bytes[off + 8..off + 16]));
                s0 = s1;
                s1 = t;
                off += 16;
            }
            s0 ^= le(&bytes[len - 16..len - 8]);
            s1 ^= le(&bytes[len - 8..]);
        }
        multiply_mix(s0, s1) ^ (len as u64)
    }
    fn add(h: u64, i: u64) -> u64 {
        h.wrapping_add(i).wrapping_mul(K)
    }
    /// `let mut h = FxHasher::default(); key.hash(&mut h); h.finish()` for `key: &str`
    pub fn of_str(key: &str) -> u64 {
        add(add(0, hash_bytes(key.as_bytes())), 0xff).rotate_left(26)
    }
    /// the same for `data: &[u8]` (`write_length_prefix` = `write_usize(len)`, then `write(bytes)`)
    pub fn of_slice(data: &[u8]) -> u64 {
        add(add(0, data.len() as u64), hash_bytes(data)).rotate_left(26)
    }
}

/// the re-statement `fx` agrees with the crate tensor_store is built with, on byte strings of
/// every length class of `hash_bytes` (`ChunkHash::from_data` = `FxHasher` over `<[u8]>::hash`)
fn fx_matches_the_crate() -> bool {
    let samples: [&[u8]; 7] = [b"", b"a", b"abc", b"abcde", b"0123456789", b"_cache:sess:aafhA0A00000zizOwoOy", b"the quick brown fox jumps over the lazy dog, twice over"];
    samples.iter().all(|d| tensor_store::ChunkHash::from_data(d).as_u64() == fx::of_slice(d))
}

/// On a fresh ring with room for both: after `put(a)`, `put(b)` the entry of `a` still occupies its
/// slot (the scan lists both) but the one index entry of the shared hash points at `b`'s slot -
/// `contains(a)` is false.  What two keys with one hash look like on the code as it is.
fn pair_displaces(a: &str, b: &str) -> bool {
    let ring: CacheRing<u8> = CacheRing::with_capacity(8);
    ring.put(a, 1, 1.0, 1);
    ring.put(b, 2, 1.0, 1);
    a != b && !ring.contains(a) && ring.contains(b) && ring.scan_prefix("").len() == 2
}

/// the real ring treats the two keys as a key->value map treats two keys (what two keys with
/// DIFFERENT hashes look like, whatever the hash function is)
fn pair_maplike(a: &str, b: &str) -> bool {
    let ring: CacheRing<u8> = CacheRing::with_capacity(8);
    ring.put(a, 1, 1.0, 1);
    ring.put(b, 2, 1.0, 1);
    let mut listed = ring.scan_prefix("");
    listed.sort();
    let mut both = vec![a.to_string(), b.to_string()];
    both.sort();
    let first = ring.get(a) == Some(1) && ring.get(b) == Some(2) && ring.contains(a) && ring.contains(b) && listed == both && ring.len() == 2;
    first && ring.delete(a) && !ring.contains(a) && ring.get(a).is_none() && ring.get(b) == Some(2) && ring.scan_prefix("") == vec![b.to_string()]
}

/// Do the two keys share an index entry of the real `CacheRing`?  `fx_ok` (the re-stated hash is the
/// crate's): they do when their FxHash is equal - UNLESS the ring treats them exactly as a map
/// treats two keys, which means `CacheRing::hash_key` is no longer FxHash of the string (the pair is
/// then skipped with a counted note).  Equal hashes and a ring that is not map-like on the pair is
/// a collision whatever else the ring does with it: the streams run and the oracles judge.  Without
/// `fx_ok` (another rustc-hash): by the displacement alone.
fn pair_collides(fx_ok: bool, a: &str, b: &str) -> bool {
    if fx_ok && fx::of_str(a) == fx::of_str(b) {
        return a != b && !pair_maplike(a, b);
    }
    pair_displaces(a, b)
}

/// the groups of keys of `progs` that share a hash (pairs of `coll` both of whose keys occur)
fn collisions_in(progs: &[Vec<Op>], coll: &[(Key, Key)]) -> Vec<(Key, Key)> {
    let u = universe(progs);
    coll.iter().filter(|(a, b)| u.contains(a) && u.contains(b)).copied().collect()
}
/// as the `<collisions>` field of the model commands `runr` / `runrf`
fn show_coll(c: &[(Key, Key)]) -> String {
    if c.is_empty() {
        "-".into()
    } else {
        c.iter().map(|(a, b)| format!("{}={}", a.show(), b.show())).collect::<Vec<_>>().join(",")
    }
}
fn parse_coll(s: &str) -> Vec<(Key, Key)> {
    if s == "-" {
        return vec![];
    }
    s.split(',').filter_map(|g| g.split_once('=').and_then(|(a, b)| Some((parse_key(a)?, parse_key(b)?)))).collect()
}

/// "the filter knows every visible key" (Lean: `BloomProps.filter_knows_every_visible_key`), asked of
/// the REAL store at every scheduling decision: the scheduler thread, while every worker is parked,
/// reads each key of the programs through the router (`store.router()`: the slabs, what a scan
/// lists) and through the store's own `exists` / `get` (which on a store with a Bloom filter answer
/// "absent" from the filter alone).  A key the slabs hold must be found by both.
#[derive(Clone, Debug)]
struct FilterProbe {
    /// number of atomic steps taken before the probe
    at_step: usize,
    key: Key,
    what: String,
}

/// what a crash at one moment of the run would leave: taken by the scheduler thread while every
/// worker is parked - the live store read as it is, and a store recovered from a copy of the log file
struct CrashProbe {
    /// number of atomic steps taken before the probe
    at_step: usize,
    live: BTreeMap<Key, String>,
    rec: BTreeMap<Key, String>,
    /// the durable write that holds the log mutex at that moment (thread, its operation)
    inflight: Option<(usize, Op)>,
}

fn universe(progs: &[Vec<Op>]) -> Vec<Key> {
    let s: BTreeSet<Key> = progs.iter().flatten().filter_map(|o| o.key()).collect();
    s.into_iter().collect()
}

fn view_of(store: &TensorStore, ks: &[Key]) -> BTreeMap<Key, String> {
    let all: HashSet<String> = store.scan("").into_iter().collect();
    ks.iter()
        .map(|k| {
            let g = exec(store, &Op::Get(*k)).show();
            let e = if store.exists(&k.real()) { "T" } else { "F" };
            let s = if all.contains(&k.real()) { "T" } else { "F" };
            (*k, format!("{g}/{e}/{s}"))
        })
        .collect()
}
fn show_view(v: &BTreeMap<Key, String>) -> String {
    if v.is_empty() {
        "-".into()
    } else {
        v.iter().map(|(k, s)| format!("{}={}", k.show(), s)).collect::<Vec<_>>().join(",")
    }
}

fn show_entry(e: &WalEntry) -> String {
    match e {
        WalEntry::MetadataSet { key, data } => format!(
            "MS:{}:{}",
            Key::from_real(key).show(),
            Val::of_data(data).show()
        ),
        WalEntry::MetadataDelete { key } => format!("MD:{}", Key::from_real(key).show()),
        WalEntry::EmbeddingSet { entity_id, embedding } => {
            let v = Val { tag: 0, vec: Val::of_vec(embedding) }.show();
            format!("ES:{}:{}", entity_id.as_u64(), &v[2..])
        }
        WalEntry::EmbeddingDelete { entity_id } => format!("ED:{}", entity_id.as_u64()),
        WalEntry::EntityRemove { key } => format!("ER:{}", Key::from_real(key).show()),
        other => format!("other:{other:?}").replace([' ', ','], "_"),
    }
}

fn site_key(site: &str, key: &str) -> String {
    if site == "store.scan" {
        return Key::of(key).show_pfx();
    }
    Key::of(key).show()
}

/// `pick(step_index, parked thread ids)` → thread id to run (must be one of the parked ones).
///
/// `respect_lock`: the log mutex is held from the log step of a durable write to the end of its
/// in-memory apply (repo dfea2ecb).  The harness mirrors the mutex from the yield trace: a thread
/// parked at the entry of a durable write of a non-cache key is not offered to `pick` while
/// another thread is between its log step and the end of its operation (it would block on the
/// real mutex, which the scheduler can only detect by its 30 ms stall timeout).  `false` only in
/// `mutex_probe`, which asks the real mutex.
///
/// `exclusive_emb`: the hypothesis of `emb_linearizable_partial` — a thread parked at the entry of
/// an operation on an `emb:` key is not offered while another thread is inside an operation on the
/// same key (parked at one of its `router.*` yield points).
///
/// `ring_steps`: the yield point inside `CacheRing::get` (`SITE_RING_GET`) is an atomic step of its own
/// (model: `runr`).  `false`: a thread that parks there is let through at once, unrecorded.
///
/// `index_steps`: the yield point inside `try_get_or_create` (`SITE_INDEX_MISS`) is an atomic step of
/// its own (model: `runi`).  `false`: a thread that parks there is let through at once - nobody
/// else moves in between, `get_or_create` stays inside the step that called it (model: `run`), and
/// the step is not recorded.
fn run_real(progs: &[Vec<Op>], wal: Option<SyncMode>, variant: u8, crash_at: Option<usize>, respect_lock: bool, exclusive_emb: bool, index_steps: bool, ring_steps: bool, mut pick: impl FnMut(usize, &[usize], Option<usize>) -> Option<usize>) -> RunOut {
    let dir = tempfile::tempdir().expect("tempdir");
    let wal_path = dir.path().join("store.wal");
    let cfg = wal.map(|m| WalConfig { sync_mode: m, ..WalConfig::default() });
    let store = match &cfg {
        // `variant`: 0 = plain store, 1 = Bloom filter in front of get / exists, 2 = shard-access
        // instrumentation, 3 = both (the filter and the tracker are invisible in the results)
        Some(c) if variant & 1 == 1 => TensorStore::open_durable_with_bloom(&wal_path, c.clone(), 64, 0.01).expect("open_durable_with_bloom"),
        Some(c) => TensorStore::open_durable(&wal_path, c.clone()).expect("open_durable"),
        None => match variant & 3 {
            1 => TensorStore::with_bloom_filter(64, 0.01),
            2 => TensorStore::with_instrumentation(1),
            3 => TensorStore::with_bloom_and_instrumentation(64, 0.01, 1),
            _ => TensorStore::new(),
        },
    };
    let results: Arc<Mutex<Vec<Vec<Res>>>> = Arc::new(Mutex::new(vec![vec![]; progs.len()]));
    let tasks: Vec<Box<dyn FnOnce() + Send>> = progs
        .iter()
        .enumerate()
        .map(|(t, p)| {
            let s = store.clone();
            let p = p.clone();
            let r = results.clone();
            Box::new(move || {
                for op in &p {
                    let res = exec(&s, op);
                    r.lock().unwrap()[t].push(res);
                }
            }) as Box<dyn FnOnce() + Send>
        })
        .collect();
    let n = progs.len();
    let mut grant_no = 0usize;
    let mut deviated = false;
    let lock_on = wal.is_some();
    let mut in_cs = vec![false; n];
    // (thread, site, key, number of atomic steps taken when it was granted) of the durable writers
    // that were granted while the mutex was held: blocked in `Mutex::lock` (or on their way there)
    let mut waiting: Vec<(usize, &'static str, String, usize)> = Vec::new();
    let mut steps: Vec<(usize, String, String)> = Vec::new();
    let mut calls: Vec<usize> = Vec::new();
    let mut grants: Vec<usize> = Vec::new();
    let mut waits: Vec<String> = Vec::new();
    let mut waiting_at: Vec<Vec<usize>> = Vec::new(); // per scheduler step: the threads known to wait
    let mut slow_waiter = false;
    let ks0 = universe(progs);
    let mut crash: Option<CrashProbe> = None;
    let mut filter_probe: Option<FilterProbe> = None;
    let short = |site: &str| site.trim_start_matches("store.").trim_start_matches("router.").trim_end_matches(".after_log").to_string();
    let trace = run_threads(tasks, |_n, parked| {
        if !index_steps {
            if let Some(p) = parked.iter().position(|x| x.1 == SITE_INDEX_MISS) {
                waiting_at.push(waiting.iter().map(|w| w.0).collect());
                return p;
            }
        }
        if !ring_steps {
            // the two lock sections of `CacheRing::get` in one scheduler step (model: `run` / `runrf`)
            if let Some(p) = parked.iter().position(|x| x.1 == SITE_RING_GET) {
                waiting_at.push(waiting.iter().map(|w| w.0).collect());
                return p;
            }
        }
        // a waiter that is parked again has got the mutex and taken its log step: that step ran
        // now, after the last step of the thread that released the mutex
        let mut i = 0;
        while i < waiting.len() {
            if let Some(x) = parked.iter().find(|x| x.0 == waiting[i].0) {
                let w = waiting.remove(i);
                steps.push((w.0, w.1.to_string(), site_key(w.1, &w.2)));
                calls.push(w.3);
                in_cs[w.0] = !x.1.starts_with("store.");
            } else {
                i += 1;
            }
        }
        if let Some(p) = parked.iter().position(|x| x.1 == "thread.start") {
            waiting_at.push(Vec::new());
            return p;
        }
        let takes_lock = |x: &(usize, &'static str, String)| {
            (x.1 == "store.put_durable" || x.1 == "store.delete_durable") && !x.2.starts_with("_cache:")
        };
        for x in parked.iter() {
            if x.1.starts_with("store.") {
                in_cs[x.0] = false; // its previous operation has returned
            }
        }
        for t in 0..in_cs.len() {
            if !parked.iter().any(|x| x.0 == t) {
                in_cs[t] = false; // finished (or waiting for the mutex)
            }
        }
        let held = lock_on && in_cs.iter().any(|b| *b);
        if !waiting.is_empty() && !held {
            slow_waiter = true; // the mutex is free and the waiter it woke has not parked yet
        }
        waiting_at.push(waiting.iter().map(|w| w.0).collect());
        // every worker is parked (nobody is on its way to the log mutex): the slabs and the filter
        // are frozen.  Whatever the router finds, the store's own `exists` / `get` must find.
        if filter_probe.is_none() && waiting.is_empty() {
            for k in &ks0 {
                let kr = k.real();
                let in_slabs = store.router().exists(&kr);
                if in_slabs && !store.exists(&kr) {
                    filter_probe = Some(FilterProbe { at_step: steps.len(), key: *k, what: format!("router().exists({kr:?}) = true (the slabs hold the key, a scan lists it), exists({kr:?}) = false") });
                    break;
                }
                if k.cls() != Cls::C && store.router().get(&kr).is_ok() && store.get(&kr).is_err() {
                    filter_probe = Some(FilterProbe { at_step: steps.len(), key: *k, what: format!("router().get({kr:?}) finds a value, get({kr:?}) = NotFound") });
                    break;
                }
            }
        }
        let emb_busy = |i: usize| {
            let x = &parked[i];
            exclusive_emb
                && x.1.starts_with("store.")
                && x.2.starts_with("emb:")
                && parked.iter().any(|y| y.0 != x.0 && y.1.starts_with("router.") && y.2 == x.2)
        };
        let cand: Vec<usize> = (0..parked.len()).filter(|i| !(respect_lock && held && takes_lock(&parked[*i])) && !emb_busy(*i)).collect();
        let ids: Vec<usize> = cand.iter().map(|i| parked[*i].0).collect();
        let holder = (0..in_cs.len()).find(|t| in_cs[*t]);
        if crash_at == Some(grant_no) && crash.is_none() {
            if let Some(c) = &cfg {
                let copy = dir.path().join("crash.wal");
                let rec = std::fs::copy(&wal_path, &copy).ok().and_then(|_| TensorStore::recover(&copy, c, None).ok());
                if let Some(rec) = rec {
                    let inflight = holder.and_then(|h| {
                        let nth = steps.iter().filter(|s| s.0 == h && s.1.starts_with("store.")).count();
                        progs[h].get(nth.wrapping_sub(1)).map(|op| (h, *op))
                    });
                    crash = Some(CrashProbe { at_step: steps.len(), live: view_of(&store, &ks0), rec: view_of(&rec, &ks0), inflight });
                }
            }
        }
        let want = pick(grant_no, &ids, if waiting.is_empty() { None } else { holder });
        grant_no += 1;
        let p = match want.and_then(|w| ids.iter().position(|x| *x == w)) {
            Some(p) => cand[p],
            None => {
                deviated = true;
                cand[0]
            }
        };
        let x = &parked[p];
        grants.push(x.0);
        if lock_on && takes_lock(x) {
            if held {
                // only without the mirror: it runs up to `Mutex::lock` and blocks there
                let h = holder.and_then(|h| parked.iter().find(|y| y.0 == h));
                waits.push(format!(
                    "{}_behind_{}_{}_key",
                    short(x.1),
                    h.map_or("?".to_string(), |y| short(y.1)),
                    if h.map_or(false, |y| y.2 == x.2) { "same" } else { "other" }
                ));
                waiting.push((x.0, x.1, x.2.clone(), steps.len()));
                return p;
            }
            in_cs[x.0] = true;
        }
        calls.push(steps.len());
        steps.push((x.0, x.1.to_string(), site_key(x.1, &x.2)));
        p
    });
    for w in waiting.drain(..) {
        // returned without another yield point (log error): its one step ran at the end
        calls.push(w.3);
        steps.push((w.0, w.1.to_string(), site_key(w.1, &w.2)));
    }
    let stalled = trace.iter().any(|s| !s.blocked.is_empty());
    let unexplained = slow_waiter
        || trace.iter().enumerate().any(|(i, s)| s.blocked.iter().any(|b| !waiting_at.get(i).map_or(false, |w| w.contains(b))));
    let results = results.lock().unwrap().clone();
    let panicked = results.iter().zip(progs).any(|(r, p)| r.len() != p.len());
    // op boundaries: a `store.*` step starts the thread's next op
    let mut hist: Vec<HRec> = Vec::new();
    let mut cur: Vec<Option<(usize, usize, usize)>> = vec![None; progs.len()]; // (op index, inv, call)
    let mut next_i = vec![0usize; progs.len()];
    let mut last_step = vec![0usize; progs.len()];
    let close = |t: usize, cur: &mut Vec<Option<(usize, usize, usize)>>, last: usize, hist: &mut Vec<HRec>| {
        if let Some((i, inv, call)) = cur[t].take() {
            if let (Some(op), Some(res)) = (progs[t].get(i), results[t].get(i)) {
                hist.push(HRec { t, i, op: *op, res: res.clone(), inv, ret: last, call });
            }
        }
    };
    for (n, (t, site, _)) in steps.iter().enumerate() {
        if site.starts_with("store.") {
            let l = last_step[*t];
            close(*t, &mut cur, l, &mut hist);
            cur[*t] = Some((next_i[*t], n, calls[n].min(n)));
            next_i[*t] += 1;
        }
        last_step[*t] = n;
    }
    for t in 0..progs.len() {
        let l = last_step[t];
        close(t, &mut cur, l, &mut hist);
    }
    hist.sort_by_key(|r| r.ret);
    let hist_s = if hist.is_empty() {
        "-".to_string()
    } else {
        hist.iter()
            .map(|r| format!("{}.{}:{}-{}:{}", r.t, r.i, r.inv, r.ret, r.res.show()))
            .collect::<Vec<_>>()
            .join(",")
    };
    let ks = universe(progs);
    let mem_view = view_of(&store, &ks);
    let image = show_view(&mem_view);
    let live_ids: BTreeMap<Key, usize> = ks.iter().filter(|k| k.cls() == Cls::E).map(|k| (*k, live_ids_of(&store, &k.real()))).collect();
    let mut wal_s = None;
    let mut rimage = None;
    let mut rec_view = BTreeMap::new();
    if let Some(c) = &cfg {
        let _ = store.sync();
        drop(store);
        let entries = TensorWal::open(&wal_path, c.clone()).and_then(|w| {
            w.replay().map_err(|e| std::io::Error::new(std::io::ErrorKind::Other, e.to_string()))
        });
        wal_s = Some(match entries {
            Ok(es) if es.is_empty() => "-".to_string(),
            Ok(es) => es.iter().map(show_entry).collect::<Vec<_>>().join(","),
            Err(e) => format!("replay-error({e})"),
        });
        let recovered = if variant & 1 == 1 { TensorStore::recover_with_bloom(&wal_path, c, None, 64, 0.01) } else { TensorStore::recover(&wal_path, c, None) };
        match recovered {
            Ok(r) => {
                rec_view = view_of(&r, &ks);
                rimage = Some(show_view(&rec_view));
            }
            Err(e) => rimage = Some(format!("recover-error({e})")),
        }
    }
    let trace_s = if steps.is_empty() {
        "-".to_string()
    } else {
        steps.iter().map(|(t, s, k)| format!("{t}:{s}:{k}")).collect::<Vec<_>>().join(",")
    };
    RunOut {
        grants,
        waits,
        unexplained,
        sched: steps.iter().map(|s| s.0).collect(),
        trace: trace_s,
        hist,
        hist_s,
        image,
        wal: wal_s,
        rimage,
        mem_view,
        rec_view,
        steps,
        stalled,
        deviated,
        panicked,
        crash,
        filter_probe,
        live_ids,
    }
}

// ------------------------------------------------------------------ Wing–Gong linearizability checker

type SpecState = BTreeMap<Key, Val>;

/// how a scan may deviate from `starts_with` and still be accepted (only to ATTRIBUTE a failure of
/// the exact check to one cause, never to accept a history)
#[derive(Clone, Copy)]
struct Relax<'a> {
    /// a prefix without end key returns the rest of its metadata shard
    rest_of_shard: bool,
    /// these keys may be listed or missing at will
    ignore: &'a [Key],
}
const EXACT: Relax<'static> = Relax { rest_of_shard: false, ignore: &[] };

fn spec_ok(st: &SpecState, op: &Op, res: &Res, relax: Relax) -> bool {
    match op {
        Op::Put(..) | Op::PutD(..) => *res == Res::Ok,
        Op::Get(k) => match (st.get(k), res) {
            (Some(v), Res::Found(w)) => v == w,
            (None, Res::Nf) => true,
            (Some(_), Res::Nf) => k.cls() == Cls::C, // cache: latest value or absent
            _ => false,
        },
        Op::Del(k) | Op::DelD(k) => match (st.contains_key(k), res) {
            (true, Res::Ok) | (false, Res::Nf) => true,
            _ => false,
        },
        Op::Ex(k) => match res {
            Res::Bool(b) => *b == st.contains_key(k) || (!*b && k.cls() == Cls::C),
            _ => false,
        },
        Op::Scan(p) => match res {
            Res::Keys(ks) => {
                let pfx = p.real();
                let exact = |k: &Key| k.real().starts_with(&pfx);
                // `relax`: what `MetadataSlab::scan` does on a prefix without an end key - besides
                // the keys that start with it, every metadata key of its shard above it
                let rest = |k: &Key| relax.rest_of_shard && !pfx.is_empty() && !has_end_key(&pfx) && k.cls() != Cls::C && k.shard() == p.shard() && k.real() >= pfx;
                let want: Vec<Key> = st.keys().copied().filter(|k| (exact(k) || rest(k)) && !relax.ignore.contains(k)).collect();
                let got: Vec<Key> = ks.iter().copied().filter(|k| !relax.ignore.contains(k)).collect();
                got == want
            }
            _ => false,
        },
    }
}
fn spec_apply(st: &mut SpecState, op: &Op) {
    match op {
        Op::Put(k, v) | Op::PutD(k, v) => {
            st.insert(*k, *v);
        }
        Op::Del(k) | Op::DelD(k) => {
            st.remove(k);
        }
        _ => {}
    }
}

fn wg(recs: &[HRec], done: u64, st: &mut SpecState, seen: &mut HashSet<(u64, Vec<(Key, Val)>)>, nodes: &mut u64, relax: Relax) -> bool {
    if done.count_ones() as usize == recs.len() {
        return true;
    }
    *nodes += 1;
    if *nodes > 2_000_000 {
        return true; // search budget exhausted: give the benefit of the doubt (counted by the caller)
    }
    let key = (done, st.iter().map(|(k, v)| (*k, *v)).collect::<Vec<_>>());
    if !seen.insert(key) {
        return false;
    }
    let min_ret = recs.iter().enumerate().filter(|(j, _)| done & (1 << j) == 0).map(|(_, r)| r.ret).min().unwrap();
    for (j, r) in recs.iter().enumerate() {
        if done & (1 << j) != 0 || r.inv > min_ret {
            continue;
        }
        if !spec_ok(st, &r.op, &r.res, relax) {
            continue;
        }
        let saved = r.op.key().map(|k| (k, st.get(&k).copied()));
        spec_apply(st, &r.op);
        if wg(recs, done | (1 << j), st, seen, nodes, relax) {
            return true;
        }
        if let Some((k, old)) = saved {
            match old {
                Some(v) => {
                    st.insert(k, v);
                }
                None => {
                    st.remove(&k);
                }
            }
        }
    }
    false
}

fn linearizable_with(recs: &[HRec], relax: Relax) -> (bool, bool) {
    let mut nodes = 0;
    let ok = wg(recs, 0, &mut BTreeMap::new(), &mut HashSet::new(), &mut nodes, relax);
    (ok, nodes > 2_000_000)
}
fn linearizable(recs: &[HRec]) -> (bool, bool) {
    linearizable_with(recs, EXACT)
}

/// the scans of the history whose prefix has no end key (`next_prefix` = `None`)
fn scans_without_end_key(recs: &[HRec]) -> Vec<String> {
    recs.iter()
        .filter_map(|r| match r.op {
            Op::Scan(p) if !p.real().is_empty() && !has_end_key(&p.real()) => Some(p.real()),
            _ => None,
        })
        .collect()
}

/// When the history is not linearizable: the key class that alone explains it (`scan` when only
/// the cross-key history fails), and whether a read returned a mixture of two writes.
fn classify_nonlin(recs: &[HRec]) -> (String, Option<String>) {
    // mixture: a get returned (tag of one put, vector of another put) of the same key
    for r in recs {
        if let (Op::Get(k), Res::Found(v)) = (&r.op, &r.res) {
            let puts: Vec<Val> = recs
                .iter()
                .filter_map(|x| match x.op {
                    Op::Put(k2, v2) | Op::PutD(k2, v2) if k2 == *k => Some(v2),
                    _ => None,
                })
                .collect();
            if !puts.contains(v) && puts.iter().any(|p| p.tag == v.tag) && puts.iter().any(|p| p.vec == v.vec && p.tag != v.tag) {
                return (k.cls().name().to_string(), Some(format!("get {} returned {} = metadata of one put, vector of another", k.show(), v.show())));
            }
        }
    }
    let keys: BTreeSet<Key> = recs.iter().filter_map(|r| r.op.key()).collect();
    for k in keys {
        let proj: Vec<HRec> = recs.iter().filter(|r| r.op.key() == Some(k)).cloned().collect();
        if !linearizable(&proj).0 {
            return (k.cls().name().to_string(), None);
        }
    }
    ("scan".to_string(), None)
}

/// `IndexProps.deleted_key_is_gone` on a recorded history: a `delete` / `delete_durable` of an `emb:`
/// key returned Ok, an operation invoked AFTER it had returned still sees the key (`exists` true,
/// `get` finds a value, a scan lists it, another delete returns Ok) and no put of the key was in
/// progress or invoked anywhere between the invocation of the delete and the return of that
/// operation.  No order of the operations explains it; in the code it is what a key with two live
/// entity ids looks like from outside (the delete tombstones the id `index.get` returns, the other
/// id keeps the key visible).  Overlapping deletes, gets and scans only remove or read: they do
/// not excuse it.  Returns (the delete, the operation that still saw the key).
fn deleted_key_still_visible(recs: &[HRec]) -> Option<(HRec, HRec)> {
    for d in recs {
        let k = match d.op {
            Op::Del(k) | Op::DelD(k) if k.cls() == Cls::E && d.res == Res::Ok => k,
            _ => continue,
        };
        for r in recs {
            if r.inv <= d.ret {
                continue;
            }
            let sees = match (&r.op, &r.res) {
                (Op::Ex(k2), Res::Bool(true)) | (Op::Get(k2), Res::Found(_)) | (Op::Del(k2), Res::Ok) | (Op::DelD(k2), Res::Ok) => *k2 == k,
                (Op::Scan(_), Res::Keys(ks)) => ks.contains(&k),
                _ => false,
            };
            if !sees {
                continue;
            }
            let put_between = recs.iter().any(|q| matches!(q.op, Op::Put(k2, _) | Op::PutD(k2, _) if k2 == k) && q.ret >= d.inv && q.inv <= r.ret);
            if !put_between {
                return Some((d.clone(), r.clone()));
            }
        }
    }
    None
}

const CLASS_TWO_LIVE_IDS: &str = "tensor_store.entity_index/key_with_two_live_ids";
const WHAT_TWO_LIVE_IDS: &str = "an emb: key has two live entity ids (EntityIndex::get_or_create gave concurrent first writers of the key an id each): a delete that returned Ok tombstoned one of them, and with no put of the key anywhere in between the key is still visible (exists true / get finds a value no put wrote / the scan lists it / a second delete returns Ok as well)";

const CLASS_VALUE_OF_ANOTHER_KEY: &str = "tensor_store.cache_ring.get/value_of_another_key";
const WHAT_VALUE_OF_ANOTHER_KEY: &str = "a get returned a value that no put ever stored under the key it read - the value was only ever put under ANOTHER key (the slot the index resolved for the key holds another key's entry: it was re-used between the index lookup and the slot read of the get, or the two keys have one hash)";

/// `RingProps.cache_get_returns_only_a_value_written_to_that_key` on a recorded history: (the get, the
/// key the value belongs to) when a get found a value that no put of the programs stores under the
/// key it read and that some put stores under another key
fn value_of_another_key(progs: &[Vec<Op>], hist: &[HRec]) -> Option<(HRec, Key)> {
    for r in hist {
        if let (Op::Get(k), Res::Found(v)) = (&r.op, &r.res) {
            let (mut own, mut other) = (false, None);
            for op in progs.iter().flatten() {
                if let Op::Put(k2, v2) | Op::PutD(k2, v2) = op {
                    if v2 == v {
                        if k2 == k {
                            own = true;
                        } else if other.is_none() {
                            other = Some(*k2);
                        }
                    }
                }
            }
            if let (false, Some(owner)) = (own, other) {
                return Some((r.clone(), owner));
            }
        }
    }
    None
}

/// THE RING as a sequential object (Lean: `Ring.lean`, `ringPut` / `ringDelete` / `ringContains` /
/// `ringGetAtomic` / `ringEntries`), for cache keys; every other key in a plain map.  The hash of a
/// key = the smallest key of its collision group.
#[derive(Clone, PartialEq, Eq, Hash)]
struct RingSpec {
    slots: Vec<Option<(Key, Val)>>,
    index: BTreeMap<Key, usize>,
    other: BTreeMap<Key, Val>,
}
fn ring_hash(k: Key, coll: &[(Key, Key)]) -> Key {
    coll.iter().find(|(a, b)| *a == k || *b == k).map_or(k, |(a, b)| if a.0 <= b.0 { *a } else { *b })
}
impl RingSpec {
    fn holds(&self, k: Key, i: usize) -> bool {
        matches!(self.slots.get(i), Some(Some((k2, _))) if *k2 == k)
    }
    fn contains(&self, k: Key, coll: &[(Key, Key)]) -> bool {
        self.index.get(&ring_hash(k, coll)).map_or(false, |i| self.holds(k, *i))
    }
    fn get(&self, k: Key, coll: &[(Key, Key)]) -> Option<Val> {
        let i = *self.index.get(&ring_hash(k, coll))?;
        match self.slots.get(i) {
            Some(Some((k2, v))) if *k2 == k => Some(*v),
            _ => None,
        }
    }
    fn put(&mut self, k: Key, v: Val, coll: &[(Key, Key)]) {
        let h = ring_hash(k, coll);
        if let Some(&i) = self.index.get(&h) {
            if self.holds(k, i) {
                self.slots[i] = Some((k, v));
                return;
            }
        }
        // the first empty slot (the spec never fills up: a case has a handful of operations)
        let j = match self.slots.iter().position(|s| s.is_none()) {
            Some(j) => j,
            None => {
                self.slots.push(None);
                self.slots.len() - 1
            }
        };
        self.slots[j] = Some((k, v));
        self.index.insert(h, j);
    }
    /// `SlabRouter::delete`: `contains`, then `CacheRing::delete`
    fn delete(&mut self, k: Key, coll: &[(Key, Key)]) -> bool {
        if !self.contains(k, coll) {
            return false;
        }
        if let Some(i) = self.index.remove(&ring_hash(k, coll)) {
            self.slots[i] = None;
        }
        true
    }
    fn keys(&self) -> BTreeSet<Key> {
        self.slots.iter().flatten().map(|(k, _)| *k).chain(self.other.keys().copied()).collect()
    }
    fn ok(&self, op: &Op, res: &Res, coll: &[(Key, Key)]) -> bool {
        let cache = |k: &Key| k.cls() == Cls::C;
        match op {
            Op::Put(..) | Op::PutD(..) => *res == Res::Ok,
            Op::Get(k) if cache(k) => match (self.get(*k, coll), res) {
                (Some(v), Res::Found(w)) => v == *w,
                // a get whose slot was emptied or re-used between its two lock sections reports absent
                (_, Res::Nf) => true,
                _ => false,
            },
            Op::Get(k) => match (self.other.get(k), res) {
                (Some(v), Res::Found(w)) => v == w,
                (None, Res::Nf) => true,
                _ => false,
            },
            Op::Del(k) | Op::DelD(k) => {
                let present = if cache(k) { self.contains(*k, coll) } else { self.other.contains_key(k) };
                matches!((present, res), (true, Res::Ok) | (false, Res::Nf))
            }
            Op::Ex(k) => *res == Res::Bool(if cache(k) { self.contains(*k, coll) } else { self.other.contains_key(k) }),
            Op::Scan(p) => match res {
                Res::Keys(ks) => {
                    let pfx = p.real();
                    let want: Vec<Key> = self.keys().into_iter().filter(|k| k.real().starts_with(&pfx)).collect();
                    *ks == want
                }
                _ => false,
            },
        }
    }
    fn apply(&mut self, op: &Op, coll: &[(Key, Key)]) {
        match op {
            Op::Put(k, v) | Op::PutD(k, v) if k.cls() == Cls::C => self.put(*k, *v, coll),
            Op::Put(k, v) | Op::PutD(k, v) => {
                self.other.insert(*k, *v);
            }
            Op::Del(k) | Op::DelD(k) if k.cls() == Cls::C => {
                self.delete(*k, coll);
            }
            Op::Del(k) | Op::DelD(k) => {
                self.other.remove(k);
            }
            _ => {}
        }
    }
}

fn wg_ring(recs: &[HRec], done: u64, st: &RingSpec, coll: &[(Key, Key)], seen: &mut HashSet<(u64, RingSpec)>, nodes: &mut u64) -> bool {
    if done.count_ones() as usize == recs.len() {
        return true;
    }
    *nodes += 1;
    if *nodes > 500_000 {
        return true; // search budget exhausted: the benefit of the doubt (counted by the caller)
    }
    if !seen.insert((done, st.clone())) {
        return false;
    }
    let min_ret = recs.iter().enumerate().filter(|(j, _)| done & (1 << j) == 0).map(|(_, r)| r.ret).min().unwrap();
    for (j, r) in recs.iter().enumerate() {
        if done & (1 << j) != 0 || r.inv > min_ret || !st.ok(&r.op, &r.res, coll) {
            continue;
        }
        let mut st2 = st.clone();
        st2.apply(&r.op, coll);
        if wg_ring(recs, done | (1 << j), &st2, coll, seen, nodes) {
            return true;
        }
    }
    false
}

/// Wing-Gong against the ring: (a legal order exists, the search was cut by its budget)
fn ring_linearizable(recs: &[HRec], coll: &[(Key, Key)]) -> (bool, bool) {
    let mut nodes = 0;
    let st = RingSpec { slots: Vec::new(), index: BTreeMap::new(), other: BTreeMap::new() };
    let ok = recs.len() > 60 || wg_ring(recs, 0, &st, coll, &mut HashSet::new(), &mut nodes);
    (ok, nodes > 500_000)
}

/// two operations of different threads on one `emb:` key overlap in time (the situation
/// `emb_linearizable_partial` excludes; the root cause of the known `emb:` findings)
fn emb_ops_overlap(recs: &[HRec]) -> bool {
    recs.iter().enumerate().any(|(i, a)| {
        recs.iter().skip(i + 1).any(|b| {
            a.t != b.t && a.op.key().map_or(false, |k| k.cls() == Cls::E) && a.op.key() == b.op.key() && a.inv <= b.ret && b.inv <= a.ret
        })
    })
}

/// the repaired defect 27855097 (a scan whose prefix has no end key returned the rest of its
/// metadata shard) is a regression oracle: a history that is linearizable only once such scans are
/// allowed EXACTLY that over-return is reported under the class of the fixed finding
const SCAN_OVERRETURN_IS_VIOLATION: bool = true;

// ------------------------------------------------------------------ generators

struct Gen {
    next_tag: u32,
}
impl Gen {
    fn val(&mut self, r: &mut Rng, k: Key) -> Val {
        self.next_tag += 1;
        let t = self.next_tag;
        let vec = if k.cls() == Cls::E {
            match r.below(10) {
                0..=5 => VecF::Good(t),
                6 => VecF::Bad(t),
                _ => VecF::N,
            }
        } else {
            match r.below(10) {
                0 => VecF::Good(t),
                1 => VecF::Bad(t),
                _ => VecF::N,
            }
        };
        Val { tag: t, vec }
    }
    fn progs(&mut self, r: &mut Rng, durable: bool, classes: &[Cls], nthreads: usize) -> Vec<Vec<Op>> {
        // a few contended keys
        let nkeys = 1 + r.below(3) as usize;
        let keys: Vec<Key> = (0..nkeys).map(|_| Key::new(*r.pick(classes), 1 + r.below(2) as u32)).collect();
        (0..nthreads)
            .map(|_| {
                let n = 1 + r.below(3) as usize;
                (0..n)
                    .map(|_| {
                        let k = *r.pick(&keys);
                        let dur = durable && r.chance(9, 10);
                        match r.below(100) {
                            0..=34 => {
                                let v = self.val(r, k);
                                if dur { Op::PutD(k, v) } else { Op::Put(k, v) }
                            }
                            35..=64 => Op::Get(k),
                            65..=79 => if dur { Op::DelD(k) } else { Op::Del(k) },
                            80..=89 => Op::Ex(k),
                            90..=96 => Op::Scan(Key::of(k.cls().prefix())),
                            _ => Op::Scan(Key::of("")),
                        }
                    })
                    .collect()
            })
            .collect()
    }
}

impl Gen {
    /// mostly durable writers of one or two contended plain / graph / table keys that start absent:
    /// puts and deletes (of present keys, of keys never put, of keys being put) in equal measure
    fn writers(&mut self, r: &mut Rng, nthreads: usize) -> Vec<Vec<Op>> {
        let cls = *r.pick(&[Cls::P, Cls::G, Cls::T]);
        let nkeys = 1 + r.below(2) as u32;
        (0..nthreads)
            .map(|_| {
                let n = 1 + r.below(2) as usize;
                (0..n)
                    .map(|_| {
                        let k = Key::new(cls, 1 + r.below(u64::from(nkeys)) as u32);
                        match r.below(100) {
                            0..=41 => {
                                self.next_tag += 1;
                                Op::PutD(k, Val { tag: self.next_tag, vec: VecF::N })
                            }
                            42..=83 => Op::DelD(k),
                            84..=91 => Op::Get(k),
                            92..=95 => Op::Ex(k),
                            _ => Op::Scan(Key::of(cls.prefix())),
                        }
                    })
                    .collect()
            })
            .collect()
    }
}

/// building blocks of the keys and prefixes of the `*.odd_keys` streams: characters whose last
/// UTF-8 byte is 7F / BF (no end key: DEL, `¿` C2 BF, `ÿ` C3 BF, `п` D0 BF, `ӿ` D3 BF, U+FFFF EF BF BF,
/// U+1F93F F0 9F A4 BF) and their neighbours in the same metadata shard, characters of 1-4 bytes, the
/// class prefixes and strings that merely resemble them
const PIECES: [&str; 34] = [
    "a", "\u{7f}", "q", "п", "р", "ÿ", "ӿ", "é", "ê", "¿", "À", "€", "\u{ffff}", "😀", "\u{1f93f}", "e", "m", "b", ":", "_", "1", "2", "x", "u",
    "emb:", "user:", "_cache:", "node:", "edge:", "table:", "emb", "cache:", "nodes:", "user",
];

impl Gen {
    fn odd_key(&mut self, r: &mut Rng) -> Key {
        if r.chance(1, 40) {
            return Key::of("");
        }
        let n = 1 + r.below(3);
        let s: String = (0..n).map(|_| *r.pick(&PIECES)).collect();
        Key::of(&s)
    }
    fn odd_prefix(&mut self, r: &mut Rng, keys: &[Key]) -> Key {
        match r.below(10) {
            0 => Key::of(""),
            1..=6 => {
                // the first characters of one of the keys
                let k = r.pick(keys).real();
                let n = k.chars().count() as u64;
                let take = if n == 0 { 0 } else { 1 + r.below(n) as usize };
                Key::of(&k.chars().take(take).collect::<String>())
            }
            _ => {
                let n = 1 + r.below(2);
                Key::of(&(0..n).map(|_| *r.pick(&PIECES)).collect::<String>())
            }
        }
    }
    /// programs on a handful of keys that are arbitrary strings, a quarter of the operations scans
    fn odd_progs(&mut self, r: &mut Rng, durable: bool, nthreads: usize) -> Vec<Vec<Op>> {
        let nkeys = 2 + r.below(4) as usize;
        let keys: Vec<Key> = (0..nkeys).map(|_| self.odd_key(r)).collect();
        (0..nthreads)
            .map(|_| {
                let n = 1 + r.below(if nthreads == 1 { 8 } else { 3 }) as usize;
                (0..n)
                    .map(|_| {
                        let k = *r.pick(&keys);
                        let dur = durable && r.chance(9, 10);
                        match r.below(100) {
                            0..=39 => {
                                let v = self.val(r, k);
                                if dur { Op::PutD(k, v) } else { Op::Put(k, v) }
                            }
                            40..=51 => Op::Get(k),
                            52..=63 => if dur { Op::DelD(k) } else { Op::Del(k) },
                            64..=69 => Op::Ex(k),
                            _ => Op::Scan(self.odd_prefix(r, &keys)),
                        }
                    })
                    .collect()
            })
            .collect()
    }
}

impl Gen {
    /// the hypothesis of `durable_order_eq_memory_order` / `recovered_eq_live`: every write durable
    /// (`put_durable` of any value, `delete_durable`) on one to three contended keys of the plain /
    /// graph / table / emb: classes, plus readers (get / exists / scan) that interleave with the
    /// sub-steps of the `emb:` writes
    fn durable_rw(&mut self, r: &mut Rng, nthreads: usize) -> Vec<Vec<Op>> {
        let nkeys = 1 + r.below(3) as usize;
        let keys: Vec<Key> = (0..nkeys).map(|_| Key::new(*r.pick(&[Cls::E, Cls::E, Cls::P, Cls::G, Cls::T]), 1 + r.below(2) as u32)).collect();
        (0..nthreads)
            .map(|_| {
                let n = 1 + r.below(3) as usize;
                (0..n)
                    .map(|_| {
                        let k = *r.pick(&keys);
                        match r.below(100) {
                            0..=44 => Op::PutD(k, self.val(r, k)),
                            45..=69 => Op::DelD(k),
                            70..=84 => Op::Get(k),
                            85..=91 => Op::Ex(k),
                            92..=96 => Op::Scan(Key::of(k.cls().prefix())),
                            _ => Op::Scan(Key::of("")),
                        }
                    })
                    .collect()
            })
            .collect()
    }
}

impl Gen {
    /// the shape of history a Bloom filter in front of the slabs is sensitive to: keys that were
    /// NEVER put before on the store (after its first put a key stays in the filter for good),
    /// written by one or two threads - mostly `emb:` keys, whose put is three atomic steps - and
    /// readers that first learn of a key (a scan of its class prefix, or of everything) and then ask
    /// for it (exists, get), in that order
    fn first_puts(&mut self, r: &mut Rng, durable: bool, nthreads: usize) -> Vec<Vec<Op>> {
        let nkeys = 1 + r.below(3) as usize;
        let keys: Vec<Key> = (0..nkeys).map(|i| Key::new(*r.pick(&[Cls::E, Cls::E, Cls::E, Cls::E, Cls::P, Cls::G, Cls::T, Cls::C]), 1 + i as u32)).collect();
        let nwriters = 1 + r.below((nthreads - 1) as u64) as usize;
        (0..nthreads)
            .map(|t| {
                let mut prog = Vec::new();
                if t < nwriters {
                    for _ in 0..(1 + r.below(2)) {
                        let k = *r.pick(&keys);
                        let dur = durable && r.chance(9, 10);
                        match r.below(10) {
                            0..=7 => {
                                let v = self.val(r, k);
                                prog.push(if dur { Op::PutD(k, v) } else { Op::Put(k, v) });
                            }
                            8 => prog.push(if dur { Op::DelD(k) } else { Op::Del(k) }),
                            _ => prog.push(Op::Get(k)),
                        }
                    }
                } else {
                    for _ in 0..(1 + r.below(2)) {
                        let k = *r.pick(&keys);
                        if r.chance(4, 5) {
                            prog.push(Op::Scan(Key::of(if r.chance(3, 4) { k.cls().prefix() } else { "" })));
                        }
                        if r.chance(4, 5) {
                            prog.push(Op::Ex(k));
                        }
                        if r.chance(4, 5) || prog.is_empty() {
                            prog.push(Op::Get(k));
                        }
                    }
                }
                prog
            })
            .collect()
    }
}

impl Gen {
    /// the shape of history the key comparison of `CacheRing::get` is there for: a few cache keys among
    /// which pairs with ONE hash (`alphabet`), slots emptied and re-used (delete / put churn), and
    /// mostly gets; every value distinct, so that a value names the key it was written to
    fn ring_progs(&mut self, r: &mut Rng, alphabet: &[Key], nthreads: usize, max_ops: u64) -> Vec<Vec<Op>> {
        let nkeys = (2 + r.below(3) as usize).min(alphabet.len());
        let first = r.below((alphabet.len() - nkeys + 1) as u64) as usize;
        // neighbours in the alphabet: the two keys of a pair are adjacent
        let keys: Vec<Key> = alphabet[first..first + nkeys].to_vec();
        (0..nthreads)
            .map(|_| {
                let n = 1 + r.below(max_ops) as usize;
                (0..n)
                    .map(|_| {
                        let k = *r.pick(&keys);
                        match r.below(100) {
                            0..=33 => {
                                self.next_tag += 1;
                                let v = Val { tag: self.next_tag, vec: VecF::N };
                                if r.chance(1, 8) { Op::PutD(k, v) } else { Op::Put(k, v) }
                            }
                            34..=68 => Op::Get(k),
                            69..=82 => if r.chance(1, 8) { Op::DelD(k) } else { Op::Del(k) },
                            83..=90 => Op::Ex(k),
                            91..=97 => Op::Scan(Key::of("_cache:")),
                            _ => Op::Scan(Key::of("")),
                        }
                    })
                    .collect()
            })
            .collect()
    }
}

/// a read by another thread (a scan, or exists / get of the key) took place entirely between the
/// first and the last atomic step of the FIRST put of a key in the run
fn reader_inside_first_put(hist: &[HRec]) -> bool {
    hist.iter().any(|p| match p.op {
        Op::Put(k, _) | Op::PutD(k, _) => {
            p.ret > p.inv
                && !hist.iter().any(|q| matches!(q.op, Op::Put(k2, _) | Op::PutD(k2, _) if k2 == k) && q.inv < p.inv)
                && hist.iter().any(|x| x.t != p.t && x.inv > p.inv && x.ret < p.ret && (matches!(x.op, Op::Scan(_)) || (matches!(x.op, Op::Ex(_) | Op::Get(_)) && x.op.key() == Some(k))))
        }
        _ => false,
    })
}

// ------------------------------------------------------------------ one case

/// the replayable input of a case (`line`, and `mutex` / `grants` of a real-mutex run) + details
fn with(base: &serde_json::Value, extra: serde_json::Value) -> serde_json::Value {
    let mut v = base.clone();
    if let (Some(o), Some(e)) = (v.as_object_mut(), extra.as_object()) {
        for (k, x) in e {
            o.insert(k.clone(), x.clone());
        }
    }
    v
}

struct Ctx<'a> {
    rep: &'a mut Report,
    model: &'a mut Model,
    viol_count: BTreeMap<String, u32>,
    budget_hits: u64,
    stalls: u64,
    /// schedule so that no two operations on one `emb:` key overlap (see `run_real`)
    exclusive_emb: bool,
    /// no harness-side mirror of the log mutex: durable writers are granted while the mutex is held
    /// and block on the REAL mutex (see the head of this file)
    real_mutex: bool,
    /// how the store is built (see `run_real`): 0 plain, 1 Bloom filter, 2 instrumentation, 3 both
    variant: u8,
    scan_observed: u32,
    /// take a `CrashProbe` before this grant (runs with a log only)
    crash_at: Option<usize>,
    /// the log mode of the case being judged
    cur_wal: Option<SyncMode>,
    /// the case being judged was already re-run on the filter-free store: did it differ
    twin_differs: Option<bool>,
    twin_history_differs: bool,
    /// re-run every case of a store with a Bloom filter on the filter-free store, same step order
    /// (Lean: `BloomProps.bloom_store_transparent`): trace, results, image, log must be the same
    twin_always: bool,
    /// the yield point inside `try_get_or_create` is a scheduling point (see `run_real`); the model
    /// is asked with `runi`
    index_steps: bool,
    /// the yield point inside `CacheRing::get` is a scheduling point (see `run_real`)
    ring_steps: bool,
    /// ask the model that has the cache ring as it is (`runr`, or `runrf` when `ring_steps` is off)
    ring: bool,
    /// the pairs of cache keys with one hash, checked against the real ring at start
    coll: Vec<(Key, Key)>,
    coll_observed: u32,
}

/// the model command for a store variant: the filtered store has its own step machine
fn run_cmd(variant: u8) -> &'static str {
    if variant & 1 == 1 { "runb" } else { "run" }
}

/// per atomic step of a run: (thread, index of the operation in the thread's program)
fn step_ops(o: &RunOut, nthreads: usize) -> Vec<(usize, usize)> {
    let mut next = vec![0usize; nthreads];
    o.steps
        .iter()
        .map(|(t, site, _)| {
            if site.starts_with("store.") {
                next[*t] += 1;
            }
            (*t, next[*t].saturating_sub(1))
        })
        .collect()
}

/// one scripted run (mirror of the log mutex), re-run while the scheduler misses its stall window
fn scripted(progs: &[Vec<Op>], wal: Option<SyncMode>, variant: u8, sched: &[usize]) -> Option<RunOut> {
    scripted_r(progs, wal, variant, false, sched)
}
fn scripted_r(progs: &[Vec<Op>], wal: Option<SyncMode>, variant: u8, ring_steps: bool, sched: &[usize]) -> Option<RunOut> {
    for _ in 0..6 {
        let o = run_real(progs, wal, variant, None, true, false, false, ring_steps, |i, _, _| sched.get(i).copied());
        if !o.unexplained {
            return Some(o);
        }
    }
    None
}

/// Greedy shrinker of a failing (programs, step order): drop one operation at a time together with
/// its atomic steps, keep the smaller case when the scripted run still executes as written and
/// `fails`; then drop the threads that have become empty.
fn shrink_case(progs: &[Vec<Op>], wal: Option<SyncMode>, variant: u8, first: &RunOut, fails: &mut dyn FnMut(&[Vec<Op>], &RunOut) -> bool) -> (Vec<Vec<Op>>, Vec<usize>) {
    shrink_case_r(progs, wal, variant, false, first, fails)
}
fn shrink_case_r(progs: &[Vec<Op>], wal: Option<SyncMode>, variant: u8, ring_steps: bool, first: &RunOut, fails: &mut dyn FnMut(&[Vec<Op>], &RunOut) -> bool) -> (Vec<Vec<Op>>, Vec<usize>) {
    let mut cur: Vec<Vec<Op>> = progs.to_vec();
    let mut sched: Vec<usize> = first.sched.clone();
    let mut map = step_ops(first, cur.len());
    let mut budget = 120;
    loop {
        let mut changed = false;
        for t in 0..cur.len() {
            let mut i = cur[t].len();
            while i > 0 && budget > 0 {
                i -= 1;
                budget -= 1;
                let mut cand = cur.clone();
                cand[t].remove(i);
                let csched: Vec<usize> = sched.iter().zip(map.iter()).filter(|(_, m)| **m != (t, i)).map(|(s, _)| *s).collect();
                if let Some(o2) = scripted_r(&cand, wal, variant, ring_steps, &csched) {
                    if !o2.deviated && !o2.panicked && fails(&cand, &o2) {
                        map = step_ops(&o2, cand.len());
                        sched = o2.sched.clone();
                        cur = cand;
                        changed = true;
                    }
                }
            }
        }
        if !changed || budget == 0 {
            break;
        }
    }
    // renumber: drop empty threads
    let keep: Vec<usize> = (0..cur.len()).filter(|t| !cur[*t].is_empty()).collect();
    if keep.len() < cur.len() && !keep.is_empty() {
        let cand: Vec<Vec<Op>> = keep.iter().map(|t| cur[*t].clone()).collect();
        let csched: Vec<usize> = sched.iter().filter_map(|t| keep.iter().position(|k| k == t)).collect();
        if let Some(o2) = scripted_r(&cand, wal, variant, ring_steps, &csched) {
            if !o2.deviated && !o2.panicked && fails(&cand, &o2) {
                return (cand, o2.sched);
            }
        }
    }
    (cur, sched)
}

impl Ctx<'_> {
    /// the model command for a case: `run` / `runb` (store variant) / `runi` (index granularity) /
    /// `runr` (the cache ring as it is, `get` in two steps) / `runrf` (the same, `get` in one scheduler step)
    fn model_line(&self, progs: &[Vec<Op>], wal: bool, sched: &[usize]) -> String {
        let (w, ps, sc) = (if wal { 1 } else { 0 }, show_progs(progs), show_sched(sched));
        if self.ring {
            return format!("{} {w} {} {ps} {sc}", if self.ring_steps { "runr" } else { "runrf" }, show_coll(&collisions_in(progs, &self.coll)));
        }
        format!("{} {w} {ps} {sc}", if self.index_steps { "runi" } else { run_cmd(self.variant) })
    }

    fn violation(&mut self, class: &str, what: &str, input: serde_json::Value) {
        let c = self.viol_count.entry(class.to_string()).or_insert(0);
        *c += 1;
        self.rep.hit(&format!("violation:{class}"));
        if *c <= 3 {
            self.rep.violation(class, what, input);
        }
    }

    /// Run one case on the real store and on the model; returns the real outcome (None = discarded).
    fn case(&mut self, stream: &str, progs: &[Vec<Op>], wal: Option<SyncMode>, sched: Option<&[usize]>, rng: &mut Rng, oracle: bool) -> Option<RunOut> {
        let mut out = None;
        // a scripted (directed / witness / replay) schedule is re-run more often: the known findings
        // must be reproduced on every run, also on a loaded machine
        for _attempt in 0..(if sched.is_some() { 12 } else { 3 }) {
            let mut r2 = rng.clone();
            let o = run_real(progs, wal, self.variant, self.crash_at, !self.real_mutex, self.exclusive_emb, self.index_steps, self.ring_steps, |i, ids, holder| match sched {
                Some(s) => s.get(i).copied(),
                // while somebody waits for the mutex every scheduling decision costs the stall window:
                // let the holder go on half of the time
                None => match holder {
                    Some(h) if ids.contains(&h) && r2.chance(1, 2) => Some(h),
                    _ => Some(ids[r2.below(ids.len() as u64) as usize]),
                },
            });
            if o.unexplained {
                self.stalls += 1;
                continue; // a runner missed the 30 ms window (machine load): not a controlled schedule
            }
            *rng = r2;
            out = Some(o);
            break;
        }
        let o = match out {
            Some(o) => o,
            None => {
                self.rep.hit("discarded:scheduler_stall");
                return None;
            }
        };
        // the model is asked about the order of the atomic steps; a replay needs the grants
        let variant = self.variant;
        let line = self.model_line(progs, wal.is_some(), &o.sched);
        let ans = self.model.ask(&line);
        let real_mutex = self.real_mutex;
        let grants_s = show_sched(&o.grants);
        let input = || {
            let mut v = if real_mutex { json!({"line": line, "mutex": "real", "grants": grants_s}) } else { json!({"line": line}) };
            if variant != 0 {
                v["store_variant"] = json!(variant);
                v["store"] = json!(["plain", "bloom_filter", "instrumentation", "bloom_filter_and_instrumentation"][variant as usize & 3]);
            }
            v
        };
        self.cur_wal = wal;
        // "the filter knows every visible key", probed at every scheduling decision of the run
        match &o.filter_probe {
            None => self.rep.hit("oracle:slabs_and_store_agree_at_every_step"),
            Some(fp) => {
                let class = "tensor_store.bloom_filter/key_visible_in_slabs_reported_absent";
                let what = "while every worker was parked: the slabs hold the key (SlabRouter::exists / get find it, a scan lists it) and the store's own exists / get say it is absent - the negative fast path of the Bloom filter answered for a key the filter has not been told about, so a reader that has seen the key (in a scan, or through a completed put) is then told it does not exist";
                let mut inp = with(&input(), json!({"key": fp.key.show(), "fails_after_steps": fp.at_step, "probe": fp.what, "real_trace": o.trace, "real_history": o.hist_s}));
                if !real_mutex && self.viol_count.get(class).copied().unwrap_or(0) < 3 {
                    // shrink: fewest operations with which the scripted run still fails the probe
                    let (sp, ss) = shrink_case(progs, wal, variant, &o, &mut |_, o2| o2.filter_probe.is_some());
                    if let Some(o2) = scripted(&sp, wal, variant, &ss) {
                        if let Some(fp2) = &o2.filter_probe {
                            let sline = format!("{} {} {} {}", run_cmd(variant), if wal.is_some() { 1 } else { 0 }, show_progs(&sp), show_sched(&ss));
                            inp = with(&inp, json!({"line": sline, "original_line": line, "key": fp2.key.show(), "fails_after_steps": fp2.at_step, "probe": fp2.what, "real_trace": o2.trace, "real_history": o2.hist_s}));
                        }
                    }
                }
                self.violation(class, what, inp);
            }
        }
        self.twin_differs = None;
        if variant & 1 == 1 && self.twin_always && !real_mutex {
            let d = self.twin(progs, wal, &o, false);
            self.twin_differs = Some(d.is_some());
            self.twin_history_differs = d.as_ref().map_or(false, |d| d["history_differs"] == json!(true));
            if let Some(d) = d {
                self.violation(
                    "tensor_store.bloom_filter/answers_differ_from_filter_free_store",
                    "the same programs in the same step order on a store without a Bloom filter give other results: the filter is not invisible",
                    with(&input(), d),
                );
            }
        }
        if real_mutex {
            self.rep.hit(if o.waits.is_empty() { "real_mutex:nobody_waited" } else { "real_mutex:durable_writer_waited_for_real_log_mutex" });
            for w in &o.waits {
                self.rep.hit(&format!("real_mutex:{w}"));
            }
        }
        let nontrivial = o.hist.iter().any(|r| matches!(r.op, Op::Put(..) | Op::PutD(..) | Op::Del(..) | Op::DelD(..)) && r.res == Res::Ok)
            && o.hist.iter().any(|r| matches!(r.res, Res::Found(_) | Res::Bool(true)) || matches!(&r.res, Res::Keys(k) if !k.is_empty()));
        self.rep.case(stream, if nontrivial { Some(&line) } else { None });
        self.rep.hit(&format!("threads:{}", progs.len()));
        self.rep.hit_n("steps", o.steps.len() as u64);
        for (_, s, _) in &o.steps {
            self.rep.hit(&format!("site:{s}"));
        }
        for r in &o.hist {
            match r.op {
                Op::Scan(p) => {
                    let s = p.real();
                    self.rep.hit(if s.is_empty() { "scan:empty_prefix" } else if !has_end_key(&s) { "scan:prefix_without_end_key" } else if CLASSES.iter().any(|c| c.prefix() == s) { "scan:class_prefix" } else { "scan:prefix_with_end_key" });
                }
                _ => {
                    if let Some(k) = r.op.key() {
                        let s = k.real();
                        if s.is_empty() {
                            self.rep.hit("key:empty");
                        } else if !s.is_ascii() {
                            self.rep.hit("key:multibyte");
                        } else if k.show().starts_with('x') {
                            self.rep.hit("key:not_a_class_alias");
                        }
                    }
                }
            }
            let c = r.op.key().map_or("scan", |k| k.cls().name());
            self.rep.hit(&format!("op:{}:{}", r.op.kind(), c));
            self.rep.hit(&format!("res:{}", match &r.res { Res::Ok => "ok", Res::Nf => "not_found", Res::Found(_) => "found", Res::Bool(true) => "true", Res::Bool(false) => "false", Res::Keys(_) => "keys", Res::Other(_) => "other" }));
            if r.ret > r.inv + 0 && o.hist.iter().any(|q| q.t != r.t && q.inv <= r.ret && r.inv <= q.ret) {
                self.rep.hit("overlapping_multi_step_op");
            }
        }
        for r in &o.hist {
            if let Res::Other(m) = &r.res {
                if let Some(what) = m.strip_prefix("sibling: ") {
                    self.violation(
                        "tensor_store.scan_siblings/scan_count_or_scan_filter_map_differs_from_scan",
                        "read in one atomic step with scan(prefix), scan_count(prefix) is not the number of keys scan lists, or scan_filter_map(prefix) is not the listed keys that are in the metadata slab",
                        with(&input(), json!({"what": what, "real_history": o.hist_s})),
                    );
                }
            }
        }
        if o.deviated {
            self.rep.disagree(&format!("{stream}.schedule"), input(), "scripted thread was not parked", "schedule is executable");
        }
        if o.panicked {
            self.rep.disagree(&format!("{stream}.panic"), input(), "a worker thread panicked", "");
        }
        // model answer: trace … | hist … | image … [| wal … | rimage …] | q=…
        let mut parts: BTreeMap<&str, &str> = BTreeMap::new();
        for p in ans.split(" | ") {
            if let Some((a, b)) = p.split_once(' ') {
                parts.insert(a, b);
            } else if let Some(q) = p.strip_prefix("q=") {
                parts.insert("q", q);
            }
        }
        if parts.is_empty() {
            // the oracles speak about the real outputs alone: evaluated whatever the model says
            self.rep.disagree(&format!("{stream}.driver"), input(), "", &ans);
            if oracle {
                self.oracles(progs, wal.is_some(), &o, &input());
            }
            return Some(o);
        }
        self.rep.compare(&format!("{stream}.trace"), input, &o.trace, parts.get("trace").unwrap_or(&"?"));
        self.rep.compare(&format!("{stream}.results"), input, &o.hist_s, parts.get("hist").unwrap_or(&"?"));
        self.rep.compare(&format!("{stream}.image"), input, &o.image, parts.get("image").unwrap_or(&"?"));
        self.rep.compare(&format!("{stream}.quiescent"), input, "1", parts.get("q").unwrap_or(&"?"));
        if let (Some(w), Some(ri)) = (&o.wal, &o.rimage) {
            self.rep.compare(&format!("{stream}.wal_records"), input, w, parts.get("wal").unwrap_or(&"?"));
            self.rep.compare(&format!("{stream}.recovered_image"), input, ri, parts.get("rimage").unwrap_or(&"?"));
        }
        if let Some(cp) = &o.crash {
            self.crash_probe(progs, &o, cp);
        }
        if self.rep.samples.len() < 6 && nontrivial {
            self.rep.sample(json!({"stream": stream, "line": line, "real_hist": o.hist_s, "image": o.image}));
        }
        if oracle {
            self.oracles(progs, wal.is_some(), &o, &input());
        }
        Some(o)
    }

    /// A crash at one moment of a run whose writes are all durable (`crash_at_any_step_recovers_live_
    /// or_inflight_write_completed`): the store recovered from the log as it was at that moment shows
    /// every key as the live store did at that moment - except the key of the one durable write that
    /// held the log mutex, which it shows as that write leaves it.  Model: image and recovered image
    /// of the run cut at the same step.
    fn crash_probe(&mut self, progs: &[Vec<Op>], o: &RunOut, cp: &CrashProbe) {
        let prefix: Vec<usize> = o.sched[..cp.at_step.min(o.sched.len())].to_vec();
        let line = format!("{} 1 {} {}", run_cmd(self.variant), show_progs(progs), show_sched(&prefix));
        self.rep.case("crash.mid_run", Some(&line));
        self.rep.hit(if cp.inflight.is_some() { "crash:while_a_durable_write_holds_the_mutex" } else { "crash:nobody_inside_a_durable_write" });
        let ans = self.model.ask(&line);
        let mut parts: BTreeMap<&str, &str> = BTreeMap::new();
        for p in ans.split(" | ") {
            if let Some((a, b)) = p.split_once(' ') {
                parts.insert(a, b);
            }
        }
        let input = || json!({"line": line, "crash_after_steps": cp.at_step});
        self.rep.compare("crash.mid_run.image", input, &show_view(&cp.live), parts.get("image").unwrap_or(&"?"));
        self.rep.compare("crash.mid_run.recovered_image", input, &show_view(&cp.rec), parts.get("rimage").unwrap_or(&"?"));
        // the oracle, on the real outputs alone
        let all_durable = !progs.iter().flatten().any(|op| matches!(op, Op::Put(k, _) | Op::Del(k) if k.cls() != Cls::C));
        if !all_durable {
            return;
        }
        let mut bad = Vec::new();
        for (k, live) in &cp.live {
            if k.cls() == Cls::C {
                continue;
            }
            let rec = cp.rec.get(k).cloned().unwrap_or_default();
            let want = match cp.inflight {
                Some((_, Op::PutD(ik, v))) if ik == *k => format!("v{}/T/T", v.show()),
                Some((_, Op::DelD(ik))) if ik == *k => "nf/F/F".to_string(),
                _ => live.clone(),
            };
            if rec != want {
                bad.push(json!({"key": k.show(), "live": live, "recovered": rec, "expected_recovered": want}));
            }
        }
        if bad.is_empty() {
            self.rep.hit("oracle:crash_mid_run_recovers_live_or_inflight_write_completed");
        } else {
            self.violation(
                "tensor_store.recover/crash_mid_run_recovers_neither_live_state_nor_completed_inflight_write",
                "a crash while the workers were parked: the store recovered from the log file differs from the live store on a key other than the key of the durable write that holds the log mutex, or shows that key otherwise than the write leaves it",
                json!({"line": line, "crash_after_steps": cp.at_step, "inflight": cp.inflight.map(|(t, op)| format!("t{t}:{}", op.show())), "keys": bad, "real_trace": o.trace}),
            );
        }
    }

    /// Ask the REAL log mutex: run a scripted schedule without the harness-side mirror.  `sched`
    /// grants a second durable writer of a non-cache key while the first is between its log step
    /// and the end of its apply.  On the current code that thread blocks in `Mutex::lock` (the
    /// scheduler reports it `blocked` after its 30 ms stall window) and runs after the holder has
    /// applied; the final image, log and recovered image must be the model's (whose `step` leaves a
    /// blocked thread where it is).  If the mutex were released before the apply (the code before
    /// dfea2ecb) the script executes as written and the durable oracle reports the reversal.
    fn mutex_probe(&mut self, progs: &[Vec<Op>], sched: &[usize]) {
        let o = run_real(progs, Some(SyncMode::Immediate), 0, None, false, false, false, false, |i, _, _| sched.get(i).copied());
        let line = format!("run 1 {} {}", show_progs(progs), show_sched(sched));
        self.rep.case("probe.log_mutex", Some(&line));
        self.rep.hit(if o.stalled { "probe:second_durable_writer_blocked_on_real_log_mutex" } else { "probe:second_durable_writer_not_blocked" });
        if o.panicked {
            self.rep.disagree("probe.log_mutex.panic", json!({"line": line}), "a worker thread panicked", "");
        }
        // the model, given the grants of the real run twice over (a blocked pick and a pick of a
        // finished thread are no-ops there), reaches the same final state
        let twice: Vec<usize> = o.sched.iter().chain(o.sched.iter()).copied().collect();
        let mline = format!("run 1 {} {}", show_progs(progs), show_sched(&twice));
        let ans = self.model.ask(&mline);
        let mut parts: BTreeMap<&str, &str> = BTreeMap::new();
        for p in ans.split(" | ") {
            if let Some((a, b)) = p.split_once(' ') {
                parts.insert(a, b);
            } else if let Some(q) = p.strip_prefix("q=") {
                parts.insert("q", q);
            }
        }
        let input = || json!({"line": mline, "scripted": line, "real_trace": o.trace});
        self.rep.compare("probe.log_mutex.image", input, &o.image, parts.get("image").unwrap_or(&"?"));
        self.rep.compare("probe.log_mutex.quiescent", input, "1", parts.get("q").unwrap_or(&"?"));
        if let (Some(w), Some(ri)) = (&o.wal, &o.rimage) {
            self.rep.compare("probe.log_mutex.wal_records", input, w, parts.get("wal").unwrap_or(&"?"));
            self.rep.compare("probe.log_mutex.recovered_image", input, ri, parts.get("rimage").unwrap_or(&"?"));
        }
        self.durable_oracle(progs, true, &o, &json!({"line": line, "mutex": "real", "grants": show_sched(sched)}), &[]);
    }

    /// `BloomProps.bloom_store_transparent` asked of the real store: the same programs in the same
    /// order of atomic steps on the store built WITHOUT the filter (otherwise the same variant).
    /// Some(details) when trace, results, final image, log or recovered image differ.
    fn twin(&mut self, progs: &[Vec<Op>], wal: Option<SyncMode>, o: &RunOut, history_only: bool) -> Option<serde_json::Value> {
        let t = match scripted(progs, wal, self.variant & !1, &o.sched) {
            Some(t) => t,
            None => {
                self.rep.hit("twin:discarded_scheduler_stall");
                return None;
            }
        };
        self.rep.hit("twin:same_steps_on_filter_free_store");
        // `history_only`: to attribute a non-linearizable HISTORY to the filter only what the
        // threads saw counts (the images are judged by the quiescent and the recovery oracles)
        let same = t.trace == o.trace && t.hist_s == o.hist_s && (history_only || (t.image == o.image && t.wal == o.wal && t.rimage == o.rimage));
        if same {
            self.rep.hit("oracle:filtered_store_equals_filter_free_store");
            return None;
        }
        let first = o.hist.iter().find(|r| !t.hist.iter().any(|q| q.t == r.t && q.i == r.i && q.res == r.res));
        Some(json!({
            "first_result_that_differs": first.map(|r| format!("t{}:{} -> {} on the store with the filter, {} without", r.t, r.op.show(), r.res.show(),
                t.hist.iter().find(|q| q.t == r.t && q.i == r.i).map_or("(not completed)".to_string(), |q| q.res.show()))),
            "real_history": o.hist_s, "filter_free_history": t.hist_s, "real_trace": o.trace, "filter_free_trace": t.trace,
            "image": o.image, "filter_free_image": t.image, "recovered": o.rimage, "filter_free_recovered": t.rimage,
            "history_differs": t.trace != o.trace || t.hist_s != o.hist_s,
        }))
    }

    fn oracles(&mut self, progs: &[Vec<Op>], wal: bool, o: &RunOut, base: &serde_json::Value) {
        // (a) linearizability of the recorded real history; an operation occupies the time from its
        //     CALL (for a durable write that waited for the mutex: the grant, not the log step) to
        //     its last step
        let hist: Vec<HRec> = o.hist.iter().map(|r| HRec { inv: r.call, ..r.clone() }).collect();
        // (00) a read returns only a value that was written TO THE KEY IT READS (Lean: `RingProps.cache_get_
        //      returns_only_a_value_written_to_that_key`, every hash function, every interleaving of the two
        //      lock sections of `CacheRing::get`).  Evaluated first, on every case of every stream.
        self.value_oracle(progs, wal, o, base);
        let coll = collisions_in(progs, &self.coll);
        if !coll.is_empty() {
            // two live cache keys with ONE hash: the ring is not a key->value map on them (Lean:
            // `ring_is_not_a_map_on_colliding_keys_witness`), the map oracles below do not apply
            self.collision_oracles(progs, o, base, &coll, &hist);
            return self.durable_oracle(progs, wal, o, base, &[]);
        }
        // (0) the entity index: a key never has two live ids (`IndexProps.get_or_create_never_gives_a_key_
        //     two_live_ids`, read off the real index once every thread has finished), and a deleted key is
        //     gone (`deleted_key_is_gone`, judged on the recorded history).  Evaluated first and on its
        //     own: the history is then ALSO not linearizable, and with two overlapping puts in it the
        //     classification below would file it under the known `emb:` classes.
        {
            let twice: Vec<String> = o.live_ids.iter().filter(|(_, n)| **n > 1).map(|(k, n)| format!("{}: {} live ids", k.show(), n)).collect();
            let seen = deleted_key_still_visible(&hist);
            if !twice.is_empty() || seen.is_some() {
                let detail = json!({
                    "keys_with_more_than_one_live_id_at_the_end": twice,
                    "delete_that_returned_ok": seen.as_ref().map(|(d, _)| format!("t{}.{}:{} -> {} (steps {}-{})", d.t, d.i, d.op.show(), d.res.show(), d.inv, d.ret)),
                    "later_operation_that_still_sees_the_key": seen.as_ref().map(|(_, r)| format!("t{}.{}:{} -> {} (steps {}-{})", r.t, r.i, r.op.show(), r.res.show(), r.inv, r.ret)),
                    "real_history": o.hist_s, "real_trace": o.trace, "image": o.image,
                });
                self.violation(CLASS_TWO_LIVE_IDS, WHAT_TWO_LIVE_IDS, with(base, detail));
            } else {
                self.rep.hit("oracle:one_live_id_per_key_and_deleted_key_gone");
            }
        }
        if hist.iter().any(|r| matches!(&r.res, Res::Other(m) if m.starts_with("sibling: "))) {
            // already reported by `case` under the class of the sibling scans; the scan has no key list to judge
            return self.durable_oracle(progs, wal, o, base, &[]);
        }
        let (ok, budget) = linearizable(&hist);
        if budget {
            self.budget_hits += 1;
        }
        // (c) at quiescence get / exists / scan must agree about every key
        let incoherent: Vec<Key> = o
            .mem_view
            .iter()
            .filter(|(_, v)| {
                let f: Vec<&str> = v.rsplitn(3, '/').collect(); // [inscan, exists, get]
                let found = f[2].starts_with('v');
                !((found && f[1] == "T" && f[0] == "T") || (!found && f[1] == "F" && f[0] == "F"))
            })
            .map(|(k, _)| *k)
            .collect();
        for k in &incoherent {
            let wrote_vec_durably = progs.iter().flatten().any(|op| matches!(op, Op::PutD(k2, v) if k2 == k && v.vec != VecF::N));
            let key_ops: Vec<HRec> = hist.iter().filter(|r| r.op.key() == Some(*k)).cloned().collect();
            let class = if k.cls() != Cls::E && k.cls() != Cls::C && wrote_vec_durably {
                "tensor_store.slab_router.put_durable/non_emb_key_with_vector_stays_in_scan_after_delete".to_string()
            } else if k.cls() == Cls::E && emb_ops_overlap(&key_ops) {
                // operations on the key overlapped: the final reads extend the history of the key to
                // one that no sequential order explains (get says absent, exists / scan say present)
                "tensor_store/emb_history_not_linearizable".to_string()
            } else {
                format!("tensor_store.slab_router/quiescent_{}_key_get_exists_scan_disagree", k.cls().name())
            };
            self.violation(
                &class,
                "after all threads finished, get / exists / scan give different answers about the key (get/exists/in-scan shown)",
                with(base, json!({"key": k.show(), "get/exists/inscan": o.mem_view.get(k), "real_history": o.hist_s})),
            );
        }
        if incoherent.is_empty() {
            self.rep.hit("oracle:quiescent_views_coherent");
        }
        let stale_scan = progs.iter().flatten().any(|op| matches!(op, Op::PutD(k, v) if k.cls() != Cls::E && k.cls() != Cls::C && v.vec != VecF::N));
        // before 27855097 a scan whose prefix has no end key (`next_prefix` = None: last byte 7F / BF)
        // returned the rest of its metadata shard (Lean: scan_prefix_without_successor_old_witness,
        // scan_old_exact_iff_prefix_bounded).  When the history is linearizable once such scans
        // are allowed EXACTLY that result, the failure is that over-return.
        let no_end_key = scans_without_end_key(&hist);
        if !ok && !no_end_key.is_empty() && linearizable_with(&hist, Relax { rest_of_shard: true, ignore: &[] }).0 {
            let class = "tensor_store.metadata_slab.scan/prefix_without_end_key_returns_rest_of_shard";
            let what = "scan(prefix) returned keys that do not start with the prefix: next_prefix(prefix) is None because the prefix with its last byte plus one is not UTF-8 (last byte 0x7F or 0xBF), and MetadataSlab::scan then reads the rest of the shard";
            let extra: Vec<String> = hist
                .iter()
                .filter_map(|r| match (&r.op, &r.res) {
                    (Op::Scan(p), Res::Keys(ks)) if !has_end_key(&p.real()) => Some(format!("scan({:?}) -> {:?}", p.real(), ks.iter().map(|k| k.real()).collect::<Vec<_>>())),
                    _ => None,
                })
                .collect();
            let input = with(base, json!({"class": class, "what": what, "scans": extra, "real_history": o.hist_s}));
                        self.scan_observed += 1;
            if SCAN_OVERRETURN_IS_VIOLATION {
                self.violation(class, what, input);
            } else if self.scan_observed <= 3 {
                self.rep.observe(input);
            }
            return self.durable_oracle(progs, wal, o, base, &incoherent);
        }
        if !ok && self.variant & 1 == 1 && !self.real_mutex {
            // a store with a Bloom filter: before the failure is filed under a class of the
            // filter-free code, ask the filter-free store for the same steps
            let w = self.cur_wal;
            if self.twin_differs == Some(true) && self.twin_history_differs {
                // already reported by `case` (answers_differ_from_filter_free_store)
                return self.durable_oracle(progs, wal, o, base, &incoherent);
            }
            let d = if self.twin_differs.is_none() { self.twin(progs, w, o, true) } else { None };
            if let Some(d) = d {
                self.violation(
                    "tensor_store.bloom_filter/history_not_linearizable_and_differs_from_filter_free_store",
                    "no order of the completed operations that respects real time is a legal sequential execution of the key→value map, and the same programs in the same step order on a store without a Bloom filter give other results",
                    with(base, d),
                );
                return self.durable_oracle(progs, wal, o, base, &incoherent);
            }
        }
        if !ok {
            let (cls, mix) = classify_nonlin(&hist);
            // the non-emb keys that were put durably with a vector: the repaired defect c787e542 left
            // an entity-index entry for them that `delete` never removed.  The failure is attributed
            // to it only if ignoring exactly these keys in every scan makes the history linearizable.
            let stale_keys: Vec<Key> = progs
                .iter()
                .flatten()
                .filter_map(|op| match op {
                    Op::PutD(k, v) if k.cls() != Cls::E && k.cls() != Cls::C && v.vec != VecF::N => Some(*k),
                    _ => None,
                })
                .collect();
            if cls == "scan" && mix.is_none() && stale_scan && linearizable_with(&hist, Relax { rest_of_shard: false, ignore: &stale_keys }).0 {
                // explained by the index entry `put_durable` leaves for a non-emb key (reported under (c) / below)
                self.violation(
                    "tensor_store.slab_router.put_durable/non_emb_key_with_vector_stays_in_scan_after_delete",
                    "put_durable of a non-emb key whose value has an _embedding allocates an entity-index entry that delete never removes: scan keeps returning the deleted key",
                    with(base, json!({"real_history": o.hist_s})),
                );
                return self.durable_oracle(progs, wal, o, base, &incoherent);
            }
            let input = with(base, json!({"real_history": o.hist_s, "real_trace": o.trace}));
            // the known findings have one root cause: two operations on one emb: key overlap.  A
            // non-linearizable history WITHOUT such an overlap contradicts `emb_linearizable_partial`
            // (and `single_step_ops_linearizable`) and gets a class of its own.
            let sfx = if emb_ops_overlap(&hist) { "" } else { "_without_overlapping_emb_ops" };
            match mix {
                Some(what) => self.violation(&format!("tensor_store.slab_router.emb/get_mixes_two_puts{sfx}"), &what, input),
                None => self.violation(
                    &format!("tensor_store/{cls}_history_not_linearizable{sfx}"),
                    "no order of the completed operations that respects real time is a legal sequential execution of the key→value map",
                    input,
                ),
            }
        } else {
            self.rep.hit("oracle:history_linearizable");
        }
        self.durable_oracle(progs, wal, o, base, &incoherent);
    }

    /// (00) of `oracles`: no get returns a value that was only ever put under another key
    fn value_oracle(&mut self, progs: &[Vec<Op>], wal: bool, o: &RunOut, base: &serde_json::Value) {
        let (r, owner) = match value_of_another_key(progs, &o.hist) {
            None => return self.rep.hit("oracle:every_get_returned_a_value_written_to_its_own_key"),
            Some(x) => x,
        };
        let k = r.op.key().unwrap_or(owner);
        let class = if k.cls() == Cls::C { CLASS_VALUE_OF_ANOTHER_KEY.to_string() } else { format!("tensor_store.slab_router.get.{}/value_of_another_key", k.cls().name()) };
        let detail = |r: &HRec, owner: Key, o: &RunOut, coll: &[(Key, Key)]| {
            json!({
                "get": format!("t{}.{}: get({:?}) -> {} (steps {}-{})", r.t, r.i, r.op.key().map(|k| k.real()).unwrap_or_default(), r.res.show(), r.inv, r.ret),
                "value_was_only_ever_put_under": owner.real(),
                "keys_with_one_hash": coll.iter().map(|(a, b)| format!("{} = {}", a.real(), b.real())).collect::<Vec<_>>(),
                "real_history": o.hist_s, "real_trace": o.trace, "image": o.image,
            })
        };
        let mut inp = with(base, detail(&r, owner, o, &collisions_in(progs, &self.coll)));
        if !self.real_mutex && !self.index_steps && self.viol_count.get(&class).copied().unwrap_or(0) < 3 {
            // shrink: the fewest operations with which the scripted run still returns a foreign value
            let w = if wal { self.cur_wal.or(Some(SyncMode::Manual)) } else { None };
            let (sp, ss) = shrink_case_r(progs, w, self.variant, self.ring_steps, o, &mut |p, o2| value_of_another_key(p, &o2.hist).is_some());
            if let Some(o2) = scripted_r(&sp, w, self.variant, self.ring_steps, &ss) {
                if let Some((r2, owner2)) = value_of_another_key(&sp, &o2.hist) {
                    let sline = self.model_line(&sp, wal, &ss);
                    inp = with(&with(base, detail(&r2, owner2, &o2, &collisions_in(&sp, &self.coll))), json!({"line": sline, "original_line": base["line"]}));
                }
            }
        }
        self.violation(&class, WHAT_VALUE_OF_ANOTHER_KEY, inp);
    }

    /// a case in which two cache keys of the programs share a hash.  Judged against THE RING (the
    /// sequential behaviour of `CacheRing` with these collisions, `RingSpec`): the recorded history
    /// must be one of its sequential executions in an order that respects real time.  Where the ring
    /// departs from the key->value map (a key displaced by a put of the other key of its hash: get
    /// NotFound / exists false / delete NotFound while the scan still lists it) is recorded as an
    /// observation - a finding about the code as it is, outside what the seeded streams judged so far.
    fn collision_oracles(&mut self, _progs: &[Vec<Op>], o: &RunOut, base: &serde_json::Value, coll: &[(Key, Key)], hist: &[HRec]) {
        self.rep.hit("collision:case_with_two_cache_keys_of_one_hash");
        let (ok, budget) = ring_linearizable(hist, coll);
        if budget {
            self.budget_hits += 1;
        }
        if ok {
            self.rep.hit("oracle:history_is_a_sequential_execution_of_the_ring");
        } else {
            self.violation(
                "tensor_store.cache_ring/history_not_a_sequential_execution_of_the_ring",
                "two cache keys of the programs share a hash; no order of the completed operations that respects real time is a sequential execution of the cache ring itself (index from hash to slot, slots holding key and value, a get answers for its own key only)",
                with(base, json!({"keys_with_one_hash": coll.iter().map(|(a, b)| format!("{} = {}", a.real(), b.real())).collect::<Vec<_>>(), "real_history": o.hist_s, "real_trace": o.trace, "image": o.image})),
            );
        }
        // the departure from the map (the unchanged code shows it in every such case that puts both keys)
        let map_ok = linearizable(hist).0;
        let ghosts: Vec<String> = o.mem_view.iter().filter(|(_, v)| v.ends_with("nf/F/T")).map(|(k, _)| k.real()).collect();
        if map_ok && ghosts.is_empty() {
            self.rep.hit("collision:history_also_legal_for_the_key_value_map");
            return;
        }
        self.rep.hit("observed:colliding_cache_keys_ring_departs_from_key_value_map");
        if !ghosts.is_empty() {
            self.rep.hit("observed:displaced_cache_key_still_listed_by_scan");
        }
        self.coll_observed += 1;
        if self.coll_observed <= 2 {
            self.rep.observe(json!({
                "what": "CacheRing indexes its slots by the 64-bit FxHash of the key alone: a put of a key whose hash equals that of a live key takes the index entry over and leaves the other entry in its slot - get says NotFound, exists false and delete NotFound for it although no delete ran, the scan (which walks the slots) keeps listing it, and the slot is never freed. Keys with equal FxHash are easy to construct (multiply_mix is symmetric). Candidate finding about the code as it is; the model has it (RingProps.ring_is_not_a_map_on_colliding_keys_witness); proposed/C11-cache-ring-collision-orphan.diff makes the second put REPLACE the colliding entry",
                "input": base["line"], "keys_with_one_hash": coll.iter().map(|(a, b)| format!("{} = {}", a.real(), b.real())).collect::<Vec<_>>(),
                "keys_listed_by_scan_that_get_and_exists_deny": ghosts, "legal_for_the_key_value_map": map_ok,
                "real_history": o.hist_s, "image_get/exists/inscan": o.image,
            }));
        }
    }

    // (b) crash after quiescence: the store recovered from the log file alone shows every key
    //     (get / exists / membership in scan) as the live store did.  Evaluated after EVERY run with
    //     a log, whatever the model said, on every key whose writes were all durable (a key of the
    //     plain / graph / table class is independent of the others; `emb:` keys, whose entity ids
    //     depend on the other `emb:` keys of the session, only when every write of the run was durable).
    fn durable_oracle(&mut self, progs: &[Vec<Op>], wal: bool, o: &RunOut, base: &serde_json::Value, incoherent: &[Key]) {
        if !wal {
            return;
        }
        let nondurably_written: BTreeSet<Key> = progs
            .iter()
            .flatten()
            .filter_map(|op| match op {
                Op::Put(k, _) | Op::Del(k) if k.cls() != Cls::C => Some(*k),
                _ => None,
            })
            .collect();
        let all_durable = nondurably_written.is_empty();
        let checked: Vec<Key> = o
            .mem_view
            .keys()
            .filter(|k| k.cls() != Cls::C && !incoherent.contains(k) && (all_durable || (k.cls() != Cls::E && !nondurably_written.contains(k))))
            .copied()
            .collect();
        if checked.is_empty() {
            self.rep.hit("oracle:no_key_with_durable_writes_only");
            return;
        }
        self.rep.hit_n("oracle:keys_compared_live_vs_recovered", checked.len() as u64);
        let diff: Vec<Key> = checked.iter().filter(|k| o.rec_view.get(k) != o.mem_view.get(k)).copied().collect();
        if diff.is_empty() {
            self.rep.hit("oracle:recovered_equals_memory");
            return;
        }
        // order in which the writes of the key were logged vs applied (from the real step order)
        let k = diff[0];
        let logged: Vec<usize> = o.steps.iter().filter(|s| (s.1 == "store.put_durable" || s.1 == "store.delete_durable") && s.2 == k.show()).map(|s| s.0).collect();
        let applied: Vec<usize> = o.steps.iter().filter(|s| (s.1 == "router.put_durable.after_log" || s.1 == "router.delete_durable.after_log") && s.2 == k.show()).map(|s| s.0).collect();
        // the durable writes of the key that returned Ok, in order of return, and the key's log records
        let completed: Vec<String> = o
            .hist
            .iter()
            .filter(|r| r.op.key() == Some(k) && matches!(r.op, Op::PutD(..) | Op::DelD(..)))
            .map(|r| format!("t{}:{}->{}", r.t, r.op.show(), r.res.show()))
            .collect();
        let records: Vec<String> = o
            .wal
            .as_deref()
            .unwrap_or("")
            .split(',')
            .filter(|e| e.split(':').nth(1) == Some(k.show().as_str()))
            .map(|e| e.to_string())
            .collect();
        let input = with(
            base,
            json!({"programs": show_progs(progs), "key": k.show(), "live get/exists/inscan": o.mem_view.get(&k), "recovered get/exists/inscan": o.rec_view.get(&k),
                   "log_order_threads": logged, "apply_order_threads": applied, "durable_writes_of_key_in_order_of_return": completed,
                   "log_records_of_key": records, "wal": o.wal, "real_trace": o.trace, "real_history": o.hist_s}),
        );
        if logged != applied {
            self.violation(
                "tensor_store.put_durable/durable_order_differs_from_memory_order",
                "concurrent durable writes of one key were logged in one order and applied in memory in another: after a crash at quiescence the store recovers a value readers had already seen overwritten",
                input,
            );
        } else if k.cls() == Cls::E && emb_ops_overlap(&o.hist.iter().filter(|r| r.op.key() == Some(k) && !matches!(r.op, Op::Get(_) | Op::Ex(_))).cloned().collect::<Vec<_>>()) {
            // (cannot happen while the log mutex covers the whole durable write: kept narrow on purpose)
            self.violation(
                "tensor_store/emb_history_not_linearizable",
                "writers of one emb: key interleaved their index / vector / metadata sub-steps: the quiescent in-memory value is not the last logged one (recovered state differs)",
                input,
            );
        } else {
            self.violation(
                "tensor_store.recover/recovered_state_differs_from_memory",
                "all durable writes have returned, yet the store recovered from the log file alone answers get / exists / scan about the key differently from the live store (log order = apply order: a write that took effect in memory has no log record, or the reverse): a crash now resurrects or loses the value readers last saw",
                input,
            );
        }
    }
}

// ------------------------------------------------------------------ first puts of one emb: key by FREE-RUNNING threads

/// What the deterministic scheduler cannot reach while there is no yield point inside
/// `EntityIndex::try_get_or_create` (`index_hook_present` = false): several threads issue the FIRST put
/// of one `emb:` key (never put before / put again after a delete) at the same moment, free-running,
/// lined up on a spin barrier; when all have returned, ONE thread deletes the key and looks for it.
/// The check after the join is sequential, so every interleaving of the writers must give the same
/// answers (Lean: `IndexProps.deleted_key_is_gone`, any interleaving at the granularity of the
/// index's own locks).
#[derive(Clone, Copy, PartialEq, Eq, Debug)]
enum StressMode {
    /// a key nobody has put before (a new key per round)
    Fresh,
    /// one key, put again by all writers after the delete of the previous round
    Recreate,
    /// as `Fresh` on a store with a log: writer 0 uses `put_durable` (its log step and its apply
    /// step both call `get_or_create`), the others `put`; the checker deletes durably
    DurableStore,
}
impl StressMode {
    fn name(self) -> &'static str {
        match self {
            StressMode::Fresh => "fresh_key",
            StressMode::Recreate => "key_deleted_before",
            StressMode::DurableStore => "fresh_key_durable_store",
        }
    }
    fn of(s: &str) -> Option<StressMode> {
        [StressMode::Fresh, StressMode::Recreate, StressMode::DurableStore].into_iter().find(|m| m.name() == s)
    }
}

struct StressRound {
    key: Key,
    /// the writers' programs (one put each) and the checker's program
    progs: Vec<Vec<Op>>,
    put_results: Vec<Res>,
    /// live entity ids of the key after the writers were joined, before the delete
    live_after_puts: usize,
    checker: Vec<Res>,
    /// how many writers of the round went past the fast path of `try_get_or_create` (counted by the
    /// yield point inside it; always 0 on a tree without that hook): 2 or more = the window was open,
    /// only the double-check under the write locks stood between the round and a second live id
    fast_path_misses: usize,
}

fn stress_programs(mode: StressMode, threads: usize, key: Key) -> Vec<Vec<Op>> {
    let mut progs: Vec<Vec<Op>> = (0..threads)
        .map(|t| {
            let v = Val { tag: t as u32 + 1, vec: VecF::Good(t as u32 + 1) };
            vec![if mode == StressMode::DurableStore && t == 0 { Op::PutD(key, v) } else { Op::Put(key, v) }]
        })
        .collect();
    let del = if mode == StressMode::DurableStore { Op::DelD(key) } else { Op::Del(key) };
    progs.push(vec![Op::Ex(key), del, Op::Ex(key), Op::Get(key), Op::Scan(Key::of("emb:")), del]);
    progs
}

/// `rounds` rounds of `threads` writers; `stop_at_first`: return as soon as `fails` holds of a round
fn stress_first_puts(mode: StressMode, threads: usize, rounds: usize, first_id: u32, stop_at_first: bool, fails: &dyn Fn(&StressRound) -> bool) -> Vec<StressRound> {
    use std::sync::atomic::{AtomicBool, AtomicUsize, Ordering};
    use std::sync::Barrier;
    let dir = tempfile::tempdir().expect("tempdir");
    let store = match mode {
        StressMode::DurableStore => TensorStore::open_durable(dir.path().join("stress.wal"), WalConfig { sync_mode: SyncMode::Manual, ..WalConfig::default() }).expect("open_durable"),
        _ => TensorStore::new(),
    };
    let key_of = |round: usize| Key::new(Cls::E, if mode == StressMode::Recreate { first_id } else { first_id + round as u32 });
    let keys: Vec<Key> = (0..rounds).map(key_of).collect();
    let start = Arc::new(Barrier::new(threads + 1));
    let done = Arc::new(Barrier::new(threads + 1));
    let lined_up = Arc::new(AtomicUsize::new(0));
    let stop = Arc::new(AtomicBool::new(false));
    let put_results: Arc<Mutex<Vec<Res>>> = Arc::new(Mutex::new(vec![Res::Nf; threads]));
    let misses = Arc::new(AtomicUsize::new(0));
    let mut workers = Vec::new();
    for t in 0..threads {
        let (store, start, done, lined_up, stop, keys, put_results, misses) = (store.clone(), start.clone(), done.clone(), lined_up.clone(), stop.clone(), keys.clone(), put_results.clone(), misses.clone());
        workers.push(std::thread::spawn(move || {
            // free-running: the hook only counts
            tensor_store::verif::set_yield_hook(Some(Box::new(move |site, _| {
                if site == SITE_INDEX_MISS {
                    misses.fetch_add(1, Ordering::SeqCst);
                }
            })));
            for (round, key) in keys.iter().enumerate() {
                let op = stress_programs(mode, threads, *key)[t][0];
                start.wait();
                if stop.load(Ordering::SeqCst) {
                    return;
                }
                // tight line-up: the puts start together
                lined_up.fetch_add(1, Ordering::SeqCst);
                let mut spins = 0u32;
                while lined_up.load(Ordering::SeqCst) < threads * (round + 1) {
                    std::hint::spin_loop();
                    spins += 1;
                    if spins % 4096 == 0 {
                        std::thread::yield_now();
                    }
                }
                let res = exec(&store, &op);
                put_results.lock().unwrap()[t] = res;
                done.wait();
            }
            start.wait(); // the release after the last round
        }));
    }
    let mut out = Vec::new();
    for round in 0..rounds {
        let key = keys[round];
        start.wait();
        done.wait();
        // every put of this round has returned: from here on one thread, sequentially
        let progs = stress_programs(mode, threads, key);
        let live_after_puts = live_ids_of(&store, &key.real());
        let fast_path_misses = misses.swap(0, Ordering::SeqCst);
        let checker: Vec<Res> = progs[threads].iter().map(|op| exec(&store, op)).collect();
        let r = StressRound { key, progs, put_results: put_results.lock().unwrap().clone(), live_after_puts, checker, fast_path_misses };
        let hit = fails(&r);
        out.push(r);
        if hit && stop_at_first {
            break;
        }
    }
    stop.store(true, std::sync::atomic::Ordering::SeqCst);
    start.wait();
    for w in workers {
        let _ = w.join();
    }
    out
}

/// the round as a history: the puts all overlap (steps 0-1), the checker's operations follow one by one
fn stress_history(r: &StressRound) -> Vec<HRec> {
    let n = r.progs.len() - 1;
    let mut h: Vec<HRec> = (0..n).map(|t| HRec { t, i: 0, op: r.progs[t][0], res: r.put_results[t].clone(), inv: 0, ret: 1, call: 0 }).collect();
    for (i, (op, res)) in r.progs[n].iter().zip(r.checker.iter()).enumerate() {
        h.push(HRec { t: n, i, op: *op, res: res.clone(), inv: 2 + 2 * i, ret: 3 + 2 * i, call: 2 + 2 * i });
    }
    h
}

fn stress_fails(r: &StressRound) -> bool {
    r.live_after_puts > 1 || deleted_key_still_visible(&stress_history(r)).is_some()
}

/// the model's answer to the same programs (at the granularity of the index's locks, under ONE
/// interleaving - all lookups first, then the write sections, then the rest; the checker's
/// answers are the same under every interleaving): the checker's results
fn stress_model(model: &mut Model, mode: StressMode, threads: usize, key: Key) -> (String, String) {
    let mut progs = stress_programs(mode, threads, key);
    let mut sched: Vec<usize> = Vec::new();
    if mode == StressMode::Recreate {
        // the key was put and deleted before (the previous round)
        progs.push(vec![Op::Put(key, Val { tag: 99, vec: VecF::Good(99) }), Op::Del(key)]);
        sched.extend(std::iter::repeat(threads + 1).take(8));
    }
    for _ in 0..6 {
        sched.extend(0..threads);
    }
    sched.extend(std::iter::repeat(threads).take(16));
    let line = format!("runi {} {} {}", if mode == StressMode::DurableStore { 1 } else { 0 }, show_progs(&progs), show_sched(&sched));
    let ans = model.ask(&line);
    let hist = ans.split(" | ").find_map(|p| p.strip_prefix("hist ")).unwrap_or("?");
    let mut rs: Vec<(usize, String)> = hist
        .split(',')
        .filter_map(|e| {
            let f: Vec<&str> = e.splitn(3, ':').collect();
            let (t, i) = f.first()?.split_once('.')?;
            if t.parse::<usize>().ok()? == threads { Some((i.parse().ok()?, f.get(2)?.to_string())) } else { None }
        })
        .collect();
    rs.sort();
    (line, rs.into_iter().map(|x| x.1).collect::<Vec<_>>().join(","))
}

impl Ctx<'_> {
    /// one configuration of the stress stream: `rounds` rounds, every round judged by the oracle on
    /// the real outputs and compared with the model's checker results; the first failing round is
    /// re-run with fewer writers (the fewest that still fail within the same number of rounds)
    fn stress(&mut self, mode: StressMode, threads: usize, rounds: usize, first_id: u32) {
        let stream = format!("stress.first_puts.{}", mode.name());
        let rs = stress_first_puts(mode, threads, rounds, first_id, false, &stress_fails);
        let mut expected: Option<(String, String)> = None;
        let mut reported = false;
        for (round, r) in rs.iter().enumerate() {
            let (line, want) = match &expected {
                Some(e) if mode == StressMode::Recreate => e.clone(),
                _ => stress_model(self.model, mode, threads, r.key),
            };
            if mode == StressMode::Recreate {
                expected = Some((line.clone(), want.clone()));
            }
            let got = r.checker.iter().map(|x| x.show()).collect::<Vec<_>>().join(",");
            self.rep.case(&stream, if round == 0 { Some(&line) } else { None });
            self.rep.hit(&format!("stress:writers:{threads}"));
            self.rep.hit(&format!("stress:{}", mode.name()));
            if r.fast_path_misses >= 2 {
                self.rep.hit("stress:round_in_which_two_writers_missed_the_fast_path");
            }
            let input = |threads: usize, r: &StressRound, line: &str| {
                json!({"line": line, "stress": {"mode": mode.name(), "writers": threads, "rounds": rounds},
                       "what_runs": format!("{threads} free-running threads, lined up on a spin barrier, each put {} once (never put before / deleted in the round before); after they have returned one thread runs: {}", r.key.real(), show_progs(&r.progs[threads..])),
                       "key": r.key.real(), "round": round,
                       "puts": show_progs(&r.progs[..threads]), "put_results": r.put_results.iter().map(|x| x.show()).collect::<Vec<_>>().join(","),
                       "live_entity_ids_of_the_key_after_the_puts": r.live_after_puts,
                       "writers_past_the_fast_path_of_get_or_create": r.fast_path_misses,
                       "checker_results": r.checker.iter().zip(r.progs[threads].iter()).map(|(x, op)| format!("{} -> {}", op.show(), x.show())).collect::<Vec<_>>()})
            };
            self.rep.compare(&format!("{stream}.checker_results"), || input(threads, r, &line), &got, &want);
            if r.put_results.iter().any(|x| *x != Res::Ok) || r.checker.first() != Some(&Res::Bool(true)) || r.checker.get(1) != Some(&Res::Ok) {
                self.violation(
                    "tensor_store.slab_router.emb/key_absent_after_completed_puts",
                    "every concurrent put of the key has returned Ok, yet exists says false or delete says NotFound",
                    input(threads, r, &line),
                );
            }
            if !stress_fails(r) {
                self.rep.hit("oracle:one_live_id_per_key_and_deleted_key_gone");
                continue;
            }
            self.rep.hit("stress:round_with_two_live_ids_or_deleted_key_visible");
            let mut inp = input(threads, r, &line);
            if !reported {
                reported = true;
                // shrink: the fewest writers with which a round still fails
                for n in 2..threads {
                    let rs2 = stress_first_puts(mode, n, rounds, first_id + 5000, true, &stress_fails);
                    if let Some(r2) = rs2.last().filter(|r2| stress_fails(r2)) {
                        let (l2, _) = stress_model(self.model, mode, n, r2.key);
                        inp = input(n, r2, &l2);
                        inp["round"] = json!(rs2.len() - 1);
                        inp["shrunk_from_writers"] = json!(threads);
                        break;
                    }
                }
            }
            self.violation(CLASS_TWO_LIVE_IDS, WHAT_TWO_LIVE_IDS, inp);
        }
    }
}

// ------------------------------------------------------------------ `CacheRing::get` racing the re-use of its slot, FREE-RUNNING

/// What the deterministic scheduler cannot reach while there is no yield point inside `CacheRing::get`:
/// readers of `_cache:` key `a` run against a writer that keeps emptying `a`'s slot and filling it
/// with key `b` (put a, delete a, put b, delete b: `find_slot_for_insert` returns the first empty
/// slot, so `b` lands where `a` was).  A reader that has read `a`'s slot number from the index and
/// then waits for the slots lock finds `b`'s entry there; the comparison of the keys is the only
/// thing between it and `b`'s value.  Values of `a` have odd tags, values of `b` even ones.
/// Returns (gets that found a value, gets that reported absent, the first get of `a` that returned a value of `b`).
fn stress_cache_get(loops: u32, readers: usize) -> (u64, u64, Option<(u32, Val)>) {
    use std::sync::atomic::{AtomicBool, AtomicU64, Ordering};
    let store = TensorStore::new();
    let (a, b) = (Key::of("_cache:stress:a"), Key::of("_cache:stress:b"));
    let stop = Arc::new(AtomicBool::new(false));
    let (found, absent) = (Arc::new(AtomicU64::new(0)), Arc::new(AtomicU64::new(0)));
    let wrong: Arc<Mutex<Option<(u32, Val)>>> = Arc::new(Mutex::new(None));
    let progress = Arc::new(AtomicU64::new(0));
    let mut hs = Vec::new();
    for _ in 0..readers {
        let (store, stop, found, absent, wrong, progress) = (store.clone(), stop.clone(), found.clone(), absent.clone(), wrong.clone(), progress.clone());
        hs.push(std::thread::spawn(move || {
            tensor_store::verif::set_yield_hook(None);
            while !stop.load(Ordering::Relaxed) {
                match exec(&store, &Op::Get(a)) {
                    Res::Found(v) => {
                        found.fetch_add(1, Ordering::Relaxed);
                        if v.tag % 2 == 0 {
                            let mut w = wrong.lock().unwrap();
                            if w.is_none() {
                                *w = Some((progress.load(Ordering::Relaxed) as u32, v));
                            }
                        }
                    }
                    _ => {
                        absent.fetch_add(1, Ordering::Relaxed);
                    }
                }
            }
        }));
    }
    for i in 0..loops {
        progress.store(u64::from(i), Ordering::Relaxed);
        let (va, vb) = (Val { tag: 2 * i + 1, vec: VecF::N }, Val { tag: 2 * i + 2, vec: VecF::N });
        exec(&store, &Op::Put(a, va));
        exec(&store, &Op::Del(a));
        exec(&store, &Op::Put(b, vb));
        exec(&store, &Op::Del(b));
        if i % 64 == 0 && wrong.lock().unwrap().is_some() {
            break;
        }
    }
    stop.store(true, Ordering::SeqCst);
    for h in hs {
        let _ = h.join();
    }
    let w = *wrong.lock().unwrap();
    (found.load(Ordering::Relaxed), absent.load(Ordering::Relaxed), w)
}

impl Ctx<'_> {
    fn stress_ring(&mut self, loops: u32, readers: usize) {
        let (found, absent, wrong) = stress_cache_get(loops, readers);
        self.rep.case("stress.cache_get_vs_slot_reuse", None);
        self.rep.hit_n("stress:cache_gets_that_found_a_value", found);
        self.rep.hit_n("stress:cache_gets_that_reported_absent", absent);
        match wrong {
            None => self.rep.hit("oracle:every_get_returned_a_value_written_to_its_own_key"),
            Some((at, v)) => self.violation(
                CLASS_VALUE_OF_ANOTHER_KEY,
                WHAT_VALUE_OF_ANOTHER_KEY,
                json!({"line": "", "stress_cache_get": {"loops": loops, "readers": readers},
                       "what_runs": format!("{readers} free-running threads loop get(\"_cache:stress:a\"); one thread loops put a (odd tag), delete a, put \"_cache:stress:b\" (even tag), delete b - b re-uses the slot a has just left"),
                       "get": format!("get(\"_cache:stress:a\") -> v{} during loop {at} of the writer", v.show()),
                       "value_was_only_ever_put_under": "_cache:stress:b"}),
            ),
        }
    }
}


// ------------------------------------------------------------------ sequential histories with TensorStore::clear
//
// `TensorStore::clear` (→ `SlabRouter::clear` → every slab's `clear`, the entity index included) is a
// quiescent whole-store operation: no yield hook inside, nobody clears a store that is in use.  What
// it must leave behind is a store that behaves like a NEW one - in particular an embedding slab whose
// allocator (free list first, bump pointer otherwise) never hands one slot to two live ids afterwards.
// Lean: Slab.lean (`ESlab`: index id ↦ slot, free list, bump pointer, dense cells; `sRun`),
// SlabProps (`store_no_two_live_keys_share_a_slot`, `slab_get_is_the_map_of_the_concurrent_model`,
// `clearKeepsFreeList_two_keys_share_a_slot_witness`).  Model command: `seq 0 <ops>`.
#[derive(Clone, Copy, PartialEq, Eq, Debug)]
enum SOp {
    Do(Op),
    Clear,
}
impl SOp {
    fn show(&self) -> String {
        match self {
            SOp::Do(op) => op.show(),
            SOp::Clear => "CLR".into(),
        }
    }
}
fn show_sops(ops: &[SOp]) -> String {
    ops.iter().map(|o| o.show()).collect::<Vec<_>>().join(";")
}
fn parse_sops(s: &str) -> Option<Vec<SOp>> {
    s.split(';')
        .map(|t| if t == "CLR" { Some(SOp::Clear) } else { parse_op(t).filter(|o| matches!(o, Op::Put(..) | Op::Get(_) | Op::Del(_) | Op::Ex(_))).map(SOp::Do) })
        .collect()
}
/// the history on a fresh real store, one call after the other
fn run_seq(ops: &[SOp]) -> Vec<Res> {
    let store = TensorStore::new();
    ops.iter()
        .map(|o| match o {
            SOp::Do(op) => exec(&store, op),
            SOp::Clear => {
                store.clear();
                Res::Ok
            }
        })
        .collect()
}
/// THE SEQUENTIAL SPECIFICATION (a map key ↦ value; clear empties it), judged on the real outputs:
/// the first operation whose result is not the specified one → (index, expected, class, what)
fn seq_first_wrong(ops: &[SOp], res: &[Res]) -> Option<(usize, Res, &'static str, &'static str)> {
    let mut m: BTreeMap<Key, Val> = BTreeMap::new();
    for (i, (o, r)) in ops.iter().zip(res).enumerate() {
        let want = match o {
            SOp::Clear => {
                m.clear();
                Res::Ok
            }
            SOp::Do(Op::Put(k, v)) => {
                m.insert(*k, *v);
                Res::Ok
            }
            SOp::Do(Op::Get(k)) => m.get(k).map_or(Res::Nf, |v| Res::Found(*v)),
            SOp::Do(Op::Ex(k)) => Res::Bool(m.contains_key(k)),
            SOp::Do(Op::Del(k)) => if m.remove(k).is_some() { Res::Ok } else { Res::Nf },
            SOp::Do(_) => continue,
        };
        if *r != want {
            let (class, what) = match (o, r) {
                (SOp::Do(Op::Get(k)), Res::Found(got)) => {
                    // where does the value come from: was it (or its vector) ever put under THIS key?
                    let own = ops[..i].iter().any(|p| matches!(p, SOp::Do(Op::Put(k2, v2)) if k2 == k && (v2 == got || (v2.vec == got.vec && got.vec != VecF::N))));
                    let foreign = ops[..i].iter().any(|p| matches!(p, SOp::Do(Op::Put(k2, v2)) if k2 != k && (v2 == got || (v2.vec == got.vec && got.vec != VecF::N))));
                    if !own && foreign {
                        ("tensor_store.sequential.get/value_of_another_key", "in a sequential history (put / delete / clear / get, one call after the other on one store) a get returned a value - or the vector of a value - that was never put under the key it read: it was only ever put under ANOTHER key")
                    } else if own {
                        ("tensor_store.sequential.get/stale_value", "in a sequential history a get returned a value of its key that is not the last one put (it was overwritten, deleted or cleared since)")
                    } else {
                        ("tensor_store.sequential.get/value_never_written", "in a sequential history a get returned a value that no put of the history wrote under any key")
                    }
                }
                (SOp::Do(Op::Get(_)), _) => ("tensor_store.sequential.get/present_key_not_found", "in a sequential history a get did not find a key whose last operation was a put"),
                (SOp::Do(Op::Ex(_)), _) => ("tensor_store.sequential.exists/differs_from_the_map", "in a sequential history exists answered differently from the map key ↦ last value put (deleted / cleared = absent)"),
                (SOp::Do(Op::Del(_)), _) => ("tensor_store.sequential.delete/differs_from_the_map", "in a sequential history delete answered differently from the map key ↦ last value put (Ok exactly for a present key)"),
                _ => ("tensor_store.sequential.write/failed", "in a sequential history a put or clear did not return Ok"),
            };
            return Some((i, want, class, what));
        }
    }
    None
}

impl Ctx<'_> {
    /// one sequential history: correspondence with the model (`seq 0`), the map oracle on the real
    /// outputs, shrinking of a failing history
    fn seq_case(&mut self, stream: &str, ops: &[SOp]) {
        let line = format!("seq 0 {}", show_sops(ops));
        let res = run_seq(ops);
        let found_after_clear = ops.iter().position(|o| *o == SOp::Clear).map_or(false, |c| res[c..].iter().any(|r| matches!(r, Res::Found(_))));
        self.rep.case(stream, if found_after_clear { Some(&line) } else { None });
        for o in ops {
            self.rep.hit(&format!("seq_op:{}", match o { SOp::Clear => "clear", SOp::Do(op) => op.kind() }));
        }
        // shape of the history: a slot freed (delete / overwrite without a vector) before a clear, and
        // at least two slab puts after that clear
        let mut freed = false;
        let mut live: BTreeSet<Key> = BTreeSet::new();
        let mut armed = false;
        let mut puts_after = 0;
        for o in ops {
            match o {
                SOp::Do(Op::Put(k, v)) if k.cls() == Cls::E => {
                    if matches!(v.vec, VecF::Good(_)) {
                        if armed && live.insert(*k) { puts_after += 1; } else { live.insert(*k); }
                    } else if live.remove(k) {
                        freed = true;
                    }
                }
                SOp::Do(Op::Del(k)) => if live.remove(k) { freed = true; },
                SOp::Clear => {
                    if freed { armed = true; puts_after = 0; }
                    live.clear();
                }
                _ => {}
            }
        }
        if armed { self.rep.hit("seq_shape:slot_freed_then_clear"); }
        if armed && puts_after >= 2 { self.rep.hit("seq_shape:slot_freed_then_clear_then_two_or_more_new_slab_puts"); }
        let imp = res.iter().map(|r| r.show()).collect::<Vec<_>>().join(",");
        let ans = self.model.ask(&line);
        let model_res = ans.strip_prefix("res ").and_then(|a| a.split(" | ").next()).unwrap_or(&ans).to_string();
        self.rep.compare(stream, || json!({"line": line, "model_answer": ans}), &imp, &model_res);
        match seq_first_wrong(ops, &res) {
            None => self.rep.hit("oracle:sequential_history_is_the_map_of_last_values_put"),
            Some((_, _, class, what)) => {
                let mut fails = |c: &[SOp]| seq_first_wrong(c, &run_seq(c)).map_or(false, |(_, _, cl, _)| cl == class);
                let small = shrink_list(ops, &mut fails);
                let r2 = run_seq(&small);
                let (at, want, _, _) = seq_first_wrong(&small, &r2).expect("shrunk history fails");
                self.violation(class, what, json!({
                    "line": format!("seq 0 {}", show_sops(&small)),
                    "history": small.iter().zip(&r2).map(|(o, r)| format!("{} -> {}", o.show(), r.show())).collect::<Vec<_>>(),
                    "first_wrong_result": {"index": at, "op": small[at].show(), "got": r2[at].show(), "expected": want.show()},
                    "original": show_sops(ops),
                }));
            }
        }
    }

    fn seq_clear_directed(&mut self) {
        let e = |i: u32| Key::new(Cls::E, i);
        let g = |t: u32| Val { tag: t, vec: VecF::Good(t) };
        let n = |t: u32| Val { tag: t, vec: VecF::N };
        let b = |t: u32| Val { tag: t, vec: VecF::Bad(t) };
        let p = |k: Key, v: Val| SOp::Do(Op::Put(k, v));
        let get = |k: Key| SOp::Do(Op::Get(k));
        let d = |k: Key| SOp::Do(Op::Del(k));
        let x = |k: Key| SOp::Do(Op::Ex(k));
        let c = SOp::Clear;
        // the witness history of the Lean model first (`clearKeepsFreeList_two_keys_share_a_slot_witness`)
        let w = self.model.ask("witness clear_keeps_free_list");
        match parse_sops(&w) {
            Some(ops) => self.seq_case("seq.clear.witness", &ops),
            None => self.rep.disagree("seq.clear.witness", json!({"line": "witness clear_keeps_free_list"}), "a history", &w),
        }
        let cases: Vec<Vec<SOp>> = vec![
            // the shortest history and its neighbours
            vec![p(e(1), g(1)), d(e(1)), c, p(e(2), g(2)), p(e(3), g(3)), get(e(2)), get(e(3)), get(e(1)), x(e(1))],
            vec![p(e(1), g(1)), c, p(e(2), g(2)), p(e(3), g(3)), get(e(2)), get(e(3)), get(e(1))],
            vec![p(e(1), g(1)), d(e(1)), p(e(2), g(2)), p(e(3), g(3)), get(e(2)), get(e(3)), get(e(1))],
            vec![p(e(1), g(1)), d(e(1)), c, p(e(2), g(2)), get(e(2)), p(e(3), g(3)), get(e(2)), p(e(3), g(4)), get(e(2)), get(e(3))],
            // the slot is freed by an overwrite without / with a wrong-dimension vector
            vec![p(e(1), g(1)), p(e(1), n(2)), c, p(e(2), g(3)), p(e(3), g(4)), get(e(2)), get(e(3)), get(e(1))],
            vec![p(e(1), g(1)), p(e(1), b(2)), c, p(e(2), g(3)), p(e(3), g(4)), get(e(2)), get(e(3))],
            // the stale free slot is at offset 1: it takes three puts after the clear
            vec![p(e(1), g(1)), p(e(2), g(2)), d(e(2)), c, p(e(3), g(3)), p(e(4), g(4)), p(e(5), g(5)), get(e(3)), get(e(4)), get(e(5))],
            // two freed slots, the same keys again after the clear
            vec![p(e(1), g(1)), p(e(2), g(2)), d(e(1)), d(e(2)), c, p(e(1), g(3)), p(e(2), g(4)), p(e(3), g(5)), get(e(1)), get(e(2)), get(e(3))],
            // clear twice, clear of an empty store, delete of a cleared key
            vec![c, p(e(1), g(1)), d(e(1)), c, c, d(e(1)), x(e(1)), p(e(1), g(2)), p(e(2), g(3)), get(e(1)), get(e(2))],
            // every class through a clear
            vec![p(Key::new(Cls::P, 1), g(1)), p(Key::new(Cls::G, 1), n(2)), p(Key::new(Cls::T, 1), n(3)), p(Key::new(Cls::C, 1), n(4)), p(e(1), g(5)), c,
                 get(Key::new(Cls::P, 1)), get(Key::new(Cls::G, 1)), get(Key::new(Cls::T, 1)), get(Key::new(Cls::C, 1)), get(e(1)), x(e(1)), d(e(1)), p(e(1), g(6)), get(e(1))],
        ];
        for ops in &cases {
            self.seq_case("seq.clear.directed", ops);
        }
    }

    /// random histories shaped around a clear: writes and deletes of a few `emb:` keys (all values
    /// distinct), a clear, at least two new slab puts, reads of every key
    fn seq_clear_random(&mut self, rng: &mut Rng, cases: u64) {
        for _ in 0..cases {
            let nkeys = 2 + rng.below(4) as u32;
            let mut next = 0u32;
            let mut ops: Vec<SOp> = Vec::new();
            let key = |r: &mut Rng| if r.chance(1, 10) { Key::new(*r.pick(&[Cls::P, Cls::C, Cls::G]), 1) } else { Key::new(Cls::E, 1 + r.below(u64::from(nkeys)) as u32) };
            let phases = 1 + rng.below(3);
            for ph in 0..=phases {
                let len = 2 + rng.below(8);
                for _ in 0..len {
                    let k = key(rng);
                    let o = match rng.below(20) {
                        0..=9 => {
                            next += 1;
                            let vec = match rng.below(12) { 0 => VecF::N, 1 => VecF::Bad(next), _ => VecF::Good(next) };
                            Op::Put(k, Val { tag: next, vec })
                        }
                        10..=14 => Op::Del(k),
                        15..=18 => Op::Get(k),
                        _ => Op::Ex(k),
                    };
                    ops.push(SOp::Do(o));
                }
                if ph < phases {
                    ops.push(SOp::Clear);
                    // the puts the shape needs: new vectors under (mostly) other keys
                    for _ in 0..(2 + rng.below(3)) {
                        next += 1;
                        ops.push(SOp::Do(Op::Put(Key::new(Cls::E, 1 + rng.below(u64::from(nkeys) + 2) as u32), Val { tag: next, vec: VecF::Good(next) })));
                    }
                }
            }
            let mut ks: Vec<Key> = ops.iter().filter_map(|o| match o { SOp::Do(op) => op.key(), SOp::Clear => None }).collect();
            ks.sort();
            ks.dedup();
            for k in ks {
                ops.push(SOp::Do(Op::Get(k)));
            }
            self.seq_case("seq.clear.random", &ops);
        }
    }
}

// ------------------------------------------------------------------ main

fn main() {
    let args = parse_args();
    let mut rep = Report::new(
        "non-trivial = at least one successful write and one read/exists/scan that observed a present key; distinct = distinct (programs, schedule) lines",
    );
    let mut model = Model::spawn(&args.driver);
    let root = Rng::new(args.seed);

    if let Some(path) = &args.replay {
        // replay file: {"failing_input": {"line": "run <wal> <progs> <sched>"}}; a real-mutex run has
        // {"mutex": "real", "grants": "<threads in grant order>"} beside it (`line` = order of the steps)
        let v: serde_json::Value = serde_json::from_str(&std::fs::read_to_string(path).unwrap_or_default()).unwrap_or(json!({}));
        let line = v["failing_input"]["line"].as_str().unwrap_or("").to_string();
        let f: Vec<&str> = line.split(' ').collect();
        if let Some(mode) = v["failing_input"]["stress"]["mode"].as_str().and_then(StressMode::of) {
            // a round of the stress stream (free-running threads: the race is not scripted) - the same
            // configuration is run again for the same number of rounds
            let writers = v["failing_input"]["stress"]["writers"].as_u64().unwrap_or(8).clamp(2, 16) as usize;
            let rounds = v["failing_input"]["stress"]["rounds"].as_u64().unwrap_or(300).clamp(1, 100_000) as usize;
            let mut ctx = Ctx { rep: &mut rep, model: &mut model, viol_count: BTreeMap::new(), budget_hits: 0, stalls: 0, exclusive_emb: false, real_mutex: false, variant: 0, scan_observed: 0, crash_at: None, cur_wal: None, twin_differs: None, twin_history_differs: false, twin_always: false, index_steps: false, ring_steps: false, ring: false, coll: Vec::new(), coll_observed: 0 };
            ctx.stress(mode, writers, rounds, 1000);
            println!("stress {} writers={writers} rounds={rounds}: rounds that failed the oracle: {}", mode.name(), ctx.viol_count.get(CLASS_TWO_LIVE_IDS).copied().unwrap_or(0));
        } else if let Some(sc) = v["failing_input"]["stress_cache_get"].as_object() {
            // free-running readers against the re-use of their key's slot: the same configuration again
            let loops = sc.get("loops").and_then(|x| x.as_u64()).unwrap_or(20_000).clamp(1, 10_000_000) as u32;
            let readers = sc.get("readers").and_then(|x| x.as_u64()).unwrap_or(3).clamp(1, 16) as usize;
            let mut ctx = Ctx { rep: &mut rep, model: &mut model, viol_count: BTreeMap::new(), budget_hits: 0, stalls: 0, exclusive_emb: false, real_mutex: false, variant: 0, scan_observed: 0, crash_at: None, cur_wal: None, twin_differs: None, twin_history_differs: false, twin_always: false, index_steps: false, ring_steps: false, ring: false, coll: Vec::new(), coll_observed: 0 };
            ctx.stress_ring(loops, readers);
            println!("stress cache_get loops={loops} readers={readers}: gets that returned a value of another key: {}", ctx.viol_count.get(CLASS_VALUE_OF_ANOTHER_KEY).copied().unwrap_or(0));
        } else if f.len() == 3 && f[0] == "seq" {
            // `seq 0 <ops>`: a sequential history with `TensorStore::clear`
            if let Some(ops) = parse_sops(f[2]) {
                let mut ctx = Ctx { rep: &mut rep, model: &mut model, viol_count: BTreeMap::new(), budget_hits: 0, stalls: 0, exclusive_emb: false, real_mutex: false, variant: 0, scan_observed: 0, crash_at: None, cur_wal: None, twin_differs: None, twin_history_differs: false, twin_always: false, index_steps: false, ring_steps: false, ring: false, coll: Vec::new(), coll_observed: 0 };
                ctx.seq_case("replay", &ops);
                let res = run_seq(&ops);
                println!("real history: {}", ops.iter().zip(&res).map(|(o, r)| format!("{} -> {}", o.show(), r.show())).collect::<Vec<_>>().join("; "));
            }
        } else if f.len() == 5 && (f[0] == "runr" || f[0] == "runrf") {
            // `runr|runrf <wal> <collisions> <programs> <schedule>`: the cache ring as it is
            if let Some(progs) = parse_progs(f[3]) {
                let sched = parse_sched(f[4]);
                let mut ctx = Ctx { rep: &mut rep, model: &mut model, viol_count: BTreeMap::new(), budget_hits: 0, stalls: 0, exclusive_emb: false, real_mutex: false, variant: 0, scan_observed: 0, crash_at: None, cur_wal: None, twin_differs: None, twin_history_differs: false, twin_always: false, index_steps: false, ring_steps: f[0] == "runr", ring: true, coll: parse_coll(f[2]), coll_observed: 0 };
                let mut r = root.fork("replay");
                let wal = if f[1] == "1" { Some(SyncMode::Immediate) } else { None };
                if let Some(o) = ctx.case("replay", &progs, wal, Some(&sched), &mut r, true) {
                    println!("real trace  : {}\nreal history: {}\nreal image  : {}", o.trace, o.hist_s, o.image);
                }
            }
        } else if f.len() == 4 {
            if let Some(progs) = parse_progs(f[2]) {
                let real_mutex = v["failing_input"]["mutex"].as_str() == Some("real");
                let sched = parse_sched(if real_mutex { v["failing_input"]["grants"].as_str().unwrap_or(f[3]) } else { f[3] });
                // the store of the failing run: `runb` = built with a Bloom filter; `store_variant` as in `run_real`
                let variant = (v["failing_input"]["store_variant"].as_u64().unwrap_or(0) as u8 & 3) | u8::from(f[0] == "runb");
                let mut ctx = Ctx { rep: &mut rep, model: &mut model, viol_count: BTreeMap::new(), budget_hits: 0, stalls: 0, exclusive_emb: false, real_mutex, variant, scan_observed: 0, crash_at: None, cur_wal: None, twin_differs: None, twin_history_differs: false, twin_always: true, index_steps: v["failing_input"]["line"].as_str().map_or(false, |l| l.starts_with("runi ")), ring_steps: false, ring: false, coll: Vec::new(), coll_observed: 0 };
                let mut r = root.fork("replay");
                let wal = if f[1] == "1" { Some(SyncMode::Immediate) } else { None };
                if let Some(o) = ctx.case("replay", &progs, wal, Some(&sched), &mut r, true) {
                    println!("real trace  : {}\nreal history: {}\nreal image  : {}\nwal         : {:?}\nrecovered   : {:?}", o.trace, o.hist_s, o.image, o.wal, o.rimage);
                }
            }
        }
        rep.write(&args.out);
        return;
    }

    let scale: u64 = if args.thorough { 12 } else { 1 };
    let mut ctx = Ctx { rep: &mut rep, model: &mut model, viol_count: BTreeMap::new(), budget_hits: 0, stalls: 0, exclusive_emb: false, real_mutex: false, variant: 0, scan_observed: 0, crash_at: None, cur_wal: None, twin_differs: None, twin_history_differs: false, twin_always: false, index_steps: false, ring_steps: false, ring: false, coll: Vec::new(), coll_observed: 0 };

    // ---- BEFORE EVERYTHING ELSE (sequential, cheap): histories with `TensorStore::clear`.  Directed
    //      cases (the witness history of the Lean model and its neighbours), then random histories
    //      shaped around a clear.
    {
        ctx.seq_clear_directed();
        let mut r = root.fork("seq.clear.random");
        ctx.seq_clear_random(&mut r, 250 * scale);
    }

    // ---- FIRST OF ALL: the cache ring as it is.  `CacheRing` finds a key through an index from the
    //      64-bit FxHash OF THE KEY to a slot number, reads the slot in a second lock section, and
    //      compares `entry.key == key`.  That comparison is the only thing between the code and a get
    //      that returns ANOTHER key's value in two situations (Lean: `RingProps.cache_get_returns_only_a_
    //      value_written_to_that_key` for every hash function and every interleaving;
    //      `get_without_key_check_collision_witness`, `get_without_key_check_interleaving_witness`):
    //      (b) two live keys with ONE hash - sequential, the shortest history is put A, put B, get A;
    //      (a) the slot is emptied and re-used by another key between the two lock sections of `get`.
    //      (b) is scripted here with pairs of `_cache:` keys whose FxHash is equal (checked against the
    //      real ring first); (a) is scheduled when the tree has the yield point inside `CacheRing::get`,
    //      and raced by free-running threads always.  Model: `runr` / `runrf` (the ring with the hash
    //      groups of the case); oracles: `value_of_another_key` (every case of every stream),
    //      Wing-Gong against the ring itself.
    {
        let t_ring = std::time::Instant::now();
        let mut pairs: Vec<(Key, Key)> = Vec::new();
        let fx_ok = fx_matches_the_crate();
        ctx.rep.hit(if fx_ok { "collisions:restated_fxhash_equals_the_crates" } else { "collisions:restated_fxhash_differs_from_the_crates" });
        if !fx_ok {
            ctx.rep.note("the FxHash re-stated in corr_kv no longer equals the rustc-hash linked into tensor_store (ChunkHash::from_data): pairs of colliding cache keys are recognised by their behaviour on the real ring alone");
        }
        for (a, b) in COLLIDING {
            if fx_ok && fx::of_str(a) != fx::of_str(b) {
                ctx.rep.disagree("collisions.constants", json!({"keys": [a, b]}), "the hard-coded pair does not have one FxHash", "one hash");
            }
            if pair_collides(fx_ok, a, b) {
                pairs.push((Key::of(a), Key::of(b)));
                ctx.rep.hit("collisions:pair_shares_one_index_entry_of_the_real_ring");
                ctx.rep.hit(if pair_displaces(a, b) { "collisions:second_put_displaces_the_first_key" } else { "collisions:pair_of_one_hash_neither_displaced_nor_map_like" });
            } else {
                ctx.rep.hit("collisions:pair_no_longer_collides_skipped");
            }
        }
        if pair_collides(fx_ok, "_cache:1", "_cache:2") || pair_collides(fx_ok, "_cache:sess:a", "_cache:sess:b") {
            ctx.rep.disagree("collisions.control", json!({"keys": ["_cache:1", "_cache:2", "_cache:sess:a", "_cache:sess:b"]}), "two ordinary cache keys share an index entry of the real ring", "distinct hashes");
        }
        if pairs.len() < COLLIDING.len() {
            ctx.rep.note(&format!("{} of the {} hard-coded pairs of cache keys no longer share an index entry of the real CacheRing (the hash function changed?): the collision streams run with the remaining {} pairs", COLLIDING.len() - pairs.len(), COLLIDING.len(), pairs.len()));
        }
        ctx.coll = pairs.clone();
        ctx.ring = true;
        let (c1, c2, p1) = (Key::new(Cls::C, 1), Key::new(Cls::C, 2), Key::new(Cls::P, 1));
        let n = |t: u32| Val { tag: t, vec: VecF::N };
        let scan_c = Op::Scan(Key::of("_cache:"));
        let hook = {
            let o = run_real(&[vec![Op::Put(c1, n(1)), Op::Get(c1)]], None, 0, None, true, false, false, true, |_, ids, _| ids.first().copied());
            o.steps.iter().any(|s| s.1 == SITE_RING_GET)
        };
        ctx.rep.hit(if hook { "hook:cache_ring.get.after_index:present" } else { "hook:cache_ring.get.after_index:absent" });
        ctx.ring_steps = hook;
        // (b) sequential, directed: the minimal history and its neighbours, per pair
        let mut r = root.fork("directed.ring");
        let npairs = if args.thorough { pairs.len() } else { pairs.len().min(3) };
        for (pi, (a, b)) in pairs.iter().take(npairs).enumerate() {
            let (a, b) = (*a, *b);
            let (c, d) = pairs[(pi + 1) % pairs.len()];
            let t = 100 * (pi as u32 + 1);
            let seqs: Vec<(&str, Vec<Op>, bool)> = vec![
                ("put_put_get", vec![Op::Put(a, n(t + 1)), Op::Put(b, n(t + 2)), Op::Get(a), Op::Get(b)], false),
                ("order_reversed", vec![Op::Put(b, n(t + 1)), Op::Put(a, n(t + 2)), Op::Get(b), Op::Get(a)], false),
                ("exists_scan_delete", vec![Op::Put(a, n(t + 1)), Op::Put(b, n(t + 2)), Op::Get(a), Op::Ex(a), Op::Ex(b), scan_c, Op::Del(a), Op::Get(b), Op::Del(b), scan_c, Op::Get(a), Op::Ex(a)], false),
                ("put_first_again", vec![Op::Put(a, n(t + 1)), Op::Put(b, n(t + 2)), Op::Put(a, n(t + 3)), Op::Get(a), Op::Get(b), scan_c, Op::Del(a), Op::Get(b), Op::Ex(b)], false),
                ("delete_second", vec![Op::Put(a, n(t + 1)), Op::Put(b, n(t + 2)), Op::Del(b), Op::Get(a), Op::Ex(a), scan_c, Op::Put(a, n(t + 3)), Op::Get(a), scan_c, Op::Del(a), scan_c], false),
                ("overwrite_in_place", vec![Op::Put(a, n(t + 1)), Op::Put(a, n(t + 2)), Op::Get(a), Op::Put(b, n(t + 3)), Op::Put(b, n(t + 4)), Op::Get(b), Op::Get(a)], false),
                ("two_pairs", vec![Op::Put(a, n(t + 1)), Op::Put(c, n(t + 2)), Op::Put(b, n(t + 3)), Op::Get(a), Op::Get(c), Op::Put(d, n(t + 4)), Op::Get(c), Op::Get(d), Op::Get(b), scan_c], false),
                ("among_other_keys", vec![Op::Put(c1, n(t + 1)), Op::Put(a, n(t + 2)), Op::Put(p1, n(t + 3)), Op::Put(b, n(t + 4)), Op::Get(c1), Op::Get(a), Op::Get(b), Op::Get(p1), Op::Scan(Key::of(""))], false),
                ("durable_forms", vec![Op::PutD(a, n(t + 1)), Op::PutD(b, n(t + 2)), Op::Get(a), Op::Get(b), Op::DelD(b), Op::Get(a), Op::DelD(a)], true),
            ];
            for (name, prog, durable) in seqs {
                if pairs.len() < 2 && name == "two_pairs" {
                    continue;
                }
                ctx.case(&format!("directed.ring.collision.{name}"), &[prog], if durable { Some(SyncMode::Immediate) } else { None }, None, &mut r, true);
            }
            // the same keys from two / three threads, seeded schedules
            let conc: Vec<(&str, Vec<Vec<Op>>)> = vec![
                ("two_threads", vec![vec![Op::Put(a, n(t + 11)), Op::Get(a), Op::Del(a)], vec![Op::Put(b, n(t + 12)), Op::Get(b), Op::Get(a)]]),
                ("three_threads", vec![vec![Op::Put(a, n(t + 21)), Op::Get(a), Op::Get(a)], vec![Op::Put(b, n(t + 22)), Op::Del(b), Op::Put(b, n(t + 23))], vec![Op::Get(a), Op::Get(b), scan_c]]),
            ];
            for (name, progs) in conc {
                for _ in 0..(3 * scale) {
                    ctx.case(&format!("directed.ring.collision.{name}"), &progs, None, None, &mut r, true);
                }
            }
        }
        // (a) the slot re-used between the two lock sections of `get`: one reader, one thread that
        //     deletes the key and puts another one (no two keys with one hash)
        {
            let race = vec![vec![Op::Put(c1, n(1)), Op::Del(c1), Op::Put(c2, n(2))], vec![Op::Get(c1)]];
            if hook {
                // the interleaving of `get_without_key_check_interleaving_witness`, from the model: on the
                // code as it is the reader compares the keys and reports NotFound
                let w = ctx.model.ask("witness ring_race");
                let f: Vec<&str> = w.split(' ').collect();
                match (f.get(2).and_then(|p| parse_progs(p)), f.len() == 4) {
                    (Some(progs), true) => {
                        let before = ctx.viol_count.get(CLASS_VALUE_OF_ANOTHER_KEY).copied().unwrap_or(0);
                        match ctx.case("witness.ring_race", &progs, None, Some(&parse_sched(f[3])), &mut r, true) {
                            Some(_) => {
                                let after = ctx.viol_count.get(CLASS_VALUE_OF_ANOTHER_KEY).copied().unwrap_or(0);
                                ctx.rep.hit(if after > before { "witness_reproduced_on_real_store:ring_race" } else { "witness_not_reproduced_on_real_store:ring_race" });
                            }
                            None => ctx.rep.disagree("witness.stalled", json!({"witness": "ring_race"}), "scheduler stalled on every attempt", ""),
                        }
                    }
                    _ => ctx.rep.disagree("witness.driver", json!({"witness": "ring_race"}), "", &w),
                }
            }
            // every placement of the reader among the writer's steps (the model says which schedules
            // execute as written: a get that misses the index has one step, a hit has two)
            for total in if hook { vec![4usize, 5] } else { vec![4] } {
                for mask in 0u32..(1 << total) {
                    let sched: Vec<usize> = (0..total).map(|i| ((mask >> i) & 1) as usize).collect();
                    if sched.iter().filter(|t| **t == 0).count() != 3 {
                        continue;
                    }
                    let line = ctx.model_line(&race, false, &sched);
                    let ans = ctx.model.ask(&line);
                    let steps = ans.split(" | ").find_map(|p| p.strip_prefix("trace ")).map_or(0, |t| t.split(',').count());
                    if steps != sched.len() || !ans.ends_with("q=1") {
                        continue;
                    }
                    ctx.case("directed.ring.get_vs_slot_reuse", &race, None, Some(&sched), &mut r, true);
                }
            }
            let neighbours: Vec<(&str, Vec<Vec<Op>>)> = vec![
                ("reuse_and_return", vec![vec![Op::Put(c1, n(11)), Op::Del(c1), Op::Put(c2, n(12)), Op::Del(c2), Op::Put(c1, n(13))], vec![Op::Get(c1), Op::Get(c1)]]),
                ("two_readers", vec![vec![Op::Put(c1, n(21)), Op::Del(c1), Op::Put(c2, n(22))], vec![Op::Get(c1), Op::Get(c2)], vec![Op::Get(c2), Op::Get(c1)]]),
                ("overwrite_under_reader", vec![vec![Op::Put(c1, n(31)), Op::Put(c1, n(32)), Op::Del(c1)], vec![Op::Get(c1), Op::Ex(c1), Op::Get(c1)]]),
            ];
            for (name, progs) in neighbours {
                for _ in 0..(4 * scale) {
                    ctx.case(&format!("directed.ring.{name}"), &progs, None, None, &mut r, true);
                }
            }
        }
        // seeded: a few cache keys among which pairs with one hash; one thread (long programs) and
        // 2-4 scheduled threads; every fifth case on a store with a log (cache keys are never logged)
        let mut alphabet: Vec<Key> = vec![c1, c2];
        for (a, b) in &pairs {
            alphabet.push(*a);
            alphabet.push(*b);
        }
        let mut gen = Gen { next_tag: 1000 };
        let mut r = root.fork("random.cache_collisions");
        for i in 0..(70 * scale) {
            let progs = gen.ring_progs(&mut r, &alphabet[2.min(alphabet.len() - 2)..], 1, 12);
            ctx.case("random.cache_collisions.sequential", &progs, if i % 5 == 4 { Some(SyncMode::Manual) } else { None }, None, &mut r, true);
        }
        for i in 0..(90 * scale) {
            let nthreads = 2 + (i % 3) as usize;
            let progs = gen.ring_progs(&mut r, &alphabet, nthreads, 3);
            ctx.case("random.cache_collisions.scheduled", &progs, if i % 5 == 4 { Some(SyncMode::Manual) } else { None }, None, &mut r, true);
        }
        // the delete / put churn on two ordinary keys under readers (with the hook: `get` in two steps)
        let mut r = root.fork("random.ring_slot_reuse");
        for i in 0..(50 * scale) {
            let nthreads = 2 + (i % 3) as usize;
            let progs = gen.ring_progs(&mut r, &alphabet[..2], nthreads, 4);
            ctx.case("random.ring_slot_reuse", &progs, None, None, &mut r, true);
        }
        ctx.ring = false;
        ctx.ring_steps = false;
        let ms_cases = t_ring.elapsed().as_millis();
        // the race itself, free-running (not scripted)
        ctx.stress_ring(if args.thorough { 120_000 } else { 10_000 }, 3);
        ctx.rep.note(&format!("cache ring streams: scripted / scheduled cases {ms_cases} ms, free-running stress {} ms", t_ring.elapsed().as_millis() - ms_cases));
    }

    // ---- FIRST: the entity index under concurrent FIRST puts of one `emb:` key (a key nobody has put
    //      before, or the first put after a delete).  `EntityIndex::try_get_or_create` looks the key up
    //      under the read locks and, when that missed, takes the write locks and LOOKS AGAIN before it
    //      appends: the double-check is the only thing between two such writers and a key with two
    //      live entity ids (Lean: `IndexProps.get_or_create_never_gives_a_key_two_live_ids`,
    //      `get_or_create_without_recheck_witness`).  The shortest history in which it shows: both
    //      lookups before either write section, every put returns, then delete -> Ok, exists -> true.
    //      (a) scheduled, when the tree has the yield point inside `try_get_or_create`: the witness
    //      interleavings of the model and their neighbours at the granularity of the index's locks;
    //      (b) always: free-running threads lined up on the first put (the race itself, not scripted).
    {
        let hook = {
            let k = Key::new(Cls::E, 1);
            let o = run_real(&[vec![Op::Put(k, Val { tag: 1, vec: VecF::Good(1) })]], None, 0, None, true, false, true, false, |_, ids, _| ids.first().copied());
            o.steps.iter().any(|s| s.1 == SITE_INDEX_MISS)
        };
        ctx.rep.hit(if hook { "hook:index.get_or_create.after_miss:present" } else { "hook:index.get_or_create.after_miss:absent" });
        let g = |t: u32| Val { tag: t, vec: VecF::Good(t) };
        if hook {
            ctx.index_steps = true;
            let mut r = root.fork("directed.index");
            let e1 = Key::new(Cls::E, 1);
            let checker = vec![Op::Ex(e1), Op::Del(e1), Op::Ex(e1), Op::Get(e1), Op::Scan(Key::of("emb:")), Op::Del(e1)];
            for name in ["two_first_puts", "recreate"] {
                let w = ctx.model.ask(&format!("witness {name}"));
                let f: Vec<&str> = w.split(' ').collect();
                match (f.get(1).and_then(|p| parse_progs(p)), f.len() == 3) {
                    (Some(mut progs), true) => {
                        // the witness interleaving, then - every writer has returned - the sequential check
                        let c = progs.len();
                        progs.push(checker.clone());
                        let mut sched = parse_sched(f[2]);
                        sched.extend(std::iter::repeat(c).take(8));
                        let before = ctx.viol_count.get(CLASS_TWO_LIVE_IDS).copied().unwrap_or(0);
                        match ctx.case(&format!("witness.{name}"), &progs, None, Some(&sched), &mut r, true) {
                            Some(_) => {
                                let after = ctx.viol_count.get(CLASS_TWO_LIVE_IDS).copied().unwrap_or(0);
                                ctx.rep.hit(&format!("{}:{name}", if after > before { "witness_reproduced_on_real_store" } else { "witness_not_reproduced_on_real_store" }));
                            }
                            None => ctx.rep.disagree("witness.stalled", json!({"witness": name}), "scheduler stalled on every attempt", ""),
                        }
                    }
                    _ => ctx.rep.disagree("witness.driver", json!({"witness": name}), "", &w),
                }
            }
            // a store with a log: the log step of `put_durable` misses, a plain put misses, the log step
            // appends, the plain put's write section finds the entry; the apply step hits the fast path
            let dchecker = vec![Op::Ex(e1), Op::DelD(e1), Op::Ex(e1), Op::Get(e1), Op::Scan(Key::of("emb:")), Op::DelD(e1)];
            let dprogs = vec![vec![Op::PutD(e1, g(1))], vec![Op::Put(e1, g(2))], dchecker.clone()];
            ctx.case("directed.index.durable_and_plain_first_put", &dprogs, Some(SyncMode::Immediate), Some(&[0, 1, 0, 1, 0, 0, 0, 1, 1, 2, 2, 2, 2, 2, 2, 2, 2, 2, 2]), &mut r, true);
            // neighbours, by seeded schedules at the granularity of the index's locks: three first
            // writers; a writer and a deleter; first writers of two keys; the durable mix
            let e2 = Key::new(Cls::E, 2);
            let neighbours: Vec<(&str, Vec<Vec<Op>>, bool)> = vec![
                ("three_first_puts", vec![vec![Op::Put(e1, g(1))], vec![Op::Put(e1, g(2))], vec![Op::Put(e1, g(3))]], false),
                ("first_puts_and_delete", vec![vec![Op::Put(e1, g(1)), Op::Del(e1)], vec![Op::Put(e1, g(2))], vec![Op::Put(e1, g(3)), Op::Ex(e1)]], false),
                ("first_puts_of_two_keys", vec![vec![Op::Put(e1, g(1)), Op::Put(e2, g(2))], vec![Op::Put(e2, g(3)), Op::Put(e1, g(4))], vec![Op::Scan(Key::of("emb:")), Op::Del(e2)]], false),
                ("durable_and_plain_first_puts", vec![vec![Op::PutD(e1, g(1))], vec![Op::Put(e1, g(2))], vec![Op::PutD(e1, g(3)), Op::DelD(e1)]], true),
            ];
            for (name, progs, durable) in neighbours {
                for _ in 0..(4 * scale) {
                    // the concurrent part under a seeded schedule; a second run appends the checker
                    ctx.case(&format!("directed.index.{name}"), &progs, if durable { Some(SyncMode::Manual) } else { None }, None, &mut r, true);
                }
            }
            // seeded programs on two contended emb: keys (first puts, re-creations after deletes, readers)
            let mut gen = Gen { next_tag: 0 };
            let mut r = root.fork("random.index_first_puts");
            for i in 0..(60 * scale) {
                let nthreads = 2 + (i % 4) as usize;
                let progs = gen.progs(&mut r, false, &[Cls::E], nthreads);
                ctx.case("random.index_first_puts", &progs, None, None, &mut r, true);
            }
            ctx.index_steps = false;
        }
        // (b) the race itself
        let rounds = (40 * scale) as usize;
        let mut id = 100u32;
        for writers in [2usize, 3, 4, 6, 8] {
            for mode in [StressMode::Fresh, StressMode::Recreate, StressMode::DurableStore] {
                ctx.stress(mode, writers, rounds, id);
                id += rounds as u32 + 1;
            }
        }
    }

    // ---- stores built WITH a Bloom filter (`with_bloom_filter`, `with_bloom_and_instrumentation`,
    //      `open_durable_with_bloom`; recovered with `recover_with_bloom`), directed (deterministic for
    //      every seed).  `get` / `exists` answer "absent" from the filter alone, `scan` reads the slabs:
    //      the guard is that a put tells the filter about its key BEFORE the key becomes visible.  The
    //      shortest history in which that guard is the only thing between the code and a violation:
    //      the FIRST put of a key (afterwards the key stays in the filter for good) with a reader that
    //      scans and then asks for the key while the put is in progress.  Every case: model (`runb`),
    //      the probe "whatever the router finds the store finds" at every scheduling decision, the
    //      same steps on the filter-free store (must be identical), Wing-Gong, recovered = live.
    {
        ctx.twin_always = true;
        let mut r = root.fork("directed.bloom");
        let g = |t: u32| Val { tag: t, vec: VecF::Good(t) };
        let n = |t: u32| Val { tag: t, vec: VecF::N };
        // the interleaving of `BloomProps.late_add_witness` (from the model): on the code as it is the
        // reader's exists says true and its get finds the value
        {
            let name = "bloom_late_add";
            let w = ctx.model.ask(&format!("witness {name}"));
            let f: Vec<&str> = w.split(' ').collect();
            match (f.get(1).and_then(|p| parse_progs(p)), f.len() == 3) {
                (Some(progs), true) => {
                    for variant in [1u8, 3] {
                        ctx.variant = variant;
                        let before: u32 = ctx.viol_count.values().sum();
                        match ctx.case(&format!("witness.{name}"), &progs, None, Some(&parse_sched(f[2])), &mut r, true) {
                            Some(_) => {
                                let after: u32 = ctx.viol_count.values().sum();
                                ctx.rep.hit(&format!("{}:{name}", if after > before { "witness_reproduced_on_real_store" } else { "witness_not_reproduced_on_real_store" }));
                            }
                            None => ctx.rep.disagree("witness.stalled", json!({"witness": name}), "scheduler stalled on every attempt", ""),
                        }
                    }
                }
                _ => ctx.rep.disagree("witness.driver", json!({"witness": name}), "", &w),
            }
        }
        // the first put of a key of every class, plain and durable, with the reader (scan of the class
        // prefix, exists, get) placed after each number of the writer's atomic steps
        for cls in CLASSES {
            let k = Key::new(cls, 1);
            let reader = vec![Op::Scan(Key::of(cls.prefix())), Op::Ex(k), Op::Get(k)];
            for durable in [false, true] {
                let v = if cls == Cls::E { g(1) } else { n(1) };
                let progs = vec![vec![if durable { Op::PutD(k, v) } else { Op::Put(k, v) }], reader.clone()];
                // steps of the writer; steps of the reader's get after `pos` writer steps
                let (wsteps, get_steps): (usize, Vec<usize>) = match (cls, durable) {
                    (Cls::E, false) => (3, vec![1, 2, 3, 3]),
                    (Cls::E, true) => (4, vec![1, 2, 2, 3, 3]),
                    (Cls::C, _) | (_, false) => (1, vec![1, 1]),
                    (_, true) => (2, vec![1, 1, 1]),
                };
                for pos in 0..=wsteps {
                    let mut sched = vec![0; pos];
                    sched.extend(std::iter::repeat(1).take(2 + get_steps[pos]));
                    sched.extend(std::iter::repeat(0).take(wsteps - pos));
                    for variant in if durable { vec![1u8] } else { vec![1u8, 3] } {
                        ctx.variant = variant;
                        let wal = if durable { Some(SyncMode::Immediate) } else { None };
                        if let Some(o) = ctx.case("directed.bloom.first_put_and_reader", &progs, wal, Some(&sched), &mut r, true) {
                            if reader_inside_first_put(&o.hist) {
                                ctx.rep.hit("bloom:reader_inside_first_put");
                            }
                        }
                    }
                }
            }
        }
        // neighbours, by seeded schedules: a key that is deleted and put again (it never leaves the
        // filter); keys nobody ever put (the pure fast path) beside a put of another key; two writers
        // of one fresh emb: key and two readers; deletes of keys the filter has never heard of
        let (e1, e2, p1, p2, c1) = (Key::new(Cls::E, 1), Key::new(Cls::E, 2), Key::new(Cls::P, 1), Key::new(Cls::P, 2), Key::new(Cls::C, 1));
        let scan = |c: Cls| Op::Scan(Key::of(c.prefix()));
        let neighbours: Vec<(&str, Vec<Vec<Op>>)> = vec![
            ("delete_and_put_again", vec![vec![Op::Put(e1, g(1)), Op::Del(e1), Op::Put(e1, n(2))], vec![scan(Cls::E), Op::Ex(e1), Op::Get(e1), scan(Cls::E), Op::Ex(e1)]]),
            ("never_put_keys", vec![vec![Op::Put(p1, n(1)), Op::Put(e1, g(2))], vec![Op::Get(p2), Op::Ex(p2), Op::Get(e2), Op::Ex(e2), Op::Del(p2), Op::Del(e2), Op::Scan(Key::of(""))]]),
            ("two_writers_two_readers", vec![vec![Op::Put(e1, g(1))], vec![Op::Put(e1, g(2))], vec![scan(Cls::E), Op::Ex(e1), Op::Get(e1)], vec![Op::Ex(e1), Op::Scan(Key::of("")), Op::Get(e1)]]),
            ("first_puts_of_three_classes", vec![vec![Op::Put(p1, n(1)), Op::Put(c1, n(2)), Op::Put(e2, g(3))], vec![Op::Scan(Key::of("")), Op::Ex(p1), Op::Ex(c1), Op::Ex(e2)], vec![Op::Get(e2), Op::Get(c1), Op::Get(p1)]]),
        ];
        for (name, progs) in neighbours {
            for i in 0..(6 * scale) {
                ctx.variant = if i % 2 == 0 { 1 } else { 3 };
                if let Some(o) = ctx.case(&format!("directed.bloom.{name}"), &progs, None, None, &mut r, true) {
                    if reader_inside_first_put(&o.hist) {
                        ctx.rep.hit("bloom:reader_inside_first_put");
                    }
                }
            }
            // the same with every write durable, on a store opened with `open_durable_with_bloom`
            let dprogs: Vec<Vec<Op>> = progs.iter().map(|p| p.iter().map(|op| match op { Op::Put(k, v) => Op::PutD(*k, *v), Op::Del(k) => Op::DelD(*k), o => *o }).collect()).collect();
            for _ in 0..(2 * scale) {
                ctx.variant = 1;
                ctx.case(&format!("directed.bloom.{name}.durable"), &dprogs, Some(SyncMode::Manual), None, &mut r, true);
            }
        }
        ctx.variant = 0;
        ctx.twin_always = false;
    }

    // ---- prefix scans over keys that are arbitrary strings, sequential and directed
    //      (deterministic for every seed): prefixes without an end key (`next_prefix` = None: the
    //      regression cases of the over-return repaired by 27855097), prefixes that cut across key classes, the empty key, keys that
    //      resemble a class prefix, characters of 1-4 bytes; with and without the log
    {
        let mut r = root.fork("directed.scan_prefix");
        let k = |s: &str| Key::of(s);
        let v = |t: u32| Val { tag: t, vec: VecF::N };
        let g = |t: u32| Val { tag: t, vec: VecF::Good(t) };
        let scenarios: Vec<(&str, Vec<Op>)> = vec![
            // the report (before 27855097): put("q1"), put("a\x7fx"), scan("a\x7f") returned both
            ("del_prefix_returns_rest_of_shard", vec![Op::Put(k("q1"), v(1)), Op::Put(k("a\u{7f}x"), v(2)), Op::Scan(k("a\u{7f}")), Op::Scan(k("a")), Op::Scan(k("q")), Op::Scan(k("a\u{7f}x"))]),
            // put("ӿx"), scan("ÿ") returned it (C3 BF -> C3 C0 is not UTF-8; D3 and C3 are both 3 mod 16)
            ("bf_prefix_returns_rest_of_shard", vec![Op::Put(k("ӿx"), v(1)), Op::Put(k("ÿ1"), v(2)), Op::Scan(k("ÿ")), Op::Scan(k("ӿ")), Op::Scan(k("ÿ1"))]),
            // a realistic one: user names in Cyrillic, prefix ending in `п` (D0 BF)
            ("cyrillic_prefix", vec![Op::Put(k("user:п1"), v(1)), Op::Put(k("user:р2"), v(2)), Op::Put(k("user:я"), v(3)), Op::Put(k("uzz"), v(4)), Op::Put(k("emb:1"), g(5)), Op::Scan(k("user:п")), Op::Scan(k("user:")), Op::Scan(k("user:р")), Op::Del(k("user:п1")), Op::Scan(k("user:п"))]),
            // the over-return reaches the keys of OTHER classes in the shard (`e` and `u` are both 5 mod 16)
            ("over_return_crosses_classes", vec![Op::Put(k("emb:1"), g(1)), Op::Put(k("edge:1"), v(2)), Op::Put(k("user:1"), v(3)), Op::Put(k("eve"), v(4)), Op::Scan(k("e\u{7f}")), Op::Scan(k("emb:\u{7f}")), Op::Scan(k("e"))]),
            // prefixes that cut across classes: metadata range + entity index + cache ring
            ("prefix_across_classes", vec![Op::Put(k("emb:1"), g(1)), Op::Put(k("emb:2"), v(2)), Op::Put(k("edge:1"), v(3)), Op::Put(k("eve"), v(4)), Op::Put(k("_cache:e"), v(5)), Op::Put(k("_x"), v(6)), Op::Scan(k("e")), Op::Scan(k("em")), Op::Scan(k("emb:")), Op::Scan(k("_")), Op::Scan(k("_cache:")), Op::Scan(k("_cache:e")), Op::Del(k("emb:1")), Op::Scan(k("e")), Op::Scan(k(""))]),
            // the empty key (shard 0) and the empty prefix
            ("empty_key", vec![Op::Get(k("")), Op::Put(k(""), v(1)), Op::Get(k("")), Op::Ex(k("")), Op::Scan(k("")), Op::Put(k("0"), v(2)), Op::Scan(k("0")), Op::Del(k("")), Op::Scan(k("")), Op::Del(k(""))]),
            // strings that resemble a class prefix are plain keys; `edge:` is the graph class
            ("class_lookalikes", vec![Op::Put(k("emb"), g(1)), Op::Put(k("embx"), g(2)), Op::Put(k("cache:1"), v(3)), Op::Put(k("_cache"), v(4)), Op::Put(k("nodes:1"), v(5)), Op::Put(k("edge:1"), v(6)), Op::Put(k("emb:"), g(7)), Op::Get(k("emb")), Op::Get(k("emb:")), Op::Scan(k("emb")), Op::Scan(k("emb:")), Op::Scan(k("_cache")), Op::Scan(k("node")), Op::Del(k("emb")), Op::Del(k("emb:")), Op::Scan(k("e"))]),
            // characters of 2, 3 and 4 bytes; prefixes that end in them
            ("multibyte", vec![Op::Put(k("é"), v(1)), Op::Put(k("éa"), v(2)), Op::Put(k("ê"), v(3)), Op::Put(k("€1"), v(4)), Op::Put(k("€"), v(5)), Op::Put(k("😀x"), v(6)), Op::Put(k("\u{1f93f}y"), v(7)), Op::Put(k("\u{ffff}z"), v(8)), Op::Scan(k("é")), Op::Scan(k("€")), Op::Scan(k("😀")), Op::Scan(k("\u{1f93f}")), Op::Scan(k("\u{ffff}")), Op::Scan(k("À"))]),
        ];
        for (name, prog) in scenarios {
            for durable in [false, true] {
                let prog: Vec<Op> = prog
                    .iter()
                    .map(|op| match op {
                        Op::Put(k, v) if durable => Op::PutD(*k, *v),
                        Op::Del(k) if durable => Op::DelD(*k),
                        o => *o,
                    })
                    .collect();
                let before = ctx.scan_observed;
                ctx.case(&format!("directed.scan_prefix.{name}"), &[prog], if durable { Some(SyncMode::Immediate) } else { None }, None, &mut r, true);
                if name.ends_with("returns_rest_of_shard") || name == "cyrillic_prefix" || name == "over_return_crosses_classes" {
                    ctx.rep.hit(if ctx.scan_observed > before { "regression:scan_prefix_without_end_key_over_returns" } else { "scan_prefix_without_end_key_is_exact_on_real_store" });
                }
            }
        }
        // two threads: a scan with such a prefix racing puts and deletes of keys of its shard
        let two = vec![vec![Op::Put(k("a\u{7f}x"), v(1)), Op::Del(k("q1")), Op::Put(k("b"), v(2))], vec![Op::Put(k("q1"), v(3)), Op::Scan(k("a\u{7f}")), Op::Scan(k("a")), Op::Scan(k("a\u{7f}"))]];
        for _ in 0..(4 * scale) {
            ctx.case("directed.scan_prefix.two_threads", &two, None, None, &mut r, true);
        }
    }

    // ---- durable writers of ONE key racing on the REAL log mutex, by directed schedules
    //      (deterministic for every seed).  A thread is granted its `store.*_durable` step while the
    //      other is between its log step and its apply: it runs up to `Mutex::lock`, blocks, and
    //      takes its log step when the holder has applied.  Whatever the code does between the
    //      entry of the call and the mutex is done against the state BEFORE the holder's apply.
    //      Every run: model comparison in the effective step order + all oracles (recovered = live).
    {
        ctx.real_mutex = true;
        let mut r = root.fork("directed.real_mutex");
        let v = |t: u32| Val { tag: t, vec: VecF::N };
        // the interleaving of `Props.delete_skip_if_absent_witness`, from the model: on the code as
        // it is the delete logs its record after the set and the recovered store equals the live one
        {
            let name = "delete_skip_if_absent";
            let w = ctx.model.ask(&format!("witness {name}"));
            let f: Vec<&str> = w.split(' ').collect();
            match (f.get(1).and_then(|p| parse_progs(p)), f.len() == 3) {
                (Some(progs), true) => {
                    let before: u32 = ctx.viol_count.values().sum();
                    match ctx.case(&format!("witness.{name}"), &progs, Some(SyncMode::Immediate), Some(&parse_sched(f[2])), &mut r, true) {
                        Some(o) => {
                            let after: u32 = ctx.viol_count.values().sum();
                            ctx.rep.hit(&format!("{}:{name}", if after > before { "witness_reproduced_on_real_store" } else { "witness_not_reproduced_on_real_store" }));
                            if o.waits.is_empty() {
                                ctx.rep.disagree("witness.delete_skip_if_absent.schedule", json!({"real_trace": o.trace}), "the delete was not granted while the put held the log mutex", "delete waits behind the put");
                            }
                        }
                        None => ctx.rep.disagree("witness.stalled", json!({"witness": name}), "scheduler stalled on every attempt", ""),
                    }
                }
                _ => ctx.rep.disagree("witness.driver", json!({"witness": name}), "", &w),
            }
        }
        for cls in [Cls::P, Cls::G, Cls::T] {
            let k = Key::new(cls, 1);
            let (pd, dd) = (|t: u32| Op::PutD(k, v(t)), Op::DelD(k));
            // (programs, grants); W = the grant of the thread that then waits for the mutex
            let scenarios: Vec<(&str, Vec<Vec<Op>>, Vec<usize>)> = vec![
                // delete of a key that is ABSENT at the start, granted while the put of that key is
                // between log and apply:  A log, B W, A apply (B logs), B apply
                ("delete_of_absent_key_waits_behind_put", vec![vec![pd(1)], vec![dd]], vec![0, 1, 0, 1]),
                // the other way round: the put waits behind the delete of the absent key
                ("put_waits_behind_delete_of_absent_key", vec![vec![dd], vec![pd(1)]], vec![0, 1, 0, 1]),
                // delete of a PRESENT key waits behind a put that overwrites it
                ("delete_of_present_key_waits_behind_put", vec![vec![pd(1), pd(2)], vec![dd]], vec![0, 0, 0, 1, 0, 1]),
                // a put waits behind the delete of the present key
                ("put_waits_behind_delete_of_present_key", vec![vec![pd(1), dd], vec![pd(2)]], vec![0, 0, 0, 1, 0, 1]),
                // two deletes of a present key: the second one sees it present and waits, then finds it gone
                ("delete_waits_behind_delete_of_present_key", vec![vec![pd(1), dd], vec![dd]], vec![0, 0, 0, 1, 0, 1]),
                // two deletes of an absent key
                ("delete_waits_behind_delete_of_absent_key", vec![vec![dd], vec![dd]], vec![0, 1, 0, 1]),
                // put / put / delete: the delete waits behind put A, put B waits behind the delete
                ("put_put_delete", vec![vec![pd(1)], vec![pd(2)], vec![dd]], vec![0, 2, 0, 1, 2, 1]),
                // delete waits behind the first put, a second delete and a re-put follow in its thread
                ("delete_then_put_again", vec![vec![pd(1)], vec![dd, pd(2), dd]], vec![0, 1, 0, 1, 1, 1, 1, 1]),
            ];
            for (name, progs, grants) in scenarios {
                if cls != Cls::P && !name.starts_with("delete_of_") {
                    continue; // the other classes share the code path: the two delete-behind-put races only
                }
                let stream = format!("directed.real_mutex.{name}");
                match ctx.case(&stream, &progs, Some(SyncMode::Immediate), Some(&grants), &mut r, true) {
                    Some(o) => {
                        if o.waits.is_empty() {
                            ctx.rep.disagree(&format!("{stream}.schedule"), json!({"real_trace": o.trace}), "no durable writer was granted while the log mutex was held", "one waits");
                        }
                        ctx.rep.hit(&format!("directed.real_mutex:{name}"));
                    }
                    None => ctx.rep.disagree("directed.real_mutex.stalled", json!({"scenario": name}), "scheduler stalled on every attempt", ""),
                }
            }
        }
        ctx.real_mutex = false;
    }

    // ---- (ii) the Lean witness interleaving of `emb_mixture_witness`, replayed on the real store
    {
        let (name, class) = ("emb_mixture", "tensor_store.slab_router.emb/get_mixes_two_puts");
        let w = ctx.model.ask(&format!("witness {name}"));
        let f: Vec<&str> = w.split(' ').collect();
        match (f.get(1).and_then(|p| parse_progs(p)), f.len() == 3) {
            (Some(progs), true) => {
                let sched = parse_sched(f[2]);
                let wal = if f[0] == "1" { Some(SyncMode::Immediate) } else { None };
                let mut r = root.fork(name);
                let before = ctx.viol_count.get(class).copied().unwrap_or(0);
                let o = ctx.case(&format!("witness.{name}"), &progs, wal, Some(&sched), &mut r, true);
                let after = ctx.viol_count.get(class).copied().unwrap_or(0);
                match o {
                    Some(o) if after > before => {
                        let _ = o;
                        ctx.rep.hit(&format!("witness_reproduced_on_real_store:{name}"));
                    }
                    Some(o) => {
                        ctx.rep.hit(&format!("witness_not_reproduced_on_real_store:{name}"));
                        ctx.rep.observe(json!({"witness": name, "real_history": o.hist_s, "image": o.image, "recovered": o.rimage}));
                    }
                    None => ctx.rep.disagree("witness.stalled", json!({"witness": name}), "scheduler stalled on every attempt", ""),
                }
            }
            _ => ctx.rep.disagree("witness.driver", json!({"witness": name}), "", &w),
        }
    }

    // ---- the interleaving of `durable_order_witness` (executable on the code before dfea2ecb only)
    //      and a put/delete variant, asked of the REAL log mutex (no harness-side mirror)
    {
        let w = ctx.model.ask("witness durable_order");
        let f: Vec<&str> = w.split(' ').collect();
        match (f.get(1).and_then(|p| parse_progs(p)), f.len() == 3) {
            (Some(progs), true) => ctx.mutex_probe(&progs, &parse_sched(f[2])),
            _ => ctx.rep.disagree("witness.driver", json!({"witness": "durable_order"}), "", &w),
        }
        let k = Key::new(Cls::G, 1);
        let (v1, v2) = (Val { tag: 1, vec: VecF::N }, Val { tag: 2, vec: VecF::N });
        // A: put, then delete-log;  B: put-log (must block), A: delete-apply, B: put-apply
        ctx.mutex_probe(&[vec![Op::PutD(k, v1), Op::DelD(k)], vec![Op::PutD(k, v2)]], &[0, 0, 0, 1, 1, 0]);
    }

    // ---- the known findings, each by a directed schedule (deterministic for every seed)
    {
        let mut r = root.fork("known");
        let e1 = Key::new(Cls::E, 1);
        let p1 = Key::new(Cls::P, 1);
        let g = |t: u32| Val { tag: t, vec: VecF::Good(t) };
        // two overlapping deletes of emb:1 both succeed (the second passes the existence check
        // between the first one's slab delete and its index removal)
        ctx.case(
            "directed.known.emb_two_deletes_both_ok",
            &[vec![Op::Put(e1, g(1)), Op::Del(e1)], vec![Op::Del(e1)]],
            None,
            Some(&[0, 0, 0, 0, 1, 0, 0, 1, 1]),
            &mut r,
            true,
        );
        // a scan lists emb:1 from the entity index, then a get of it says NotFound: the put has
        // not yet stored vector and metadata
        ctx.case(
            "directed.known.scan_sees_emb_key_before_metadata",
            &[vec![Op::Put(e1, g(1))], vec![Op::Scan(Key::of(Cls::E.prefix())), Op::Get(e1)]],
            None,
            Some(&[0, 1, 1, 1, 0, 0]),
            &mut r,
            true,
        );
        // sequential: put_durable of user:1 with a vector, delete_durable, scan still lists it
        ctx.case(
            "directed.known.nonemb_vector_key_deleted_still_scanned",
            &[vec![Op::PutD(p1, g(1)), Op::Get(p1), Op::DelD(p1), Op::Get(p1), Op::Ex(p1), Op::Scan(Key::of(Cls::P.prefix()))]],
            Some(SyncMode::Immediate),
            None,
            &mut r,
            true,
        );
    }

    // ---- the hypotheses of `durable_ops_linearizable` and `durable_order_eq_memory_order` /
    //      `recovered_eq_live` on the real store: directed histories in which one guard of the
    //      durable path is the only thing between the code and a violation, then seeded runs
    {
        let mut r = root.fork("directed.durable");
        let (p1, e1, e2, e3) = (Key::new(Cls::P, 1), Key::new(Cls::E, 1), Key::new(Cls::E, 2), Key::new(Cls::E, 3));
        let n = |t: u32| Val { tag: t, vec: VecF::N };
        let g = |t: u32| Val { tag: t, vec: VecF::Good(t) };
        let b = |t: u32| Val { tag: t, vec: VecF::Bad(t) };
        // a reader and a non-durable writer between the log step and the apply of a durable put:
        // the logged write is invisible until it is applied, then overwrites
        ctx.case(
            "directed.durable.reader_between_log_and_apply",
            &[vec![Op::PutD(p1, n(1))], vec![Op::Get(p1), Op::Get(p1), Op::PutD(p1, n(3))], vec![Op::Put(p1, n(2)), Op::Scan(Key::of("user:"))]],
            Some(SyncMode::Immediate),
            Some(&[0, 1, 2, 2, 1, 0, 1, 1]),
            &mut r,
            true,
        );
        let seqs: Vec<(&str, Vec<Op>)> = vec![
            // the vector of an older value must not survive a put without vector, live or replayed
            ("emb_put_without_vector_drops_slab_entry", vec![Op::PutD(e1, g(1)), Op::PutD(e1, n(2)), Op::Get(e1), Op::Ex(e1)]),
            // a vector of another dimension: kept in the metadata alone, the old slab entry dropped
            ("emb_put_wrong_dimension", vec![Op::PutD(e1, g(1)), Op::PutD(e1, b(2)), Op::Get(e1), Op::PutD(e1, g(3)), Op::Get(e1)]),
            // entity ids after a delete: the tombstoned id is not reused, replay assigns the same ids
            ("emb_ids_after_delete", vec![Op::PutD(e1, g(1)), Op::PutD(e2, g(2)), Op::DelD(e1), Op::PutD(e3, g(3)), Op::PutD(e1, g(4)), Op::Get(e1), Op::Get(e2), Op::Get(e3), Op::Scan(Key::of("emb:"))]),
            // delete of a key that was never put, of a key put without vector, twice
            ("emb_deletes", vec![Op::DelD(e1), Op::PutD(e1, n(1)), Op::DelD(e1), Op::DelD(e1), Op::Ex(e1), Op::PutD(e2, b(2)), Op::DelD(e2), Op::Scan(Key::of("emb:"))]),
        ];
        for (name, prog) in seqs {
            ctx.case(&format!("directed.durable.{name}"), &[prog], Some(SyncMode::Immediate), None, &mut r, true);
        }
        // two durable writers of emb:1 (four steps each, serialised by the mutex) and a reader inside
        let three = vec![vec![Op::PutD(e1, g(1)), Op::DelD(e1), Op::PutD(e1, n(3))], vec![Op::PutD(e1, b(2)), Op::Get(e1)], vec![Op::PutD(p1, g(4)), Op::Scan(Key::of(""))]];
        ctx.case("directed.durable.emb_writers_and_reader", &three, Some(SyncMode::Immediate), Some(&[0, 0, 0, 0, 1, 1, 1, 1, 2, 1, 2, 0, 1, 2, 0, 0, 0, 0, 0, 0, 0]), &mut r, true);
        for _ in 0..(4 * scale) {
            ctx.case("directed.durable.emb_writers_and_reader", &three, Some(SyncMode::Manual), None, &mut r, true);
        }
    }

    // ---- directed small scenarios: every op kind × every class, sequential and 2-thread
    {
        let mut r = root.fork("directed");
        let mut g = Gen { next_tag: 0 };
        for c in CLASSES {
            for durable in [false, true] {
                let k = Key::new(c, 1);
                let v1 = g.val(&mut r, k);
                let v2 = Val { tag: v1.tag + 1000, vec: VecF::Good(v1.tag + 1000) };
                let v3 = Val { tag: v1.tag + 2000, vec: VecF::Bad(7) };
                let (p, d): (fn(Key, Val) -> Op, fn(Key) -> Op) = if durable { (Op::PutD, Op::DelD) } else { (Op::Put, Op::Del) };
                let seq = vec![vec![Op::Get(k), Op::Ex(k), d(k), p(k, v1), Op::Get(k), Op::Ex(k), Op::Scan(Key::of(c.prefix())), Op::Scan(Key::of("")), p(k, v2), Op::Get(k), p(k, v3), Op::Get(k), d(k), Op::Get(k), Op::Ex(k), Op::Scan(Key::of(c.prefix())), d(k)]];
                ctx.case("directed.sequential", &seq, if durable { Some(SyncMode::Immediate) } else { None }, None, &mut r, true);
                let two = vec![vec![p(k, v1), Op::Get(k), d(k)], vec![p(k, v2), Op::Ex(k), Op::Scan(Key::of(c.prefix())), Op::Get(k)]];
                for _ in 0..(6 * scale) {
                    ctx.case("directed.two_threads", &two, if durable { Some(SyncMode::Manual) } else { None }, None, &mut r, true);
                }
            }
        }
    }

    // ---- (i)+(iii) seeded random programs and schedules
    let plan: [(&str, bool, &[Cls], u64); 5] = [
        ("random.single_step_classes", false, &[Cls::P, Cls::G, Cls::T, Cls::C], 220),
        ("random.emb", false, &[Cls::E], 220),
        ("random.all_classes", false, &CLASSES, 160),
        ("random.durable", true, &[Cls::P, Cls::G, Cls::T, Cls::C], 200),
        ("random.durable_all_classes", true, &CLASSES, 160),
    ];
    for (stream, durable, classes, n) in plan {
        let mut r = root.fork(stream);
        let mut g = Gen { next_tag: 0 };
        for i in 0..(n * scale) {
            let nthreads = 2 + (i % 7) as usize; // 2..=8
            let progs = g.progs(&mut r, durable, classes, nthreads);
            let wal = if durable { Some(if i % 16 == 0 { SyncMode::Immediate } else { SyncMode::Manual }) } else { None };
            // every third case on a store with a Bloom filter and / or the access tracker
            ctx.variant = if i % 3 == 2 { 1 + ((i / 3) % 3) as u8 } else { 0 };
            ctx.rep.hit(["store:plain", "store:bloom_filter", "store:instrumentation", "store:bloom_filter_and_instrumentation"][ctx.variant as usize]);
            ctx.case(stream, &progs, wal, None, &mut r, true);
        }
        ctx.variant = 0;
    }

    // ---- seeded: first puts of fresh keys racing readers that scan and then ask, on stores built
    //      with a Bloom filter (plain, with the access tracker, durable); every case also on the
    //      filter-free store in the same step order
    {
        ctx.twin_always = true;
        let stream = "random.bloom_first_puts";
        let mut r = root.fork(stream);
        let mut g = Gen { next_tag: 0 };
        for i in 0..(150 * scale) {
            let nthreads = 2 + (i % 4) as usize; // 2..=5
            let durable = i % 3 == 2;
            let progs = g.first_puts(&mut r, durable, nthreads);
            let wal = if durable { Some(if i % 12 == 2 { SyncMode::Immediate } else { SyncMode::Manual }) } else { None };
            ctx.variant = if durable || i % 2 == 0 { 1 } else { 3 };
            if let Some(o) = ctx.case(stream, &progs, wal, None, &mut r, true) {
                if reader_inside_first_put(&o.hist) {
                    ctx.rep.hit("bloom:reader_inside_first_put");
                    ctx.rep.hit("bloom:random_case_with_reader_inside_first_put");
                }
            }
        }
        ctx.variant = 0;
        ctx.twin_always = false;
    }

    // ---- keys and prefixes that are arbitrary strings (see `PIECES`): 1-4 threads, a quarter of
    //      the operations prefix scans; without and with the log (recovered = live per key)
    for (stream, durable, n) in [("random.odd_keys", false, 100u64), ("random.odd_keys_durable", true, 40)] {
        let mut r = root.fork(stream);
        let mut g = Gen { next_tag: 0 };
        for i in 0..(n * scale) {
            let nthreads = 1 + (i % 4) as usize;
            let progs = g.odd_progs(&mut r, durable, nthreads);
            let wal = if durable { Some(if i % 8 == 0 { SyncMode::Immediate } else { SyncMode::Manual }) } else { None };
            ctx.variant = if i % 5 == 4 { 1 } else { 0 };
            ctx.case(stream, &progs, wal, None, &mut r, true);
        }
        ctx.variant = 0;
    }

    // ---- durable runs on the REAL log mutex: seeded programs and schedules in which durable
    //      writers are granted while the mutex is held (each such grant costs the scheduler's stall
    //      window, hence fewer runs than in the mirrored streams)
    {
        ctx.real_mutex = true;
        let stream = "random.durable_real_mutex";
        let mut r = root.fork(stream);
        let mut g = Gen { next_tag: 0 };
        for i in 0..(90 * scale) {
            let nthreads = 2 + (i % 3) as usize; // 2..=4
            let progs = match i % 3 {
                0 => g.progs(&mut r, true, &[Cls::P, Cls::G, Cls::T, Cls::C], nthreads),
                _ => g.writers(&mut r, nthreads),
            };
            let wal = Some(if i % 4 == 0 { SyncMode::Immediate } else { SyncMode::Manual });
            ctx.case(stream, &progs, wal, None, &mut r, true);
        }
        ctx.real_mutex = false;
    }

    // ---- seeded runs under the hypothesis of `durable_order_eq_memory_order` / `recovered_eq_live`
    {
        let stream = "random.durable_writers_and_readers";
        let mut r = root.fork(stream);
        let mut g = Gen { next_tag: 0 };
        for i in 0..(80 * scale) {
            let nthreads = 2 + (i % 5) as usize; // 2..=6
            let progs = g.durable_rw(&mut r, nthreads);
            let wal = Some(if i % 8 == 0 { SyncMode::Immediate } else { SyncMode::Manual });
            ctx.variant = if i % 4 == 3 { 1 } else { 0 };
            ctx.case(stream, &progs, wal, None, &mut r, true);
        }
        ctx.variant = 0;
        // the same programs, fsync per record, and a crash probe at a random moment of the run
        let stream = "random.durable_crash_anywhere";
        let mut r = root.fork(stream);
        for i in 0..(30 * scale) {
            let nthreads = 2 + (i % 4) as usize;
            let progs = g.durable_rw(&mut r, nthreads);
            let est: u64 = progs.iter().flatten().map(|op| match op { Op::PutD(k, _) | Op::DelD(k) if k.cls() == Cls::E => 4, Op::PutD(..) | Op::DelD(..) => 2, _ => 1 }).sum();
            ctx.crash_at = Some(r.below(est.max(1)) as usize);
            ctx.case(stream, &progs, Some(SyncMode::Immediate), None, &mut r, true);
        }
        ctx.crash_at = None;
    }

    // ---- the hypothesis of `emb_linearizable_partial` on the real store: any programs of
    //      put / get / delete / exists / scan, schedules in which no two operations on one emb: key
    //      overlap (scans and operations on other keys overlap freely) — every history must be
    //      linearizable and the quiescent views coherent
    {
        ctx.exclusive_emb = true;
        let mut r = root.fork("random.emb_no_overlap_on_one_key");
        let mut g = Gen { next_tag: 0 };
        for i in 0..(200 * scale) {
            let nthreads = 2 + (i % 7) as usize;
            let classes: &[Cls] = if i % 2 == 0 { &[Cls::E] } else { &CLASSES };
            let progs = g.progs(&mut r, false, classes, nthreads);
            let before: u32 = ctx.viol_count.values().sum();
            if let Some(o) = ctx.case("random.emb_no_overlap_on_one_key", &progs, None, None, &mut r, true) {
                if emb_ops_overlap(&o.hist) {
                    ctx.rep.disagree("random.emb_no_overlap_on_one_key.schedule", json!({"real_history": o.hist_s}), "two operations on one emb: key overlapped", "exclusive schedule");
                }
                let after: u32 = ctx.viol_count.values().sum();
                ctx.rep.hit(if after == before { "oracle:no_overlap_history_linearizable_and_coherent" } else { "oracle:no_overlap_history_VIOLATION" });
                if o.hist.iter().any(|a| a.ret > a.inv && o.hist.iter().any(|b| b.t != a.t && a.inv <= b.ret && b.inv <= a.ret)) {
                    ctx.rep.hit("no_overlap_run_with_concurrent_multi_step_emb_op");
                }
            }
        }
        ctx.exclusive_emb = false;
    }

    // ---- outside the property's operations (observation, never judged): `restore_from_bytes` on a
    //      store with a Bloom filter writes the restored keys through the router without telling the
    //      filter - scan lists them, get / exists deny them (sequential; proposed/C11-restore-from-bytes-bloom.diff)
    {
        let src = TensorStore::new();
        let _ = src.put("user:restored", Val { tag: 1, vec: VecF::N }.data());
        if let Ok(bytes) = src.snapshot_bytes() {
            let dst = TensorStore::with_bloom_filter(64, 0.01);
            if dst.restore_from_bytes(&bytes).is_ok() {
                let listed = dst.scan("user:").contains(&"user:restored".to_string());
                let (ex, got) = (dst.exists("user:restored"), dst.get("user:restored").is_ok());
                ctx.rep.hit(if listed && !(ex && got) { "observed:restore_from_bytes_bypasses_bloom_filter" } else { "observed:restore_from_bytes_keys_found_on_bloom_store" });
                if listed && !(ex && got) {
                    ctx.rep.observe(json!({"what": "TensorStore::restore_from_bytes on a store built with a Bloom filter: the restored key is listed by scan but exists / get answer absent (the filter was not told); restore_from_bytes is not one of C11's operations",
                        "input": "src = TensorStore::new(); src.put(\"user:restored\", v); dst = TensorStore::with_bloom_filter(64, 0.01); dst.restore_from_bytes(&src.snapshot_bytes()?)",
                        "scan_lists_key": listed, "exists": ex, "get_finds": got, "proposed": "proposed/C11-restore-from-bytes-bloom.diff"}));
                }
            }
        }
    }

    let (budget_hits, stalls) = (ctx.budget_hits, ctx.stalls);
    let counts = ctx.viol_count.clone();
    drop(ctx);
    rep.expected_branches = [
        "site:store.put", "site:store.get", "site:store.delete", "site:store.exists", "site:store.scan",
        "site:store.put_durable", "site:store.delete_durable",
        "site:router.put.emb.after_index", "site:router.put.emb.after_vector",
        "site:router.get.emb.after_index", "site:router.get.emb.after_vector",
        "site:router.delete.emb.after_vector", "site:router.delete.emb.after_index",
        "site:router.put_durable.after_log", "site:router.delete_durable.after_log",
        "threads:2", "threads:3", "threads:4", "threads:5", "threads:6", "threads:7", "threads:8",
        "overlapping_multi_step_op", "oracle:history_linearizable", "oracle:recovered_equals_memory",
        "probe:second_durable_writer_blocked_on_real_log_mutex", "witness_reproduced_on_real_store:emb_mixture",
        "oracle:no_overlap_history_linearizable_and_coherent", "no_overlap_run_with_concurrent_multi_step_emb_op",
        "witness_not_reproduced_on_real_store:delete_skip_if_absent",
        "directed.real_mutex:delete_of_absent_key_waits_behind_put", "directed.real_mutex:put_waits_behind_delete_of_absent_key",
        "directed.real_mutex:delete_of_present_key_waits_behind_put", "directed.real_mutex:put_waits_behind_delete_of_present_key",
        "directed.real_mutex:delete_waits_behind_delete_of_present_key", "directed.real_mutex:delete_waits_behind_delete_of_absent_key",
        "directed.real_mutex:put_put_delete", "directed.real_mutex:delete_then_put_again",
        "real_mutex:durable_writer_waited_for_real_log_mutex",
        "real_mutex:delete_durable_behind_put_durable_same_key", "real_mutex:put_durable_behind_delete_durable_same_key",
        "real_mutex:put_durable_behind_put_durable_same_key", "real_mutex:delete_durable_behind_delete_durable_same_key",
        "oracle:keys_compared_live_vs_recovered",
        "store:plain", "store:bloom_filter", "store:instrumentation", "store:bloom_filter_and_instrumentation",
        "scan:prefix_without_end_key", "scan:prefix_with_end_key", "scan:empty_prefix", "scan:class_prefix",
        "key:not_a_class_alias", "key:empty", "key:multibyte", "scan_prefix_without_end_key_is_exact_on_real_store",
        "oracle:slabs_and_store_agree_at_every_step", "oracle:filtered_store_equals_filter_free_store",
        "twin:same_steps_on_filter_free_store", "witness_not_reproduced_on_real_store:bloom_late_add",
        "bloom:reader_inside_first_put", "bloom:random_case_with_reader_inside_first_put",
        "crash:while_a_durable_write_holds_the_mutex", "crash:nobody_inside_a_durable_write",
        "oracle:crash_mid_run_recovers_live_or_inflight_write_completed",
        "oracle:one_live_id_per_key_and_deleted_key_gone",
        "stress:fresh_key", "stress:key_deleted_before", "stress:fresh_key_durable_store",
        "stress:writers:2", "stress:writers:3", "stress:writers:4", "stress:writers:6", "stress:writers:8",
        "collisions:pair_shares_one_index_entry_of_the_real_ring", "collision:case_with_two_cache_keys_of_one_hash",
        "collisions:restated_fxhash_equals_the_crates", "collisions:second_put_displaces_the_first_key",
        "oracle:every_get_returned_a_value_written_to_its_own_key", "oracle:history_is_a_sequential_execution_of_the_ring",
        "stress:cache_gets_that_found_a_value", "stress:cache_gets_that_reported_absent",
    ]
    .iter()
    .map(|s| s.to_string())
    .collect();
    rep.note("cache ring capacity 10 000 ≫ the handful of cache keys of a case: eviction never fires (the ring model has it, as an arbitrary choice of the victim; it is not exercised)");
    rep.note("a step = the code between two yield hooks; preemption inside a step (between the slab locks of one scan / exists / delete-check) is not exercised");
    rep.note(&format!("scheduler stalls (runner missed the 30 ms window; case re-run): {stalls}; Wing–Gong searches cut by the node budget: {budget_hits}"));
    if !counts.is_empty() {
        rep.note(&format!("violation counts per class (first 3 of each reported): {counts:?}"));
    }
    rep.write(&args.out);
}
