//! C01 correspondence: clusters of real `RaftNode`s driven synchronously through
//! `handle_message` / `start_election` / `start_pre_vote` / `propose` /
//! `get_entries_for_follower`, with a harness-owned message pool (deliver any pending
//! message any number of times = delay, reorder, duplication; never = loss), crash =
//! drop + reopen from the WAL.  Every event is mirrored on the Lean model (`drv_raft`)
//! and the canonical node state + produced message are compared.  Safety monitors
//! (election safety, log matching, state-machine safety, leader completeness) run on
//! the real cluster after every event.
use nverif::*;
use serde_json::json;
use std::collections::BTreeMap;
use std::sync::Arc;
use tensor_chain::block::{Block, BlockHeader};
use tensor_chain::network::{
    AppendEntries, AppendEntriesResponse, LogEntry, MemoryTransport, Message, PreVote,
    PreVoteResponse, RequestVote, RequestVoteResponse, TimeoutNow,
};
use tensor_chain::raft::{RaftConfig, RaftNode};
use tensor_store::SparseVector;

#[derive(Clone, Debug, PartialEq)]
enum M {
    Rv(u64, u64, u64, u64),
    Rvr(u64, bool, u64),
    Pv(u64, u64, u64, u64),
    Pvr(u64, bool, u64),
    Ae(u64, u64, u64, u64, u64, Vec<(u64, u64)>), // term leader prevIdx prevTerm commit entries
    Aer(u64, bool, u64, u64),
    Tn(u64, u64),
}

fn b(x: bool) -> &'static str {
    if x {
        "1"
    } else {
        "0"
    }
}

impl M {
    fn text(&self) -> String {
        match self {
            M::Rv(t, c, li, lt) => format!("rv {t} {c} {li} {lt}"),
            M::Rvr(t, g, v) => format!("rvr {t} {} {v}", b(*g)),
            M::Pv(t, c, li, lt) => format!("pv {t} {c} {li} {lt}"),
            M::Pvr(t, g, v) => format!("pvr {t} {} {v}", b(*g)),
            M::Ae(t, l, pi, pt, lc, es) => format!(
                "ae {t} {l} {pi} {pt} {lc} {}",
                if es.is_empty() {
                    "-".to_string()
                } else {
                    es.iter().map(|(a, p)| format!("{a}:{p}")).collect::<Vec<_>>().join(",")
                }
            ),
            M::Aer(t, s, f, mi) => format!("aer {t} {} {f} {mi}", b(*s)),
            M::Tn(t, l) => format!("tn {t} {l}"),
        }
    }
    fn kind(&self) -> &'static str {
        match self {
            M::Rv(..) => "rv",
            M::Rvr(..) => "rvr",
            M::Pv(..) => "pv",
            M::Pvr(..) => "pvr",
            M::Ae(..) => "ae",
            M::Aer(..) => "aer",
            M::Tn(..) => "tn",
        }
    }
}

fn block(payload: u64) -> Block {
    Block::new(
        BlockHeader::new(payload, [0u8; 32], [0u8; 32], [0u8; 32], "p".to_string()),
        vec![],
    )
}

fn emb(pass: bool) -> SparseVector {
    SparseVector::from_dense(if pass { &[1.0, 0.0] } else { &[-1.0, 0.0] })
}

fn to_real(m: &M, geo_pass: bool) -> Message {
    match m {
        M::Rv(t, c, li, lt) => Message::RequestVote(RequestVote {
            term: *t,
            candidate_id: c.to_string(),
            last_log_index: *li,
            last_log_term: *lt,
            state_embedding: emb(geo_pass),
        }),
        M::Rvr(t, g, v) => Message::RequestVoteResponse(RequestVoteResponse {
            term: *t,
            vote_granted: *g,
            voter_id: v.to_string(),
        }),
        M::Pv(t, c, li, lt) => Message::PreVote(PreVote {
            term: *t,
            candidate_id: c.to_string(),
            last_log_index: *li,
            last_log_term: *lt,
            state_embedding: emb(true),
        }),
        M::Pvr(t, g, v) => Message::PreVoteResponse(PreVoteResponse {
            term: *t,
            vote_granted: *g,
            voter_id: v.to_string(),
        }),
        M::Ae(t, l, pi, pt, lc, es) => Message::AppendEntries(AppendEntries {
            term: *t,
            leader_id: l.to_string(),
            prev_log_index: *pi,
            prev_log_term: *pt,
            entries: es
                .iter()
                .enumerate()
                .map(|(k, (et, p))| LogEntry::new(*et, pi + 1 + k as u64, block(*p)))
                .collect(),
            leader_commit: *lc,
            block_embedding: None,
        }),
        M::Aer(t, s, f, mi) => Message::AppendEntriesResponse(AppendEntriesResponse {
            term: *t,
            success: *s,
            follower_id: f.to_string(),
            match_index: *mi,
            used_fast_path: false,
        }),
        M::Tn(t, l) => Message::TimeoutNow(TimeoutNow { term: *t, leader_id: l.to_string() }),
    }
}

fn from_real(m: &Message) -> Option<M> {
    let id = |s: &String| s.parse::<u64>().unwrap_or(999);
    Some(match m {
        Message::RequestVote(r) => M::Rv(r.term, id(&r.candidate_id), r.last_log_index, r.last_log_term),
        Message::RequestVoteResponse(r) => M::Rvr(r.term, r.vote_granted, id(&r.voter_id)),
        Message::PreVote(r) => M::Pv(r.term, id(&r.candidate_id), r.last_log_index, r.last_log_term),
        Message::PreVoteResponse(r) => M::Pvr(r.term, r.vote_granted, id(&r.voter_id)),
        Message::AppendEntries(a) => M::Ae(
            a.term,
            id(&a.leader_id),
            a.prev_log_index,
            a.prev_log_term,
            a.leader_commit,
            a.entries.iter().map(|e| (e.term, e.block.header.height)).collect(),
        ),
        Message::AppendEntriesResponse(a) => M::Aer(a.term, a.success, id(&a.follower_id), a.match_index),
        Message::TimeoutNow(t) => M::Tn(t.term, id(&t.leader_id)),
        _ => return None,
    })
}

#[derive(Clone, Debug)]
enum Ev {
    Timeout(usize, bool),                      // node, direct election even when pre-vote is configured
    Deliver(usize, bool, bool),                // pool index, geo bit, timeout-elapsed bit
    Propose(usize, u64, bool),                 // node, payload, mark peers reachable first
    Replicate(usize, usize),
    Crash(usize),
    Inject(usize, usize, M, bool, bool),       // src dst msg geo elapsed (directed templates)
    /// leader `src` snapshots its committed prefix 1..=min(upto, commit) (finalize_to + create_snapshot) and
    /// follower `dst` installs it (install_snapshot), delivered at once
    Snap(usize, usize, u64),
}

struct Cfg {
    n: usize,
    pre_vote: bool,
    fast_path: bool,
    geo: bool,
    wal: bool,
}

struct Cluster {
    cfg: Cfg,
    nodes: Vec<Option<RaftNode>>,
    dir: Option<tempfile::TempDir>,
    hb_old: Vec<bool>,
    /// last_included_index of the snapshot each node installed since its last start (volatile in the node)
    snap_idx: Vec<u64>,
    pool: Vec<(usize, usize, M)>,
    // monitors
    leaders: BTreeMap<u64, u64>,                 // term -> leader id
    committed: BTreeMap<u64, (u64, u64)>,        // index -> (term,payload)
    committed_in: BTreeMap<u64, u64>,            // index -> term of the node that first reported it committed
    was_leader: Vec<(u64, bool)>,                // per node (term, is leader) last seen
}

fn raft_config(c: &Cfg) -> RaftConfig {
    RaftConfig {
        election_timeout: (5_000, 6_000),
        enable_fast_path: c.fast_path,
        enable_geometric_tiebreak: c.geo,
        enable_pre_vote: c.pre_vote,
        auto_heartbeat: false,
        ..RaftConfig::default()
    }
}

impl Cluster {
    fn peers(&self, i: usize) -> Vec<String> {
        (0..self.cfg.n).filter(|j| *j != i).map(|j| j.to_string()).collect()
    }
    fn make_node(&self, i: usize) -> RaftNode {
        self.try_make_node(i).expect("with_wal")
    }
    fn try_make_node(&self, i: usize) -> Result<RaftNode, String> {
        let tr = Arc::new(MemoryTransport::new(i.to_string()));
        let node = if let Some(d) = &self.dir {
            RaftNode::with_wal(i.to_string(), self.peers(i), tr, raft_config(&self.cfg), d.path().join(format!("n{i}.wal")))
                .map_err(|e| format!("{e:?}"))?
        } else {
            RaftNode::new(i.to_string(), self.peers(i), tr, raft_config(&self.cfg))
        };
        node.update_state_embedding(emb(true));
        Ok(node)
    }
    fn new(cfg: Cfg) -> Cluster {
        let dir = if cfg.wal { Some(tempfile::tempdir().unwrap()) } else { None };
        let n = cfg.n;
        let mut c = Cluster {
            cfg,
            nodes: vec![],
            dir,
            hb_old: vec![false; n],
            snap_idx: vec![0; n],
            pool: vec![],
            leaders: BTreeMap::new(),
            committed: BTreeMap::new(),
            committed_in: BTreeMap::new(),
            was_leader: vec![(0, false); n],
        };
        for i in 0..n {
            let nd = c.make_node(i);
            c.nodes.push(Some(nd));
        }
        c
    }
    fn node(&self, i: usize) -> &RaftNode {
        self.nodes[i].as_ref().unwrap()
    }
    fn push(&mut self, src: usize, dst: usize, m: M) {
        self.pool.push((src, dst, m));
    }
    fn broadcast(&mut self, src: usize, m: &M) {
        for j in 0..self.cfg.n {
            if j != src {
                self.push(src, j, m.clone());
            }
        }
    }
}

/// parse "t=.. v=.. r=.. l=.. c=.. pv=.. log=.. ..." into a map
fn fields(s: &str) -> BTreeMap<String, String> {
    s.split(' ')
        .filter_map(|kv| kv.split_once('='))
        .map(|(k, v)| (k.to_string(), v.to_string()))
        .collect()
}
fn parse_log(s: &str) -> Vec<(u64, u64)> {
    if s == "-" {
        return vec![];
    }
    s.split(',')
        .filter_map(|e| e.split_once(':'))
        .map(|(a, p)| (a.parse().unwrap_or(0), p.parse().unwrap_or(0)))
        .collect()
}

struct Run<'a> {
    rep: &'a mut Report,
    model: &'a mut Model,
    /// false once model and implementation have diverged in this schedule: the real cluster keeps
    /// running under the monitors (search for a failing input), the model is no longer consulted
    model_on: bool,
}

impl Run<'_> {
    fn ask(&mut self, line: &str) -> Option<String> {
        if self.model_on {
            Some(self.model.ask(line))
        } else {
            None
        }
    }
}

/// Execute one event on the real cluster and the model; returns false when the
/// model and the implementation disagreed.
fn exec(cl: &mut Cluster, ev: &Ev, run: &mut Run, trace: &mut Vec<String>, stream: &str) -> bool {
    let mut ok = true;
    let cmp = |run: &mut Run, what: &str, imp: &str, model: &Option<String>, trace: &Vec<String>| {
        let Some(model) = model else { return true };
        if imp != model {
            run.rep.disagree(stream, json!({"at": what, "trace_tail": trace.iter().rev().take(12).rev().collect::<Vec<_>>()}), imp, model);
            false
        } else {
            true
        }
    };
    match ev {
        Ev::Timeout(i, direct) => {
            let i = *i;
            if cl.cfg.pre_vote && !*direct {
                cl.node(i).start_pre_vote();
                let nd = cl.node(i);
                let m = M::Pv(nd.current_term(), i as u64, nd.last_log_index(), nd.last_log_term());
                let line = format!("prevote {i}");
                trace.push(line.clone());
                let ans = run.ask(&line);
                ok &= cmp(run, &line, &format!("{} || {}", m.text(), nd.verif_dump()), &ans, trace);
                cl.broadcast(i, &m);
                run.rep.hit("ev.prevote");
            } else {
                cl.node(i).start_election();
                let nd = cl.node(i);
                let m = M::Rv(nd.current_term(), i as u64, nd.last_log_index(), nd.last_log_term());
                let line = format!("timeout {i}");
                trace.push(line.clone());
                let ans = run.ask(&line);
                ok &= cmp(run, &line, &format!("{} || {}", m.text(), nd.verif_dump()), &ans, trace);
                cl.broadcast(i, &m);
                run.rep.hit("ev.election");
            }
        }
        Ev::Deliver(..) | Ev::Inject(..) => {
            let (src, dst, m, geo, mut elapsed) = match ev {
                Ev::Deliver(k, g, e) => {
                    if cl.pool.is_empty() {
                        return true;
                    }
                    let (s, d, m) = cl.pool[*k % cl.pool.len()].clone();
                    (s, d, m, *g, *e)
                }
                Ev::Inject(s, d, m, g, e) => (*s, *d, m.clone(), *g, *e),
                _ => unreachable!(),
            };
            // "election timeout elapsed" is wall-clock state in the real node: it is true once
            // reset_heartbeat_for_election() was called and stays so until a vote grant / valid AE.
            if let M::Pv(..) = m {
                if elapsed {
                    cl.node(dst).reset_heartbeat_for_election();
                    cl.hb_old[dst] = true;
                } else if cl.hb_old[dst] {
                    elapsed = true;
                }
            }
            let real = to_real(&m, geo);
            let term_before = cl.node(dst).current_term();
            let reply = cl.node(dst).handle_message(&src.to_string(), &real);
            let reply_m = reply.as_ref().and_then(from_real);
            let line = format!("deliver {src} {dst} 1 {} {} {}", b(geo), b(elapsed), m.text());
            trace.push(line.clone());
            let ans = run.ask(&line);
            let nd = cl.node(dst);
            // a pre-vote response / TimeoutNow may start a real election inside the handler: the
            // sync API discards the RequestVote, so rebuild it from the node's state as the async path does
            let mut imp_reply = reply_m.as_ref().map_or("none".to_string(), M::text);
            let mut started: Option<M> = None;
            if matches!(m, M::Pvr(..) | M::Tn(..)) && nd.current_term() == term_before + 1 && nd.state() == tensor_chain::raft::RaftState::Candidate {
                let rv = M::Rv(nd.current_term(), dst as u64, nd.last_log_index(), nd.last_log_term());
                imp_reply = rv.text();
                started = Some(rv);
            }
            ok &= cmp(run, &line, &format!("{} || {}", imp_reply, nd.verif_dump()), &ans, trace);
            run.rep.hit(&format!("deliver.{}", m.kind()));
            match &reply_m {
                Some(M::Rvr(_, true, _)) => {
                    cl.hb_old[dst] = false;
                    run.rep.hit("vote.granted");
                }
                Some(M::Rvr(_, false, _)) => run.rep.hit("vote.denied"),
                Some(M::Aer(t, s, _, _)) => {
                    if let M::Ae(at, ..) = &m {
                        if at == t {
                            cl.hb_old[dst] = false;
                        }
                    }
                    run.rep.hit(if *s { "ae.success" } else { "ae.reject" });
                }
                Some(M::Pvr(_, g, _)) => run.rep.hit(if *g { "prevote.granted" } else { "prevote.denied" }),
                _ => {}
            }
            if let Some(r) = reply_m {
                cl.push(dst, src, r);
            }
            if let Some(rv) = started {
                cl.broadcast(dst, &rv);
            }
        }
        Ev::Propose(i, payload, mark) => {
            let i = *i;
            if *mark {
                for p in cl.peers(i) {
                    cl.node(i).quorum_tracker().mark_reachable(&p);
                }
            }
            let allowed = cl.node(i).is_write_safe();
            let r = cl.node(i).propose(block(*payload));
            let line = format!("propose {i} {payload} {}", b(allowed));
            trace.push(line.clone());
            let ans = run.ask(&line);
            let imp = match &r {
                Ok(k) => format!("idx {k}"),
                Err(_) => "none".to_string(),
            };
            ok &= cmp(run, &line, &format!("{} || {}", imp, cl.node(i).verif_dump()), &ans, trace);
            run.rep.hit(if r.is_ok() { "propose.ok" } else { "propose.refused" });
        }
        Ev::Replicate(i, j) => {
            let (i, j) = (*i, *j);
            let nd = cl.node(i);
            let imp = if nd.is_leader() {
                let (pi, pt, es, _) = nd.get_entries_for_follower(&j.to_string());
                Some(M::Ae(
                    nd.current_term(),
                    i as u64,
                    pi,
                    pt,
                    nd.commit_index(),
                    es.iter().map(|e| (e.term, e.block.header.height)).collect(),
                ))
            } else {
                None
            };
            let line = format!("aefor {i} {j}");
            trace.push(line.clone());
            let ans = run.ask(&line);
            ok &= cmp(run, &line, &imp.as_ref().map_or("none".to_string(), M::text), &ans, trace);
            if let Some(m) = imp {
                run.rep.hit(if matches!(&m, M::Ae(_, _, _, _, _, es) if es.is_empty()) { "ae.heartbeat" } else { "ae.entries" });
                cl.push(i, j, m);
            }
        }
        Ev::Crash(i) => {
            let i = *i;
            if cl.dir.is_none() {
                return true;
            }
            let before = fields(&cl.node(i).verif_dump());
            let held = before["log"].clone();
            let (held_term, held_vote) = (before["t"].clone(), before["v"].clone());
            cl.nodes[i] = None; // drop: closes the WAL
            // A crash can also cut an append that was in flight: part of the next record's frame is then left at
            // the end of the file — 1..7 bytes (inside the 8-byte header) or a whole header and part of the
            // payload.  The node never acted on that record, so the state it held is still the durable state;
            // the restart has to cut the torn tail (open truncates the file to its last complete frame), or
            // whatever it appends next is unreadable at the restart after that.  Chosen from the position in the
            // trace, so a run replays.
            if let Some(d) = &cl.dir {
                let torn: &[u8] = match (trace.len() + i) % 4 {
                    1 => &[0x2a, 0, 0, 0, 0x11][..(trace.len() % 5) + 1],
                    2 => &[0x2a, 0, 0, 0, 0x11, 0x22, 0x33],
                    3 => &[64, 0, 0, 0, 1, 2, 3, 4, 9, 9, 9, 9, 9],
                    _ => &[],
                };
                if !torn.is_empty() {
                    use std::io::Write;
                    let mut f = std::fs::OpenOptions::new().append(true).open(d.path().join(format!("n{i}.wal"))).expect("wal file");
                    f.write_all(torn).expect("torn tail");
                    run.rep.hit(if torn.len() < 8 { "ev.crash.torn_header" } else { "ev.crash.torn_payload" });
                }
            }
            let line = format!("crash {i}");
            let nd = match cl.try_make_node(i) {
                Ok(nd) => nd,
                Err(e) => {
                    // the node cannot come back from the WAL it wrote itself: everything it had promised (term,
                    // vote, acknowledged entries) is gone with it.  The schedule ends here.
                    trace.push(line);
                    run.rep.violation(
                        "tensor_chain.raft/restart_refuses_own_wal",
                        &format!("node {i} (term {held_term}, vote {held_vote}, log {held}) cannot restart from the WAL it wrote: {}", e.chars().take(160).collect::<String>()),
                        json!({"n": cl.cfg.n, "pre_vote": cl.cfg.pre_vote, "geo": cl.cfg.geo, "fast_path": cl.cfg.fast_path, "wal": cl.cfg.wal, "events": trace}),
                    );
                    let tr = Arc::new(MemoryTransport::new(i.to_string()));
                    cl.nodes[i] = Some(RaftNode::new(i.to_string(), cl.peers(i), tr, raft_config(&cl.cfg)));
                    return false;
                }
            };
            cl.nodes[i] = Some(nd);
            cl.hb_old[i] = false;
            cl.snap_idx[i] = 0;
            trace.push(line.clone());
            // durable state = held state: every entry the node held (and may have acknowledged) went to
            // the WAL before it was held, so a restart recovers exactly the log the node had in memory
            let recovered = fields(&cl.node(i).verif_dump())["log"].clone();
            if recovered != held {
                run.rep.violation(
                    "tensor_chain.raft/restart_log_differs_from_held_log",
                    &format!("node {i} held log {held} before the crash, restarted from its WAL with {recovered}"),
                    json!({"n": cl.cfg.n, "pre_vote": cl.cfg.pre_vote, "geo": cl.cfg.geo, "fast_path": cl.cfg.fast_path, "wal": cl.cfg.wal, "events": trace}),
                );
            }
            // the same for the term and the vote: both are written to the WAL before the node acts on them, so a
            // restart comes back in the term it was in with the vote it had cast (a forgotten vote is a second
            // vote in that term: two leaders)
            let after = fields(&cl.node(i).verif_dump());
            if after["t"] != held_term || after["v"] != held_vote {
                run.rep.violation(
                    "tensor_chain.raft/restart_forgets_term_or_vote",
                    &format!("node {i} was in term {held_term} with vote {held_vote} before the crash, restarted from its WAL in term {} with vote {}", after["t"], after["v"]),
                    json!({"n": cl.cfg.n, "pre_vote": cl.cfg.pre_vote, "geo": cl.cfg.geo, "fast_path": cl.cfg.fast_path, "wal": cl.cfg.wal, "events": trace}),
                );
            }
            let ans = run.ask(&line);
            ok &= cmp(run, &line, &format!("ok || {}", cl.node(i).verif_dump()), &ans, trace);
            run.rep.hit("ev.crash");
        }
        Ev::Snap(src, dst, upto) => {
            let (src, dst) = (*src, *dst);
            if src == dst {
                return true;
            }
            let (s, d) = (cl.node(src), cl.node(dst));
            let k = (*upto).min(s.commit_index());
            let sl = parse_log(&fields(&s.verif_dump())["log"]);
            let dl = parse_log(&fields(&d.verif_dump())["log"]);
            // A snapshot is what the leader of the follower's current term ships to a follower that lacks
            // the snapshot's last entry (it is behind, or holds a divergent suffix there). install_snapshot
            // itself checks neither the sender's term nor the receiver's role and keeps no suffix: a
            // snapshot delivered late / to a node of another term is outside this event (see the note).
            if !s.is_leader()
                || k == 0
                || d.state() != tensor_chain::raft::RaftState::Follower
                || d.current_term() != s.current_term()
                || dl.get(k as usize - 1) == sl.get(k as usize - 1)
            {
                run.rep.hit("snap.skipped");
                return true;
            }
            let fresh = k > cl.snap_idx[dst];
            let peers = cl.peers(dst);
            let r = s.finalize_to(k).and_then(|()| s.create_snapshot()).and_then(|(mut meta, data)| {
                // fixed membership: the receiver's peer list stays its own (the sender's `config` is the
                // sender's peer list, which names the receiver and omits the sender)
                meta.config = peers;
                d.install_snapshot(meta, &data)
            });
            let line = format!("snap {src} {dst} {k} {}", b(fresh));
            trace.push(line.clone());
            let ans = run.ask(&line);
            let dump = cl.node(dst).verif_dump();
            ok &= cmp(run, &line, &format!("{} || {}", if r.is_ok() { "ok" } else { "refused" }, dump), &ans, trace);
            run.rep.hit(if r.is_ok() { "snap.installed" } else { "snap.refused" });
            if r.is_ok() {
                cl.snap_idx[dst] = k;
                if dl.len() as u64 > k || dl.iter().zip(sl.iter()).take(k as usize).any(|(x, y)| x != y) {
                    run.rep.hit("snap.over_divergent_or_longer_log");
                }
                let now = parse_log(&fields(&dump)["log"]);
                if now[..] != sl[..k as usize] {
                    run.rep.violation(
                        "tensor_chain.raft/snapshot_install_log",
                        &format!("node {dst} installed the snapshot 1..={k} of node {src} and holds {now:?}"),
                        json!({"n": cl.cfg.n, "pre_vote": cl.cfg.pre_vote, "geo": cl.cfg.geo, "fast_path": cl.cfg.fast_path, "wal": cl.cfg.wal, "events": trace}),
                    );
                }
            }
        }
    }
    ok
}

/// Safety monitors on the real cluster (implementation-vs-property oracles).
fn monitors(cl: &mut Cluster, rep: &mut Report, trace: &[String]) -> bool {
    let mut fine = true;
    let dumps: Vec<BTreeMap<String, String>> = (0..cl.cfg.n).map(|i| fields(&cl.node(i).verif_dump())).collect();
    let logs: Vec<Vec<(u64, u64)>> = dumps.iter().map(|d| parse_log(&d["log"])).collect();
    let tail = || json!({"n": cl.cfg.n, "pre_vote": cl.cfg.pre_vote, "geo": cl.cfg.geo, "fast_path": cl.cfg.fast_path, "wal": cl.cfg.wal, "events": trace});
    for (i, d) in dumps.iter().enumerate() {
        let term: u64 = d["t"].parse().unwrap_or(0);
        if d.contains_key("INDEX-MISMATCH") {
            rep.violation("tensor_chain.raft/log_index_field_mismatch", "entry.index != position+1", tail());
            fine = false;
        }
        let is_leader = d["r"] == "L";
        if is_leader {
            match cl.leaders.get(&term) {
                Some(&l) if l != i as u64 => {
                    rep.violation("tensor_chain.raft/election_safety", &format!("two leaders in term {term}: {l} and {i}"), tail());
                    fine = false;
                }
                _ => {
                    cl.leaders.insert(term, i as u64);
                }
            }
            // leader completeness: a node that is (or becomes) leader holds every entry that was reported
            // committed by a node whose term was not above the leader's (a stale candidate of an OLDER term
            // may still win its election late and legitimately lacks entries committed in later terms)
            let newly = cl.was_leader[i] != (term, true);
            if newly {
                for (idx, e) in &cl.committed {
                    if cl.committed_in.get(idx).copied().unwrap_or(0) > term {
                        continue;
                    }
                    if logs[i].get(*idx as usize - 1) != Some(e) {
                        rep.violation(
                            "tensor_chain.raft/leader_completeness",
                            &format!("leader {i} of term {term} lacks committed entry {idx}={e:?}"),
                            tail(),
                        );
                        fine = false;
                        break;
                    }
                }
            }
        }
        cl.was_leader[i] = (term, is_leader);
        // state machine safety
        let commit: u64 = d["c"].parse().unwrap_or(0);
        for idx in 1..=commit {
            let Some(e) = logs[i].get(idx as usize - 1) else {
                rep.violation("tensor_chain.raft/commit_beyond_log", &format!("node {i} commit {commit} > log len"), tail());
                fine = false;
                break;
            };
            match cl.committed.get(&idx) {
                Some(prev) if prev != e => {
                    rep.violation(
                        "tensor_chain.raft/state_machine_safety",
                        &format!("index {idx}: {prev:?} committed earlier, node {i} commits {e:?}"),
                        tail(),
                    );
                    fine = false;
                }
                Some(_) => {}
                None => {
                    cl.committed.insert(idx, *e);
                    cl.committed_in.insert(idx, term);
                }
            }
        }
    }
    // log matching
    for i in 0..cl.cfg.n {
        for j in i + 1..cl.cfg.n {
            let m = logs[i].len().min(logs[j].len());
            for k in (0..m).rev() {
                if logs[i][k].0 == logs[j][k].0 {
                    if logs[i][..=k] != logs[j][..=k] {
                        rep.violation("tensor_chain.raft/log_matching", &format!("nodes {i},{j} agree on term at {} but differ earlier", k + 1), tail());
                        fine = false;
                    }
                    break;
                }
            }
        }
    }
    fine
}

/// `part`: network partition in force (group of each node); a message crosses only inside a group
fn gen_event(r: &mut Rng, cl: &Cluster, next_payload: &mut u64, part: Option<&[u8]>) -> Ev {
    let n = cl.cfg.n;
    if let Some(g) = part {
        // deliver only messages whose endpoints are on the same side; elections and proposals anywhere
        let ok: Vec<usize> = (0..cl.pool.len()).filter(|k| g[cl.pool[*k].0] == g[cl.pool[*k].1]).collect();
        let x = r.below(100);
        if x < 55 && !ok.is_empty() {
            let k = if r.chance(7, 10) { ok[ok.len() - 1 - r.below(ok.len().min(6) as u64) as usize] } else { *r.pick(&ok) };
            return Ev::Deliver(k, r.chance(4, 5), r.chance(3, 5));
        }
    }
    let leaders: Vec<usize> = (0..n).filter(|i| cl.node(*i).is_leader()).collect();
    let x = r.below(100);
    // no leader: mostly elect; leader present: mostly replicate / propose / deliver
    let (p_deliver, p_timeout, p_propose, p_repl) = if leaders.is_empty() { (70, 92, 94, 96) } else { (48, 52, 68, 96) };
    if x < p_deliver && !cl.pool.is_empty() {
        let k = if r.chance(7, 10) {
            cl.pool.len() - 1 - r.below(cl.pool.len().min(6) as u64) as usize
        } else {
            r.below(cl.pool.len() as u64) as usize
        };
        Ev::Deliver(k, r.chance(4, 5), r.chance(3, 5))
    } else if x < p_timeout {
        Ev::Timeout(r.below(n as u64) as usize, r.chance(1, 4))
    } else if x < p_propose {
        let i = if !leaders.is_empty() && r.chance(9, 10) { *r.pick(&leaders) } else { r.below(n as u64) as usize };
        *next_payload += 1;
        Ev::Propose(i, *next_payload, r.chance(9, 10))
    } else if x < p_repl && !leaders.is_empty() && r.chance(1, 6) {
        // the leader ships a snapshot of (part of) its committed prefix to some other node
        let i = *r.pick(&leaders);
        let mut j = r.below(n as u64) as usize;
        if j == i {
            j = (j + 1) % n;
        }
        let c = cl.node(i).commit_index().max(1);
        Ev::Snap(i, j, 1 + r.below(c))
    } else if x < p_repl {
        let i = if !leaders.is_empty() && r.chance(9, 10) { *r.pick(&leaders) } else { r.below(n as u64) as usize };
        let mut j = r.below(n as u64) as usize;
        if j == i {
            j = (j + 1) % n;
        }
        Ev::Replicate(i, j)
    } else if cl.cfg.wal {
        Ev::Crash(r.below(n as u64) as usize)
    } else {
        Ev::Timeout(r.below(n as u64) as usize, true)
    }
}

fn init_line(c: &Cfg) -> String {
    format!("init {} {} 1 10", c.n, b(c.geo))
}

/// The history a snapshot install has to survive (A=0 has the WAL and restarts, B=1, C=2; 3 voters):
/// A leads term 1 and commits `a` entries everywhere, then accepts `d` more that nobody else ever sees;
/// B is elected in term 2 by C and commits `m` entries of its own at the same positions; A learns of
/// term 2; B ships a snapshot of its committed prefix 1..=k to A (over A's divergent suffix when
/// a < k and d > 0), then `rounds` AppendEntries exchanges put the rest of B's log on top; A crashes and
/// restarts from its WAL, is elected in term 3 by C and commits an entry of its own.
fn snap_shape(a: u64, d: u64, m: u64, k: u64, rounds: usize, crash: bool, payload: &mut u64) -> Vec<Ev> {
    fn elect(x: usize, evs: &mut Vec<Ev>) {
        evs.push(Ev::Timeout(x, true)); // RequestVote to both peers; the pool's newest is the one to C (or B)
        evs.push(Ev::Deliver(usize::MAX, true, true));
        evs.push(Ev::Deliver(usize::MAX, true, true));
    }
    fn round(i: usize, j: usize, evs: &mut Vec<Ev>) {
        evs.push(Ev::Replicate(i, j));
        evs.push(Ev::Deliver(usize::MAX, true, true));
        evs.push(Ev::Deliver(usize::MAX, true, true));
    }
    let mut next = || {
        *payload += 1;
        *payload
    };
    let mut evs = vec![];
    elect(0, &mut evs); // A leader of term 1 (C's vote)
    for _ in 0..a {
        evs.push(Ev::Propose(0, next(), true));
    }
    for _ in 0..2 {
        round(0, 1, &mut evs); // append + commit, then the commit index reaches the followers
        round(0, 2, &mut evs);
    }
    for _ in 0..d {
        evs.push(Ev::Propose(0, next(), true)); // A only: never replicated
    }
    elect(1, &mut evs); // B leader of term 2 (C's vote)
    for _ in 0..m {
        evs.push(Ev::Propose(1, next(), true));
    }
    round(1, 2, &mut evs); // C appends, B commits a+m
    round(1, 2, &mut evs);
    evs.push(Ev::Inject(1, 0, M::Rv(2, 1, a, 1), true, true)); // B's RequestVote reaches A late: A steps down into term 2
    evs.push(Ev::Snap(1, 0, k));
    for _ in 0..rounds {
        round(1, 0, &mut evs);
    }
    if crash {
        evs.push(Ev::Crash(0));
    }
    elect(0, &mut evs); // A leader of term 3 (C's vote) if its log is as up to date as C's
    evs.push(Ev::Propose(0, next(), true));
    round(0, 2, &mut evs);
    round(0, 2, &mut evs);
    round(0, 1, &mut evs);
    round(0, 1, &mut evs);
    evs
}

/// Directed templates: each is a full event script; they reproduce the two defects this
/// tree repaired (match_index = whole log; stale-term ack) if the fixes are reverted.
fn templates() -> Vec<(&'static str, Cfg, Vec<Ev>)> {
    let cfg3 = || Cfg { n: 3, pre_vote: false, fast_path: false, geo: false, wal: false };
    let cfg5 = || Cfg { n: 5, pre_vote: false, fast_path: false, geo: false, wal: false };
    let mut v = vec![];
    // T0: snapshot install on a WAL-backed follower, then restart from the WAL (see `snap_shape`): the
    // minimal history (snapshot over a divergent never-committed suffix, one entry on top, crash, election,
    // commit) and its neighbours (snapshot covering the whole log / ending inside the divergent suffix /
    // on a merely short log / without the restart / restart right after the install).
    for (name, a, d, m, k, rounds, crash) in [
        ("snapshot-over-divergent-suffix-then-restart", 1u64, 2u64, 3u64, 3u64, 1usize, true),
        ("snapshot-over-whole-divergent-log-then-restart", 1, 2, 3, 4, 1, true),
        ("snapshot-inside-divergent-suffix-then-restart", 1, 3, 3, 2, 2, true),
        ("snapshot-on-short-log-then-restart", 2, 0, 3, 4, 1, true),
        ("snapshot-over-divergent-suffix-no-restart", 1, 2, 3, 3, 1, false),
        ("snapshot-over-divergent-suffix-restart-before-entries", 1, 2, 2, 3, 0, true),
    ] {
        let mut p = 100;
        v.push((name, Cfg { n: 3, pre_vote: false, fast_path: false, geo: false, wal: true }, snap_shape(a, d, m, k, rounds, crash, &mut p)));
    }
    // T1: stale suffix on C acknowledged on an empty heartbeat.
    v.push((
        "stale-suffix-ack",
        cfg3(),
        vec![
            Ev::Timeout(2, true),                                  // C candidate term 1
            Ev::Inject(2, 1, M::Rv(1, 2, 0, 0), true, true),       // B votes for C
            Ev::Inject(1, 2, M::Rvr(1, true, 1), true, true),      // C leader term 1
            Ev::Propose(2, 101, true),
            Ev::Propose(2, 102, true),                             // C: [1:101,1:102] local only
            Ev::Timeout(0, true),                                  // A candidate term 1 -> 1? no: A term 0 -> 1
            Ev::Timeout(0, true),                                  // A term 2
            Ev::Inject(0, 1, M::Rv(2, 0, 0, 0), true, true),       // B votes for A in term 2
            Ev::Inject(1, 0, M::Rvr(2, true, 1), true, true),      // A leader term 2
            Ev::Replicate(0, 2),                                   // heartbeat prev=0, no entries
            Ev::Deliver(usize::MAX, true, true),                   // -> C replies (pool last)
            Ev::Deliver(usize::MAX, true, true),                   // -> A processes C's reply
            Ev::Propose(0, 201, true),
            Ev::Propose(0, 202, true),
            Ev::Replicate(0, 2),
            Ev::Deliver(usize::MAX, true, true),
            Ev::Deliver(usize::MAX, true, true),
            Ev::Replicate(0, 1),
            Ev::Timeout(2, true),                                  // C term 3
            Ev::Inject(2, 1, M::Rv(3, 2, 2, 1), true, true),
        ],
    ));
    // T2: success ack from term 1 delivered to the same node re-elected in term 3 (5 nodes).
    v.push((
        "stale-term-ack",
        cfg5(),
        vec![
            Ev::Timeout(0, true),                                   // A term 1
            Ev::Inject(0, 1, M::Rv(1, 0, 0, 0), true, true),
            Ev::Inject(0, 2, M::Rv(1, 0, 0, 0), true, true),
            Ev::Inject(1, 0, M::Rvr(1, true, 1), true, true),
            Ev::Inject(2, 0, M::Rvr(1, true, 2), true, true),       // A leader term 1
            Ev::Propose(0, 11, true),
            Ev::Propose(0, 12, true),                               // A: [1:11,1:12]
            Ev::Inject(0, 1, M::Ae(1, 0, 0, 0, 0, vec![(1, 11), (1, 12)]), true, true), // B appends; ack(t1,match 2) stays in pool
            Ev::Timeout(2, true),                                   // C term 2
            Ev::Inject(2, 3, M::Rv(2, 2, 0, 0), true, true),
            Ev::Inject(2, 4, M::Rv(2, 2, 0, 0), true, true),
            Ev::Inject(3, 2, M::Rvr(2, true, 3), true, true),
            Ev::Inject(4, 2, M::Rvr(2, true, 4), true, true),       // C leader term 2
            Ev::Propose(2, 21, true),                               // C: [2:21]
            Ev::Inject(2, 1, M::Ae(2, 2, 0, 0, 0, vec![(2, 21)]), true, true), // B truncates -> [2:21]
            Ev::Inject(2, 0, M::Ae(2, 2, 0, 0, 0, vec![(2, 21)]), true, true), // A truncates -> [2:21]
            Ev::Inject(2, 4, M::Ae(2, 2, 0, 0, 0, vec![(2, 21)]), true, true), // E appends -> [2:21]
            Ev::Timeout(0, true),                                   // A term 3
            Ev::Inject(0, 3, M::Rv(3, 0, 1, 2), true, true),
            Ev::Inject(0, 4, M::Rv(3, 0, 1, 2), true, true),
            Ev::Inject(3, 0, M::Rvr(3, true, 3), true, true),
            Ev::Inject(4, 0, M::Rvr(3, true, 4), true, true),       // A leader term 3 with [2:21]
            Ev::Propose(0, 31, true),                               // A: [2:21,3:31]
            Ev::Inject(1, 0, M::Aer(1, true, 1, 2), true, true),    // STALE ack from term 1
            Ev::Inject(0, 3, M::Ae(3, 0, 1, 2, 0, vec![(3, 31)]), true, true), // D lacks idx1 -> reject
            Ev::Inject(0, 3, M::Ae(3, 0, 0, 0, 0, vec![(2, 21), (3, 31)]), true, true),
            Ev::Inject(3, 0, M::Aer(3, true, 3, 2), true, true),    // real ack from D: with the stale B ack that is 3/5
            Ev::Timeout(4, true),                                   // E term 4, log [2:21]
            Ev::Inject(4, 1, M::Rv(4, 4, 1, 2), true, true),
            Ev::Inject(4, 2, M::Rv(4, 4, 1, 2), true, true),
            Ev::Inject(1, 4, M::Rvr(4, true, 1), true, true),
            Ev::Inject(2, 4, M::Rvr(4, true, 2), true, true),       // E leader of term 4 without entry 2
        ],
    ));
    // T3: split election; the voter hears the winner's first heartbeat, THEN the loser's delayed
    // RequestVote of the same term. A voter that forgets its vote when it accepts an AppendEntries
    // of its current term grants a second vote: two leaders in one term.
    for (name, cfg, rv, hb_entries) in [
        ("late-vote-request-after-heartbeat", cfg3(), M::Rv(1, 1, 0, 0), vec![]),
        ("late-vote-request-after-append", cfg3(), M::Rv(1, 1, 0, 0), vec![(1u64, 71u64)]),
        ("late-better-vote-request-after-heartbeat", cfg3(), M::Rv(1, 1, 5, 1), vec![]),
    ] {
        let mut evs = vec![
            Ev::Timeout(0, true),                                   // A candidate term 1
            Ev::Timeout(1, true),                                   // B candidate term 1
            Ev::Inject(0, 2, M::Rv(1, 0, 0, 0), true, true),        // C votes for A
            Ev::Inject(2, 0, M::Rvr(1, true, 2), true, true),       // A leader term 1
        ];
        if !hb_entries.is_empty() {
            evs.push(Ev::Propose(0, 71, true));
        }
        evs.push(Ev::Inject(0, 2, M::Ae(1, 0, 0, 0, 0, hb_entries), true, true)); // C accepts, same term
        evs.push(Ev::Inject(1, 2, rv, true, true));                 // B's delayed RequestVote reaches C
        evs.push(Ev::Deliver(usize::MAX, true, true));              // C's real answer goes to B
        evs.push(Ev::Propose(1, 72, true));                         // if B became leader it now diverges
        evs.push(Ev::Replicate(1, 2));
        evs.push(Ev::Deliver(usize::MAX, true, true));
        evs.push(Ev::Deliver(usize::MAX, true, true));
        v.push((name, cfg, evs));
    }
    // T5 ("Figure 8" of the Raft paper): an entry of an OLD term stored on a quorum must not be
    // committed by counting replicas; only an entry of the leader's current term commits. S1..S5 = 0..4.
    v.push((
        "figure8-old-term-entry-on-quorum",
        cfg5(),
        vec![
            Ev::Timeout(0, true),                                   // S1 candidate term 1
            Ev::Inject(0, 1, M::Rv(1, 0, 0, 0), true, true),
            Ev::Inject(0, 2, M::Rv(1, 0, 0, 0), true, true),
            Ev::Inject(1, 0, M::Rvr(1, true, 1), true, true),
            Ev::Inject(2, 0, M::Rvr(1, true, 2), true, true),       // S1 leader term 1
            Ev::Propose(0, 11, true),                               // S1: [1:11]
            Ev::Replicate(0, 1),
            Ev::Deliver(usize::MAX, true, true),                    // S2 appends [1:11]
            Ev::Deliver(usize::MAX, true, true),                    // S1 hears the ack: 2 of 5
            Ev::Timeout(4, true),                                   // S5 term 1
            Ev::Timeout(4, true),                                   // S5 term 2
            Ev::Inject(4, 2, M::Rv(2, 4, 0, 0), true, true),
            Ev::Inject(4, 3, M::Rv(2, 4, 0, 0), true, true),
            Ev::Inject(2, 4, M::Rvr(2, true, 2), true, true),
            Ev::Inject(3, 4, M::Rvr(2, true, 3), true, true),       // S5 leader term 2
            Ev::Propose(4, 22, true),                               // S5: [2:22], nowhere else
            Ev::Inject(4, 0, M::Rv(2, 4, 0, 0), true, true),        // S1 learns term 2, steps down, refuses
            Ev::Timeout(0, true),                                   // S1 candidate term 3
            Ev::Inject(0, 1, M::Rv(3, 0, 1, 1), true, true),
            Ev::Inject(0, 2, M::Rv(3, 0, 1, 1), true, true),
            Ev::Inject(1, 0, M::Rvr(3, true, 1), true, true),
            Ev::Inject(2, 0, M::Rvr(3, true, 2), true, true),       // S1 leader term 3 with [1:11]
            Ev::Replicate(0, 2),
            Ev::Deliver(usize::MAX, true, true),                    // S3 lacks index 1: refuses
            Ev::Deliver(usize::MAX, true, true),
            Ev::Replicate(0, 2),
            Ev::Deliver(usize::MAX, true, true),                    // S3 appends [1:11]
            Ev::Deliver(usize::MAX, true, true),                    // ack
            Ev::Replicate(0, 1),
            Ev::Deliver(usize::MAX, true, true),
            Ev::Deliver(usize::MAX, true, true),                    // [1:11] now on S1,S2,S3 — NOT committable in term 3
            Ev::Inject(0, 4, M::Rv(3, 0, 1, 1), true, true),        // S5 learns term 3, refuses (its log is newer)
            Ev::Timeout(4, true),                                   // S5 candidate term 4
            Ev::Inject(4, 1, M::Rv(4, 4, 1, 2), true, true),
            Ev::Inject(4, 2, M::Rv(4, 4, 1, 2), true, true),
            Ev::Inject(4, 3, M::Rv(4, 4, 1, 2), true, true),
            Ev::Inject(1, 4, M::Rvr(4, true, 1), true, true),
            Ev::Inject(2, 4, M::Rvr(4, true, 2), true, true),
            Ev::Inject(3, 4, M::Rvr(4, true, 3), true, true),       // S5 leader term 4 with [2:22]
            Ev::Propose(4, 44, true),                               // S5: [2:22, 4:44]
            Ev::Replicate(4, 1),
            Ev::Deliver(usize::MAX, true, true),                    // S2 holds 1:11 at index 1: refuses
            Ev::Deliver(usize::MAX, true, true),
            Ev::Replicate(4, 1),
            Ev::Deliver(usize::MAX, true, true),                    // S2 overwrites index 1
            Ev::Deliver(usize::MAX, true, true),
            Ev::Replicate(4, 2),
            Ev::Deliver(usize::MAX, true, true),
            Ev::Deliver(usize::MAX, true, true),
            Ev::Replicate(4, 2),
            Ev::Deliver(usize::MAX, true, true),
            Ev::Deliver(usize::MAX, true, true),                    // S5 commits index 2 (term 4): index 1 = 2:22
        ],
    ));
    // T6: a re-elected leader must start from a FRESH match_index: a stale entry from its first
    // leadership (a follower whose suffix has been overwritten since) must not count towards a quorum.
    v.push((
        "stale-match-index-after-reelection",
        cfg5(),
        vec![
            Ev::Timeout(0, true),                                   // n0 candidate term 1
            Ev::Inject(0, 1, M::Rv(1, 0, 0, 0), true, true),
            Ev::Inject(0, 2, M::Rv(1, 0, 0, 0), true, true),
            Ev::Inject(1, 0, M::Rvr(1, true, 1), true, true),
            Ev::Inject(2, 0, M::Rvr(1, true, 2), true, true),       // n0 leader term 1
            Ev::Propose(0, 101, true),
            Ev::Propose(0, 102, true),
            Ev::Propose(0, 103, true),                              // n0: [1:101,1:102,1:103]
            Ev::Replicate(0, 1),
            Ev::Deliver(usize::MAX, true, true),                    // n1 appends 3 entries
            Ev::Deliver(usize::MAX, true, true),                    // n0: match_index[n1] = 3
            Ev::Timeout(3, true),
            Ev::Timeout(3, true),                                   // n3 candidate term 2
            Ev::Inject(3, 2, M::Rv(2, 3, 0, 0), true, true),
            Ev::Inject(3, 4, M::Rv(2, 3, 0, 0), true, true),
            Ev::Inject(2, 3, M::Rvr(2, true, 2), true, true),
            Ev::Inject(4, 3, M::Rvr(2, true, 4), true, true),       // n3 leader term 2
            Ev::Propose(3, 201, true),                              // n3: [2:201]
            Ev::Replicate(3, 1),
            Ev::Deliver(usize::MAX, true, true),                    // n1 overwrites: [2:201]
            Ev::Deliver(usize::MAX, true, true),
            Ev::Replicate(3, 0),
            Ev::Deliver(usize::MAX, true, true),                    // n0 deposed, log -> [2:201]
            Ev::Deliver(usize::MAX, true, true),
            Ev::Timeout(0, true),                                   // n0 candidate term 3
            Ev::Inject(0, 2, M::Rv(3, 0, 1, 2), true, true),
            Ev::Inject(0, 4, M::Rv(3, 0, 1, 2), true, true),
            Ev::Inject(2, 0, M::Rvr(3, true, 2), true, true),
            Ev::Inject(4, 0, M::Rvr(3, true, 4), true, true),       // n0 leader term 3 again
            Ev::Propose(0, 301, true),
            Ev::Propose(0, 302, true),                              // n0: [2:201,3:301,3:302]
            Ev::Replicate(0, 2),
            Ev::Deliver(usize::MAX, true, true),
            Ev::Deliver(usize::MAX, true, true),
            Ev::Replicate(0, 2),
            Ev::Deliver(usize::MAX, true, true),
            Ev::Deliver(usize::MAX, true, true),                    // n2 holds 3 entries: 2 of 5 nodes, no commit
            Ev::Inject(0, 3, M::Rv(3, 0, 1, 2), true, true),        // n3 learns term 3
            Ev::Timeout(3, true),                                   // n3 candidate term 4
            Ev::Inject(3, 1, M::Rv(4, 3, 1, 2), true, true),
            Ev::Inject(3, 4, M::Rv(4, 3, 1, 2), true, true),
            Ev::Inject(1, 3, M::Rvr(4, true, 1), true, true),
            Ev::Inject(4, 3, M::Rvr(4, true, 4), true, true),       // n3 leader term 4 with [2:201]
            Ev::Propose(3, 401, true),                              // n3: [2:201,4:401]
            Ev::Replicate(3, 1),
            Ev::Deliver(usize::MAX, true, true),
            Ev::Deliver(usize::MAX, true, true),
            Ev::Replicate(3, 1),
            Ev::Deliver(usize::MAX, true, true),
            Ev::Deliver(usize::MAX, true, true),
            Ev::Replicate(3, 4),
            Ev::Deliver(usize::MAX, true, true),
            Ev::Deliver(usize::MAX, true, true),
            Ev::Replicate(3, 4),
            Ev::Deliver(usize::MAX, true, true),
            Ev::Deliver(usize::MAX, true, true),                    // n3 commits position 2 = 4:401
        ],
    ));
    // T7: an EMPTY AppendEntries (heartbeat) is subject to the same prev-index/term check as one that
    // carries entries: a follower holding an uncommitted entry of a deposed leader at the heartbeat's
    // prev index must refuse it, or it acknowledges and commits its own different entry. A=0 B=1 C=2.
    // Variant (a): the heartbeat is the real first message of a newly elected leader (next_index =
    // last+1, nothing to send); variant (b): the same heartbeat injected.
    for (name, real) in [("heartbeat-over-conflicting-entry", true), ("heartbeat-over-conflicting-entry-injected", false)] {
        let mut evs = vec![
            Ev::Timeout(0, true),                                   // A candidate term 1
            Ev::Inject(0, 1, M::Rv(1, 0, 0, 0), true, true),
            Ev::Inject(1, 0, M::Rvr(1, true, 1), true, true),       // A leader term 1
            Ev::Propose(0, 101, true),                              // A: [1:101]
            Ev::Replicate(0, 1),
            Ev::Deliver(usize::MAX, true, true),                    // B appends
            Ev::Deliver(usize::MAX, true, true),                    // A commits 1
            Ev::Replicate(0, 2),
            Ev::Deliver(usize::MAX, true, true),                    // C appends
            Ev::Deliver(usize::MAX, true, true),
            Ev::Propose(0, 102, true),                              // A: [1:101,1:102], index 2 nowhere else
            Ev::Timeout(2, true),                                   // C candidate term 2
            Ev::Inject(2, 1, M::Rv(2, 2, 1, 1), true, true),
            Ev::Inject(1, 2, M::Rvr(2, true, 1), true, true),       // C leader term 2
            Ev::Propose(2, 202, true),                              // C: [1:101,2:202]
            Ev::Replicate(2, 1),
            Ev::Deliver(usize::MAX, true, true),                    // B appends 2:202
            Ev::Deliver(usize::MAX, true, true),                    // C commits 2
            Ev::Replicate(2, 1),
            Ev::Deliver(usize::MAX, true, true),                    // B learns commit 2
            Ev::Deliver(usize::MAX, true, true),
        ];
        if real {
            evs.extend(vec![
                Ev::Timeout(1, true),                               // B candidate term 3
                Ev::Inject(1, 2, M::Rv(3, 1, 2, 2), true, true),
                Ev::Inject(2, 1, M::Rvr(3, true, 2), true, true),   // B leader term 3, next_index[A] = 3
                Ev::Replicate(1, 0),                                // heartbeat prev=(2, term 2), nothing to send
                Ev::Deliver(usize::MAX, true, true),                // A must refuse: it holds 1:102 at index 2
                Ev::Deliver(usize::MAX, true, true),
            ]);
        } else {
            evs.extend(vec![
                Ev::Inject(2, 0, M::Ae(2, 2, 2, 2, 2, vec![]), true, true), // heartbeat prev=(2, term 2), commit 2
                Ev::Deliver(usize::MAX, true, true),
            ]);
        }
        v.push((name, cfg3(), evs));
    }
    // T8: a candidate whose election timer fires AGAIN starts its next term with a fresh tally: a grant
    // collected in the previous term must not count towards the new term's quorum (5 voters: one stale
    // grant + self + one fresh grant would make 3 of 5 while the stale voter backs a rival). A..E = 0..4.
    v.push((
        "stale-vote-tally-after-election-retry",
        cfg5(),
        vec![
            Ev::Timeout(0, true),                                   // A candidate term 1
            Ev::Inject(0, 1, M::Rv(1, 0, 0, 0), true, true),        // B grants A in term 1
            Ev::Inject(1, 0, M::Rvr(1, true, 1), true, true),       // A's tally: {A, B}, no quorum
            Ev::Timeout(0, true),                                   // A's timer fires again: candidate term 2
            Ev::Timeout(3, true),
            Ev::Timeout(3, true),                                   // D candidate term 2
            Ev::Inject(3, 1, M::Rv(2, 3, 0, 0), true, true),        // B backs D in term 2
            Ev::Inject(3, 2, M::Rv(2, 3, 0, 0), true, true),        // C backs D
            Ev::Inject(1, 3, M::Rvr(2, true, 1), true, true),
            Ev::Inject(2, 3, M::Rvr(2, true, 2), true, true),       // D leader of term 2 (D, B, C)
            Ev::Inject(0, 4, M::Rv(2, 0, 0, 0), true, true),        // E backs A in term 2
            Ev::Inject(4, 0, M::Rvr(2, true, 4), true, true),       // A's tally must be {A, E}: 2 of 5
            Ev::Propose(0, 901, true),                              // if A became leader the logs now diverge
            Ev::Propose(3, 902, true),
        ],
    ));
    // the same with pre-vote configured (the retry goes through start_election directly)
    v.push((
        "stale-vote-tally-after-election-retry-prevote",
        Cfg { n: 5, pre_vote: true, fast_path: false, geo: false, wal: false },
        vec![
            Ev::Timeout(0, true),
            Ev::Inject(0, 1, M::Rv(1, 0, 0, 0), true, true),
            Ev::Inject(0, 2, M::Rv(1, 0, 0, 0), true, true),
            Ev::Inject(1, 0, M::Rvr(1, true, 1), true, true),       // A's tally: {A, B}
            Ev::Timeout(0, true),                                   // term 2
            Ev::Timeout(3, true),
            Ev::Timeout(3, true),
            Ev::Inject(3, 1, M::Rv(2, 3, 0, 0), true, true),
            Ev::Inject(3, 2, M::Rv(2, 3, 0, 0), true, true),
            Ev::Inject(1, 3, M::Rvr(2, true, 1), true, true),
            Ev::Inject(2, 3, M::Rvr(2, true, 2), true, true),       // D leader of term 2
            Ev::Inject(0, 4, M::Rv(2, 0, 0, 0), true, true),
            Ev::Inject(4, 0, M::Rvr(2, true, 4), true, true),
        ],
    ));
    // T4: the same with 5 voters: two disjoint pairs vote, the fifth voter hears the heartbeat first
    v.push((
        "late-vote-request-after-heartbeat-5",
        cfg5(),
        vec![
            Ev::Timeout(0, true),
            Ev::Timeout(1, true),
            Ev::Inject(0, 2, M::Rv(1, 0, 0, 0), true, true),        // C -> A
            Ev::Inject(1, 3, M::Rv(1, 1, 0, 0), true, true),        // D -> B
            Ev::Inject(0, 4, M::Rv(1, 0, 0, 0), true, true),        // E -> A
            Ev::Inject(2, 0, M::Rvr(1, true, 2), true, true),
            Ev::Inject(4, 0, M::Rvr(1, true, 4), true, true),       // A leader (A, C, E)
            Ev::Inject(3, 1, M::Rvr(1, true, 3), true, true),       // B has B, D
            Ev::Inject(0, 4, M::Ae(1, 0, 0, 0, 0, vec![]), true, true), // E hears A's heartbeat
            Ev::Inject(1, 4, M::Rv(1, 1, 0, 0), true, true),        // B's delayed RequestVote reaches E
            Ev::Deliver(usize::MAX, true, true),                    // E's real answer goes to B
        ],
    ));
    v
}

fn run_schedule(cfg: Cfg, events: Option<Vec<Ev>>, nev: usize, r: &mut Rng, rep: &mut Report, model: &mut Model, stream: &str) {
    let mut cl = Cluster::new(cfg);
    let mut trace: Vec<String> = vec![init_line(&cl.cfg)];
    model.ask(&trace[0]);
    let mut payload = if events.is_some() { 10_000u64 } else { 0 };
    let mut nontrivial = false;
    let mut all_ok = true;
    let mut model_on = true;
    // a script may be followed by `nev` random events
    let scripted = events.as_ref().map_or(0, Vec::len);
    let total = scripted + nev;
    let partitioned = events.is_none() && r.chance(1, 2);
    let mut part: Option<Vec<u8>> = None;
    if partitioned {
        rep.hit("schedule.partitioned");
    }
    for step in 0..total {
        let ev = match &events {
            Some(es) if step < scripted => match &es[step] {
                Ev::Deliver(k, g, e) if *k == usize::MAX => Ev::Deliver(cl.pool.len().saturating_sub(1), *g, *e),
                e => e.clone(),
            },
            _ => {
                // half of the schedules run under a partition that is re-drawn every ~25 events
                if partitioned && (step - scripted) % 25 == 0 {
                    part = if r.chance(1, 4) { None } else { Some((0..cl.cfg.n).map(|_| r.below(2) as u8).collect::<Vec<u8>>()) };
                }
                gen_event(r, &cl, &mut payload, part.as_deref())
            }
        };
        let mut run = Run { rep, model, model_on };
        let ok = exec(&mut cl, &ev, &mut run, &mut trace, stream);
        let fine = monitors(&mut cl, rep, &trace);
        if !cl.committed.is_empty() {
            nontrivial = true;
        }
        if !ok {
            // correspondence broken: keep driving the REAL cluster under the monitors to look for
            // a concrete failing input; stop consulting the (now diverged) model
            model_on = false;
            all_ok = false;
        }
        if !fine {
            all_ok = false;
            break;
        }
    }
    let key = trace.join(";");
    rep.case(stream, if nontrivial { Some(&key) } else { None });
    if all_ok && rep.samples.len() < 4 && nontrivial {
        rep.sample(json!({"stream": stream, "events": trace.iter().take(40).collect::<Vec<_>>(), "committed": cl.committed.len()}));
    }
    rep.hit_n("committed_entries", cl.committed.len() as u64);
    rep.hit_n("terms_with_leader", cl.leaders.len() as u64);
}

fn main() {
    let args = parse_args();
    let mut rep = Report::new(
        "event schedules (timeouts, deliveries of any pending message incl. duplicates/stale, proposals, replication, \
         crash+restart from WAL) on 3- and 5-node clusters of real RaftNodes, 8 configs (pre-vote x fast-path x tie-break); \
         non-trivial = at least one entry got committed; distinct = distinct event trace",
    );
    let mut model = Model::spawn(&args.driver);
    let root = Rng::new(args.seed);

    for (name, cfg, evs) in templates() {
        let mut r = root.fork(name);
        run_schedule(cfg, Some(evs), 0, &mut r, &mut rep, &mut model, &format!("template.{name}"));
    }

    let (scheds, nev) = if args.thorough { (600, 300) } else { (60, 120) };
    for conf in 0..8u32 {
        let mut r = root.fork(&format!("conf{conf}"));
        for s in 0..scheds {
            let cfg = Cfg {
                n: if s % 3 == 2 { 5 } else { 3 },
                pre_vote: conf & 1 != 0,
                fast_path: conf & 2 != 0,
                geo: conf & 4 != 0,
                wal: s % 4 == 0,
            };
            rep.hit(&format!("cfg.n{}.wal{}", cfg.n, b(cfg.wal)));
            run_schedule(cfg, None, nev, &mut r, &mut rep, &mut model, "random");
        }
    }
    // seeded stream: the snapshot-then-restart shape with random sizes / snapshot point / flags, followed by
    // random events (more elections, replication, crashes) under the same monitors
    let shapes = if args.thorough { 240 } else { 40 };
    let mut r = root.fork("snap_restart");
    for s in 0..shapes {
        let (a, d, m) = (1 + r.below(2), r.below(4), 1 + r.below(4));
        let k = 1 + r.below(a + m);
        let cfg = Cfg { n: 3, pre_vote: r.chance(1, 2), fast_path: r.chance(1, 2), geo: r.chance(1, 2), wal: s % 8 != 7 };
        let mut p = 100;
        let evs = snap_shape(a, d, m, k, r.below(3) as usize, r.chance(4, 5), &mut p);
        rep.hit(&format!("snap_restart.{}", if d == 0 { "short_log" } else if k <= a { "below_divergence" } else if k < a + d { "inside_suffix" } else { "over_suffix" }));
        run_schedule(cfg, Some(evs), 30, &mut r, &mut rep, &mut model, "snap_restart");
    }
    rep.note("snapshot install: exercised as the event `snap src dst k` (leader src: finalize_to + create_snapshot of its committed prefix 1..=k; follower dst of the same term lacking entry k: install_snapshot, delivered at once, receiver's peer list kept) in the directed snapshot-* templates, the snap_restart stream and the random stream; install_snapshot checks neither the sender's term nor the receiver's role and keeps no suffix, so a snapshot delivered LATE (to a node that has moved on) is not generated; chunked transfer (SnapshotRequest/Response), log compaction (truncate_log) and membership change are not exercised; the async tick/transport layer is not exercised");
    rep.note("WAL persist failures are not injected; is_peer_healthy is always true (no membership manager)");
    rep.write(&args.out);
}
