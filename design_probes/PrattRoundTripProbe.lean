-- scratch feasibility probe for A.5 (Pratt round trip), binary ops + atoms + parens
inductive Tok | atom (n : Nat) | op (k : Nat) | lp | rp
  deriving DecidableEq, Repr

inductive E | atom (n : Nat) | bin (k : Nat) (l r : E)
  deriving DecidableEq, Repr

-- operator k has lbp = 2k+1, rbp = 2k+2  (left assoc), k < 9
def lbp (k : Nat) : Nat := 2*k+1
def rbp (k : Nat) : Nat := 2*k+2

def topBp : E → Nat
  | .atom _ => 1000
  | .bin k _ _ => lbp k

def wrap (b : Bool) (ts : List Tok) : List Tok := if b then Tok.lp :: ts ++ [Tok.rp] else ts

def pr : E → List Tok
  | .atom n => [Tok.atom n]
  | .bin k l r => wrap (topBp l < lbp k) (pr l) ++ Tok.op k :: wrap (topBp r < rbp k) (pr r)

mutual
def parseBp : Nat → Nat → List Tok → Option (E × List Tok)
  | 0, _, _ => none
  | fuel+1, minBp, ts =>
    match parsePrefix fuel ts with
    | none => none
    | some (lhs, rest) => loop fuel minBp lhs rest
def parsePrefix : Nat → List Tok → Option (E × List Tok)
  | 0, _ => none
  | _, Tok.atom n :: rest => some (E.atom n, rest)
  | fuel+1, Tok.lp :: rest =>
    match parseBp fuel 0 rest with
    | some (e, Tok.rp :: rest') => some (e, rest')
    | _ => none
  | _, _ => none
def loop : Nat → Nat → E → List Tok → Option (E × List Tok)
  | 0, _, _, _ => none
  | fuel+1, minBp, lhs, Tok.op k :: rest =>
    if lbp k < minBp then some (lhs, Tok.op k :: rest) else
    match parseBp fuel (rbp k) rest with
    | none => none
    | some (rhs, rest') => loop fuel minBp (E.bin k lhs rhs) rest'
  | _, _, lhs, rest => some (lhs, rest)
end

#eval parseBp 100 0 (pr (E.bin 1 (E.bin 0 (E.atom 1) (E.atom 2)) (E.bin 1 (E.atom 3) (E.atom 4))))
#eval pr (E.bin 1 (E.bin 0 (E.atom 1) (E.atom 2)) (E.bin 1 (E.atom 3) (E.atom 4)))

-- fuel monotonicity
theorem mono : ∀ f, (∀ m ts r, parseBp f m ts = some r → parseBp (f+1) m ts = some r) ∧
                    (∀ ts r, parsePrefix f ts = some r → parsePrefix (f+1) ts = some r) ∧
                    (∀ m l ts r, loop f m l ts = some r → loop (f+1) m l ts = some r) := by
  intro f
  induction f with
  | zero =>
    refine ⟨?_, ?_, ?_⟩
    · intro m ts r h; simp [parseBp] at h
    · intro ts r h; cases ts with
      | nil => simp [parsePrefix] at h
      | cons t ts => cases t <;> simp [parsePrefix] at h
    · intro m l ts r h; simp [loop] at h
  | succ f ih =>
    obtain ⟨ih1, ih2, ih3⟩ := ih
    refine ⟨?_, ?_, ?_⟩
    · intro m ts r h
      rw [parseBp] at h ⊢
      cases hp : parsePrefix f ts with
      | none => simp [hp] at h
      | some pr' =>
        obtain ⟨lhs, rest⟩ := pr'
        simp [hp] at h
        simp [ih2 _ _ hp, ih3 _ _ _ _ h]
    · intro ts r h
      cases ts with
      | nil => simp [parsePrefix] at h
      | cons t ts =>
        cases t with
        | atom n => simp [parsePrefix] at h ⊢; exact h
        | op k => simp [parsePrefix] at h
        | rp => simp [parsePrefix] at h
        | lp =>
          rw [parsePrefix] at h ⊢
          cases hp : parseBp f 0 ts with
          | none => simp [hp] at h
          | some pr' =>
            obtain ⟨e, rest⟩ := pr'
            simp [hp] at h
            simp [ih1 _ _ _ hp]
            exact h
    · intro m l ts r h
      cases ts with
      | nil => simp [loop] at h ⊢; exact h
      | cons t ts =>
        cases t with
        | atom n => simp [loop] at h ⊢; exact h
        | lp => simp [loop] at h ⊢; exact h
        | rp => simp [loop] at h ⊢; exact h
        | op k =>
          rw [loop] at h ⊢
          by_cases hk : lbp k < m
          · simp [hk] at h ⊢; exact h
          · simp [hk] at h ⊢
            cases hp : parseBp f (rbp k) ts with
            | none => simp [hp] at h
            | some pr' =>
              obtain ⟨rhs, rest⟩ := pr'
              simp [hp] at h
              simp [ih1 _ _ _ hp, ih3 _ _ _ _ h]

theorem mono_le {f g : Nat} (h : f ≤ g) :
    (∀ m ts r, parseBp f m ts = some r → parseBp g m ts = some r) ∧
    (∀ ts r, parsePrefix f ts = some r → parsePrefix g ts = some r) ∧
    (∀ m l ts r, loop f m l ts = some r → loop g m l ts = some r) := by
  induction h with
  | refl => exact ⟨fun _ _ _ h => h, fun _ _ h => h, fun _ _ _ _ h => h⟩
  | step _ ih =>
    obtain ⟨a, b, c⟩ := ih
    obtain ⟨a', b', c'⟩ := mono _
    exact ⟨fun m ts r h => a' _ _ _ (a _ _ _ h), fun ts r h => b' _ _ (b _ _ h), fun m l ts r h => c' _ _ _ _ (c _ _ _ _ h)⟩

def Parses (m : Nat) (ts : List Tok) (r : E × List Tok) : Prop := ∃ f, parseBp f m ts = some r
def Loops (m : Nat) (l : E) (ts : List Tok) (r : E × List Tok) : Prop := ∃ f, loop f m l ts = some r
def PrefixP (ts : List Tok) (r : E × List Tok) : Prop := ∃ f, parsePrefix f ts = some r

theorem parses_of {m ts lhs rest r} (hp : PrefixP ts (lhs, rest)) (hl : Loops m lhs rest r) : Parses m ts r := by
  obtain ⟨f1, h1⟩ := hp
  obtain ⟨f2, h2⟩ := hl
  refine ⟨max f1 f2 + 1, ?_⟩
  rw [parseBp]
  have := (mono_le (Nat.le_max_left f1 f2)).2.1 _ _ h1
  simp [this]
  exact (mono_le (Nat.le_max_right f1 f2)).2.2 _ _ _ _ h2

theorem loops_op {m k lhs rhs rest rest' r} (hk : ¬ lbp k < m)
    (hp : Parses (rbp k) rest (rhs, rest')) (hl : Loops m (E.bin k lhs rhs) rest' r) :
    Loops m lhs (Tok.op k :: rest) r := by
  obtain ⟨f1, h1⟩ := hp
  obtain ⟨f2, h2⟩ := hl
  refine ⟨max f1 f2 + 1, ?_⟩
  rw [loop]
  simp [hk]
  have := (mono_le (Nat.le_max_left f1 f2)).1 _ _ _ h1
  simp [this]
  exact (mono_le (Nat.le_max_right f1 f2)).2.2 _ _ _ _ h2

def headStops (b : Nat) : List Tok → Prop
  | Tok.op k :: _ => lbp k < b
  | _ => True

theorem loops_stop {m e X} (h : headStops m X) : Loops m e X (e, X) := by
  refine ⟨1, ?_⟩
  cases X with
  | nil => simp [loop]
  | cons t ts =>
    cases t with
    | op k => simp [headStops] at h; simp [loop, h]
    | atom n => simp [loop]
    | lp => simp [loop]
    | rp => simp [loop]

theorem prefix_atom {n rest} : PrefixP (Tok.atom n :: rest) (E.atom n, rest) := ⟨1, by simp [parsePrefix]⟩

theorem prefix_paren {e rest rest'} (h : Parses 0 rest (e, Tok.rp :: rest')) : PrefixP (Tok.lp :: rest) (e, rest') := by
  obtain ⟨f, hf⟩ := h
  exact ⟨f+1, by simp [parsePrefix, hf]⟩

def StopAbove : E → List Tok → Prop
  | .atom _, _ => True
  | .bin k _ _, X => headStops (rbp k) X

theorem headStops_mono {a b X} (h : a ≤ b) (hs : headStops a X) : headStops b X := by
  cases X with
  | nil => trivial
  | cons t ts => cases t <;> simp [headStops] at * ; omega

-- parse a (possibly wrapped) operand e at level m, returning to (e, X), given X stops at m
theorem K (e : E) : ∀ m X r, m ≤ topBp e → StopAbove e X → Loops m e X r → Parses m (pr e ++ X) r := by
  induction e with
  | atom n => intro m X r _ _ hl; simpa [pr] using parses_of prefix_atom hl
  | bin k l r0 ihl ihr =>
    intro m X r hm hs hl
    simp only [topBp] at hm
    simp only [StopAbove] at hs
    -- the right operand parses at rbp k back to (r0, X)
    have hR : Parses (rbp k) (wrap (topBp r0 < rbp k) (pr r0) ++ X) (r0, X) := by
      by_cases hw : topBp r0 < rbp k
      · simp only [wrap, hw]
        have hin : Parses 0 (pr r0 ++ Tok.rp :: X) (r0, Tok.rp :: X) :=
          ihr 0 _ _ (Nat.zero_le _) (by cases r0 <;> simp [StopAbove, headStops]) (loops_stop (by simp [headStops]))
        have := parses_of (m := rbp k) (prefix_paren hin) (loops_stop hs)
        simpa [Parses] using this
      · simp only [wrap, hw]
        have hge : rbp k ≤ topBp r0 := Nat.le_of_not_lt hw
        refine ihr (rbp k) X _ hge ?_ (loops_stop hs)
        cases r0 with
        | atom n => trivial
        | bin k2 a b =>
          simp only [StopAbove, topBp] at *
          exact headStops_mono (by simp [rbp, lbp] at *; omega) hs
    -- loop from l over `op k :: right ++ X`
    have hL : Loops m l (Tok.op k :: (wrap (topBp r0 < rbp k) (pr r0) ++ X)) r :=
      loops_op (by omega) hR hl
    by_cases hw : topBp l < lbp k
    · have hin : Parses 0 (pr l ++ Tok.rp :: (Tok.op k :: (wrap (topBp r0 < rbp k) (pr r0) ++ X)))
          (l, Tok.rp :: (Tok.op k :: (wrap (topBp r0 < rbp k) (pr r0) ++ X))) :=
        ihl 0 _ _ (Nat.zero_le _) (by cases l <;> simp [StopAbove, headStops]) (loops_stop (by simp [headStops]))
      have := parses_of (prefix_paren hin) hL
      simpa [pr, wrap, hw] using this
    · have hge : lbp k ≤ topBp l := Nat.le_of_not_lt hw
      have := ihl m (Tok.op k :: (wrap (topBp r0 < rbp k) (pr r0) ++ X)) r (by omega) (by
        cases l with
        | atom n => trivial
        | bin k1 a b => simp only [StopAbove, headStops, topBp] at *; simp [rbp, lbp] at *; omega) hL
      simpa [pr, wrap, hw] using this

theorem parse_pr (e : E) : ∃ f, parseBp f 0 (pr e) = some (e, []) := by
  have := K e 0 [] (e, []) (Nat.zero_le _) (by cases e <;> simp [StopAbove, headStops]) (loops_stop (by simp [headStops]))
  simpa [Parses] using this

#print axioms parse_pr
