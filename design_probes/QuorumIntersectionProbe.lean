import Mathlib.Data.Fintype.Card
theorem quorum_inter {n : Nat} (A B : Finset (Fin n)) (hA : n < 2 * A.card) (hB : n < 2 * B.card) :
    ∃ x, x ∈ A ∧ x ∈ B := by
  by_contra h
  have hd : Disjoint A B := by
    rw [Finset.disjoint_left]; intro x hx hy; exact h ⟨x, hx, hy⟩
  have := Finset.card_union_of_disjoint hd
  have hle : (A ∪ B).card ≤ Fintype.card (Fin n) := Finset.card_le_univ _
  simp at hle
  omega
#print axioms quorum_inter
