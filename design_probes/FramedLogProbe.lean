-- feasibility probes for DESIGN appendix A (scratch, not framework code)
def le32 (n : Nat) : List Nat := [n % 256, (n / 256) % 256, (n / 65536) % 256, (n / 16777216) % 256]
def de32 : List Nat → Nat
  | [a,b,c,d] => a + 256*b + 65536*c + 16777216*d
  | _ => 0
theorem le32_rt (n : Nat) (h : n < 4294967296) : de32 (le32 n) = n := by
  simp [le32, de32]; omega

def encodeRec (crc : List Nat → Nat) (p : List Nat) : List Nat := le32 p.length ++ le32 (crc p) ++ p

inductive PEnd | clean | torn | badCrc
  deriving DecidableEq, Repr

def parse (crc : List Nat → Nat) (bs : List Nat) : List (List Nat) × PEnd :=
  if h : bs.length < 8 then ([], if bs.isEmpty then .clean else .torn) else
    let len := de32 (bs.take 4)
    let c := de32 ((bs.drop 4).take 4)
    let body := bs.drop 8
    if body.length < len then ([], .torn) else
      let p := body.take len
      if c ≠ 0 ∧ c ≠ crc p then ([], .badCrc) else
        let r := parse crc (body.drop len)
        (p :: r.1, r.2)
termination_by bs.length
decreasing_by simp [List.length_drop]; omega

#eval parse (fun _ => 7) (encodeRec (fun _ => 7) [1,2,3] ++ encodeRec (fun _ => 7) [9] ++ [1,0])

theorem parse_cons (crc : List Nat → Nat) (p rest : List Nat) (hp : p.length < 4294967296) (hc : crc p < 4294967296) :
    parse crc (encodeRec crc p ++ rest) = (p :: (parse crc rest).1, (parse crc rest).2) := by
  rw [parse]
  have hl : ¬ (encodeRec crc p ++ rest).length < 8 := by simp [encodeRec, le32]
  simp only [hl, dite_false]
  have e1 : (encodeRec crc p ++ rest).take 4 = le32 p.length := by simp [encodeRec, le32]
  have e2 : ((encodeRec crc p ++ rest).drop 4).take 4 = le32 (crc p) := by simp [encodeRec, le32]
  have e3 : (encodeRec crc p ++ rest).drop 8 = p ++ rest := by simp [encodeRec, le32]
  simp only [e1, e2, e3, le32_rt _ hp, le32_rt _ hc]
  simp


#print axioms parse_cons
