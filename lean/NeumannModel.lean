-- Root of the `NeumannModel` library: every model, lemma and property module.
import NeumannModel.Common.Proto
import NeumannModel.Codec.Model
