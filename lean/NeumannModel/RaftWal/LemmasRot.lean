import NeumannModel.RaftWal.Lemmas
/-
  C10, size limit / rotation of the Raft WAL (`RaftWal::append` → `check_size_limit` → `rotate`).
  Helper lemmas for the rotation theorems of Props.lean.
-/
namespace Neumann.RaftWal
open FramedLog

section rot
variable (crc : List Nat → Nat) (ser : WalEntry → List Nat) (deser : List Nat → Option WalEntry)

theorem fileOf_snoc (d : List WalEntry) (r : WalEntry) :
    fileOf crc ser (d ++ [r]) = fileOf crc ser d ++ encodeRec crc (ser r) := by
  simp [fileOf, encodeAll]

theorem fileOf_append_length (d rs : List WalEntry) :
    (fileOf crc ser d).length ≤ (fileOf crc ser (d ++ rs)).length := by
  simp only [fileOf, List.map_append, encodeAll_append, List.length_append]
  omega

/-- below the size limit `append` is plain concatenation -/
theorem walAppend_fits (c : WalCfg) (w : WalFiles) (p : List Nat)
    (h : w.cur.length + (encodeRec crc p).length ≤ c.maxSize) :
    walAppend crc c w p = some { w with cur := w.cur ++ encodeRec crc p } := by
  unfold walAppend
  have : ¬ (w.cur.length + (encodeRec crc p).length > c.maxSize) := by omega
  simp only [this, if_false]

/-- above it, with `auto_rotate`, the live file is replaced by one holding just the new record -/
theorem walAppend_rotates (c : WalCfg) (w : WalFiles) (p : List Nat) (ha : c.autoRotate = true)
    (h : w.cur.length + (encodeRec crc p).length > c.maxSize) :
    walAppend crc c w p
      = some { cur := encodeRec crc p, rotated := (w.cur :: w.rotated).take (max c.maxRot 1) } := by
  unfold walAppend
  simp only [h, if_true, ha]

/-- without `auto_rotate` an append either is refused or extends the live file; nothing is moved away -/
theorem walAppend_noRotate (c : WalCfg) (w : WalFiles) (p : List Nat) (ha : c.autoRotate = false) :
    walAppend crc c w p = none
      ∨ walAppend crc c w p = some { w with cur := w.cur ++ encodeRec crc p } := by
  unfold walAppend
  simp only [ha, Bool.false_eq_true, if_false]
  by_cases h : w.cur.length + (encodeRec crc p).length > c.maxSize
  · left; simp only [h, if_true]
  · right; simp only [h, if_false]

theorem walAppendAll_fits (c : WalCfg) (old : List (List Nat)) (d rs : List WalEntry)
    (h : (fileOf crc ser (d ++ rs)).length ≤ c.maxSize) :
    walAppendAll crc c { cur := fileOf crc ser d, rotated := old } (rs.map ser)
      = { cur := fileOf crc ser (d ++ rs), rotated := old } := by
  induction rs generalizing d with
  | nil => simp [walAppendAll]
  | cons r rs ih =>
    have e : d ++ r :: rs = (d ++ [r]) ++ rs := by simp
    have hle : (fileOf crc ser (d ++ [r])).length ≤ c.maxSize := by
      have := fileOf_append_length crc ser (d ++ [r]) rs
      rw [← e] at this; omega
    simp only [walAppendAll, List.map_cons, List.foldl_cons]
    rw [walAppend_fits crc c _ _ (by
      rw [fileOf_snoc, List.length_append] at hle; exact hle)]
    have := ih (d ++ [r]) (by rw [← e]; exact h)
    simp only [walAppendAll] at this
    simp only [Option.getD_some, ← fileOf_snoc]
    rw [this, ← e]

/-- without `auto_rotate`, whatever is appended: the live file is the encoding of a SUBLIST-in-order of
    the records (the accepted ones) appended to what it held, and the rotated files are untouched -/
theorem walAppendAll_noRotate (c : WalCfg) (ha : c.autoRotate = false) (w : WalFiles) (ps : List (List Nat)) :
    ∃ acc : List (List Nat), acc.Sublist ps
      ∧ walAppendAll crc c w ps = { cur := w.cur ++ encodeAll crc acc, rotated := w.rotated } := by
  induction ps generalizing w with
  | nil => exact ⟨[], List.Sublist.slnil, by simp [walAppendAll, encodeAll]⟩
  | cons p ps ih =>
    simp only [walAppendAll, List.foldl_cons]
    rcases walAppend_noRotate crc c w p ha with h | h
    · rw [h]
      obtain ⟨acc, hs, he⟩ := ih w
      exact ⟨acc, List.Sublist.cons _ hs, by simpa [walAppendAll] using he⟩
    · rw [h]
      obtain ⟨acc, hs, he⟩ := ih { w with cur := w.cur ++ encodeRec crc p }
      refine ⟨p :: acc, List.Sublist.cons_cons _ hs, ?_⟩
      simp only [walAppendAll, Option.getD_some] at he ⊢
      rw [he]
      simp [encodeAll]

theorem recover_single (h : GoodSer crc ser deser) (r : WalEntry) :
    recoverBytes crc deser (encodeRec crc (ser r)) = .ok (fromEntries [r]) 1 .clean := by
  have hg : GoodRec crc (fun p => (deser p).isSome) (ser r) := ⟨h.len r, h.crcb _, by simp [h.rt r]⟩
  have hp := parse_cons crc (fun p => (deser p).isSome) (ser r) [] hg
  rw [List.append_nil, parse_nil] at hp
  simp only [recoverBytes, hp, List.filterMap_cons, h.rt r, List.filterMap_nil, List.length_cons,
    List.length_nil]

end rot
end Neumann.RaftWal
