import NeumannModel.RaftWal.Lemmas
/-
  C10, size limit / rotation of the Raft WAL (`RaftWal::append` → `check_size_limit` → `rotate`).
  Helper lemmas for the rotation theorems of Props.lean.
-/
namespace Neumann.RaftWal
open FramedLog

section rot
variable (crc : List Nat → Nat) (ser : WalEntry → List Nat) (deser : List Nat → Option WalEntry)

theorem fileOf_snoc (d : List WalEntry) (r : WalEntry) :
    fileOf crc ser (d ++ [r]) = fileOf crc ser d ++ encodeRec crc (ser r) := by
  simp [fileOf, encodeAll]

theorem fileOf_append_length (d rs : List WalEntry) :
    (fileOf crc ser d).length ≤ (fileOf crc ser (d ++ rs)).length := by
  simp only [fileOf, List.map_append, encodeAll_append, List.length_append]
  omega

/-- below the size limit `append` is plain concatenation -/
theorem walAppend_fits (maxSize maxRot : Nat) (w : WalFiles) (p : List Nat)
    (h : w.cur.length + (encodeRec crc p).length ≤ maxSize) :
    walAppend crc maxSize maxRot w p = { w with cur := w.cur ++ encodeRec crc p } := by
  unfold walAppend
  have : ¬ (w.cur.length + (encodeRec crc p).length > maxSize) := by omega
  simp only [this, if_false]

/-- above it, the live file is replaced by one holding just the new record -/
theorem walAppend_rotates (maxSize maxRot : Nat) (w : WalFiles) (p : List Nat)
    (h : w.cur.length + (encodeRec crc p).length > maxSize) :
    walAppend crc maxSize maxRot w p
      = { cur := encodeRec crc p, rotated := (w.cur :: w.rotated).take (max maxRot 1) } := by
  unfold walAppend
  simp only [h, if_true]

theorem walAppendAll_fits (maxSize maxRot : Nat) (old : List (List Nat)) (d rs : List WalEntry)
    (h : (fileOf crc ser (d ++ rs)).length ≤ maxSize) :
    walAppendAll crc maxSize maxRot { cur := fileOf crc ser d, rotated := old } (rs.map ser)
      = { cur := fileOf crc ser (d ++ rs), rotated := old } := by
  induction rs generalizing d with
  | nil => simp [walAppendAll]
  | cons r rs ih =>
    have e : d ++ r :: rs = (d ++ [r]) ++ rs := by simp
    have hle : (fileOf crc ser (d ++ [r])).length ≤ maxSize := by
      have := fileOf_append_length crc ser (d ++ [r]) rs
      rw [← e] at this; omega
    simp only [walAppendAll, List.map_cons, List.foldl_cons]
    rw [walAppend_fits crc maxSize maxRot _ _ (by
      rw [fileOf_snoc, List.length_append] at hle; exact hle)]
    have := ih (d ++ [r]) (by rw [← e]; exact h)
    simp only [walAppendAll] at this
    simp only [← fileOf_snoc]
    rw [this, ← e]

theorem recover_single (h : GoodSer crc ser deser) (r : WalEntry) :
    recoverBytes crc deser (encodeRec crc (ser r)) = .ok (fromEntries [r]) 1 .clean := by
  have hg : GoodRec crc (fun p => (deser p).isSome) (ser r) := ⟨h.len r, h.crcb _, by simp [h.rt r]⟩
  have hp := parse_cons crc (fun p => (deser p).isSome) (ser r) [] hg
  rw [List.append_nil, parse_nil] at hp
  simp only [recoverBytes, hp, List.filterMap_cons, h.rt r, List.filterMap_nil, List.length_cons,
    List.length_nil]

end rot
end Neumann.RaftWal
