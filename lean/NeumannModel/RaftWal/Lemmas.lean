import NeumannModel.RaftWal.Model
import NeumannModel.Common.FramedLogLemmas
/-
  Helper lemmas for C10.  Part 1: pure facts about `applyEntry` (hold for ARBITRARY records,
  whoever wrote them): the recovered term never decreases and a vote, once recovered for a
  term, is never replaced by a different one.
-/
namespace Neumann.RaftWal

/-- the vote obligation: the node is past term `t`, or still in it with the same vote -/
def VoteOk (s : RState) (v : Nat × Nat) : Prop :=
  v.1 < s.term ∨ (v.1 = s.term ∧ s.votedFor = some v.2)

theorem applyEntry_term_mono (s : RState) (r : WalEntry) : s.term ≤ (applyEntry s r).term := by
  cases r <;> simp only [applyEntry] <;> (repeat' split) <;> simp_all <;> omega

theorem applyAll_term_mono (s : RState) (rs : List WalEntry) : s.term ≤ (applyAll s rs).term := by
  induction rs generalizing s with
  | nil => simp [applyAll]
  | cons r rs ih =>
    have h1 := applyEntry_term_mono s r
    have h2 := ih (applyEntry s r)
    simp only [applyAll, List.foldl_cons] at h2 ⊢
    omega

theorem applyEntry_voteOk (s : RState) (r : WalEntry) (v : Nat × Nat) (h : VoteOk s v) :
    VoteOk (applyEntry s r) v := by
  unfold VoteOk at *
  cases r <;> simp only [applyEntry] <;> (repeat' split) <;> simp_all <;> omega

theorem applyAll_voteOk (s : RState) (rs : List WalEntry) (v : Nat × Nat) (h : VoteOk s v) :
    VoteOk (applyAll s rs) v := by
  induction rs generalizing s with
  | nil => simpa [applyAll] using h
  | cons r rs ih =>
    simp only [applyAll, List.foldl_cons]
    exact ih _ (applyEntry_voteOk s r v h)

end Neumann.RaftWal
