import NeumannModel.RaftWal.Model
import NeumannModel.Common.FramedLogLemmas
/-
  Helper lemmas for C10.  Part 1: pure facts about `applyEntry` (hold for ARBITRARY records,
  whoever wrote them): the recovered term never decreases and a vote, once recovered for a
  term, is never replaced by a different one.
-/
namespace Neumann.RaftWal

/-- the vote obligation: the node is past term `t`, or still in it with the same vote -/
def VoteOk (s : RState) (v : Nat × Nat) : Prop :=
  v.1 < s.term ∨ (v.1 = s.term ∧ s.votedFor = some v.2)

theorem applyEntry_term_mono (s : RState) (r : WalEntry) : s.term ≤ (applyEntry s r).term := by
  cases r <;> simp only [applyEntry] <;> (repeat' split) <;> simp_all <;> omega

theorem applyAll_term_mono (s : RState) (rs : List WalEntry) : s.term ≤ (applyAll s rs).term := by
  induction rs generalizing s with
  | nil => simp [applyAll]
  | cons r rs ih =>
    have h1 := applyEntry_term_mono s r
    have h2 := ih (applyEntry s r)
    simp only [applyAll, List.foldl_cons] at h2 ⊢
    omega

theorem applyEntry_voteOk (s : RState) (r : WalEntry) (v : Nat × Nat) (h : VoteOk s v) :
    VoteOk (applyEntry s r) v := by
  unfold VoteOk at *
  cases r <;> simp only [applyEntry] <;> (repeat' split) <;> simp_all <;> omega

theorem applyAll_voteOk (s : RState) (rs : List WalEntry) (v : Nat × Nat) (h : VoteOk s v) :
    VoteOk (applyAll s rs) v := by
  induction rs generalizing s with
  | nil => simpa [applyAll] using h
  | cons r rs ih =>
    simp only [applyAll, List.foldl_cons]
    exact ih _ (applyEntry_voteOk s r v h)

end Neumann.RaftWal

/-! Part 2: the in-memory log and the recovered map stay equal (persist-and-act in lock step). -/
namespace Neumann.RaftWal

def entKV (e : LogEntry) : Nat × List Nat := (e.index, encEntry e)

/-- entries are numbered `b+1, b+2, …` -/
def WFfrom (b : Nat) : List LogEntry → Prop
  | [] => True
  | e :: r => e.index = b + 1 ∧ WFfrom (b + 1) r

def WF (log : List LogEntry) : Prop := WFfrom 0 log

def Sync (n : Node) (s : RState) : Prop :=
  n.term = s.term ∧ n.votedFor = s.votedFor ∧ s.logMap = n.log.map entKV

def Shape (s : RState) : Prop := ∃ log, WF log ∧ s.logMap = log.map entKV

def Sat (s : RState) (g : Ghost) : Prop :=
  g.actedTerm ≤ s.term ∧ (∀ v ∈ g.votes, VoteOk s v) ∧ (∀ e ∈ g.acked, entKV e ∈ s.logMap)

def P (s : RState) (g : Ghost) : Prop := Sat s g ∧ Shape s

def microS (s : RState) : Micro → RState
  | .wal r => applyEntry s r
  | _ => s

def microAllS (s : RState) (ms : List Micro) : RState := ms.foldl microS s

/-- `P` holds before the first micro step and after every one of them -/
def Chain (s : RState) (g : Ghost) : List Micro → Prop
  | [] => P s g
  | μ :: ms => P s g ∧ Chain (microS s μ) (microG g μ) ms

theorem chain_head {s g ms} (h : Chain s g ms) : P s g := by
  cases ms with
  | nil => exact h
  | cons μ ms => exact h.1

theorem chain_append {s g} (a b : List Micro) :
    Chain s g (a ++ b) ↔ Chain s g a ∧ Chain (microAllS s a) (microAllG g a) b := by
  induction a generalizing s g with
  | nil =>
    simp only [List.nil_append, Chain, microAllS, microAllG, List.foldl_nil]
    exact ⟨fun h => ⟨chain_head h, h⟩, fun h => h.2⟩
  | cons μ a ih =>
    simp only [List.cons_append, Chain, microAllS, microAllG, List.foldl_cons]
    rw [ih]
    simp only [microAllS, microAllG]
    exact ⟨fun h => ⟨⟨h.1, h.2.1⟩, h.2.2⟩, fun h => ⟨h.1.1, h.1.2, h.2⟩⟩

theorem chain_take {s g ms} (h : Chain s g ms) (k : Nat) :
    P (microAllS s (ms.take k)) (microAllG g (ms.take k)) := by
  induction ms generalizing s g k with
  | nil => simpa [microAllS, microAllG, Chain] using h
  | cons μ ms ih =>
    cases k with
    | zero => simpa [microAllS, microAllG] using h.1
    | succ k =>
      simp only [List.take_succ_cons, microAllS, microAllG, List.foldl_cons]
      exact ih h.2 k

theorem chain_end {s g ms} (h : Chain s g ms) : P (microAllS s ms) (microAllG g ms) := by
  have := chain_take h ms.length
  simpa using this

theorem microAllS_recs (s : RState) (ms : List Micro) : microAllS s ms = applyAll s (recs ms) := by
  induction ms generalizing s with
  | nil => rfl
  | cons μ ms ih =>
    cases μ <;> simp [microAllS, recs, applyAll, microS] <;>
      simpa [microAllS, recs, applyAll] using ih _

theorem fromEntries_append (d rs : List WalEntry) : fromEntries (d ++ rs) = applyAll (fromEntries d) rs := by
  simp [fromEntries, applyAll, List.foldl_append]

/-! #### facts about a well-numbered log -/

theorem wf_append {b : Nat} {log : List LogEntry} {e : LogEntry} (h : WFfrom b log)
    (he : e.index = b + log.length + 1) : WFfrom b (log ++ [e]) := by
  induction log generalizing b with
  | nil => simp [WFfrom] at *; omega
  | cons x r ih =>
    simp only [List.cons_append, WFfrom] at *
    refine ⟨h.1, ih h.2 ?_⟩
    simp only [List.length_cons] at he; omega

theorem wf_take {b : Nat} {log : List LogEntry} (h : WFfrom b log) (k : Nat) : WFfrom b (log.take k) := by
  induction log generalizing b k with
  | nil => simp [WFfrom]
  | cons x r ih =>
    cases k with
    | zero => simp [WFfrom]
    | succ k => simp only [List.take_succ_cons, WFfrom] at *; exact ⟨h.1, ih h.2 k⟩

theorem wf_index {b : Nat} {log : List LogEntry} (h : WFfrom b log) {e : LogEntry} (he : e ∈ log) :
    b < e.index ∧ e.index ≤ b + log.length := by
  induction log generalizing b with
  | nil => simp at he
  | cons x r ih =>
    simp only [WFfrom] at h
    rcases List.mem_cons.mp he with rfl | hr
    · simp only [List.length_cons]; omega
    · have := ih h.2 hr
      simp only [List.length_cons]; omega

/-- inserting the next index appends -/
theorem mapInsert_append {b : Nat} {log : List LogEntry} (h : WFfrom b log) (e : LogEntry)
    (he : e.index = b + log.length + 1) :
    mapInsert e.index (encEntry e) (log.map entKV) = (log ++ [e]).map entKV := by
  induction log generalizing b with
  | nil => simp [mapInsert, entKV]
  | cons x r ih =>
    simp only [WFfrom] at h
    simp only [List.length_cons] at he
    have hx : ¬ e.index < x.index := by omega
    have hx2 : ¬ e.index = x.index := by omega
    show mapInsert e.index (encEntry e) ((x.index, encEntry x) :: r.map entKV)
        = (x.index, encEntry x) :: (r ++ [e]).map entKV
    simp only [mapInsert, hx, hx2, if_false]
    rw [ih h.2 (by omega)]

/-- removing keys `≥ f` cuts the log after position `f - 1` -/
theorem mapRemoveFrom_take {b : Nat} {log : List LogEntry} (h : WFfrom b log) (f : Nat) :
    mapRemoveFrom f (log.map entKV) = (log.take (f - 1 - b)).map entKV := by
  induction log generalizing b with
  | nil => simp [mapRemoveFrom]
  | cons x r ih =>
    simp only [WFfrom] at h
    have ih' := ih h.2
    simp only [mapRemoveFrom] at ih' ⊢
    show List.filter (fun kv => decide (kv.1 < f)) ((x.index, encEntry x) :: r.map entKV) = _
    by_cases hlt : x.index < f
    · have : f - 1 - b = (f - 1 - (b + 1)) + 1 := by omega
      rw [this, List.take_succ_cons]
      simp only [List.filter_cons, hlt, decide_true, if_true, List.map_cons]
      rw [ih']; rfl
    · have h0 : f - 1 - b = 0 := by omega
      have h1 : f - 1 - (b + 1) = 0 := by omega
      rw [h0]
      simp only [List.filter_cons, hlt, decide_false, List.take_zero, List.map_nil]
      rw [ih', h1]; simp

theorem decEntry_encEntry (e : LogEntry) : decEntry (encEntry e) = some e := by
  cases e; rfl

theorem filterMap_dec (log : List LogEntry) :
    ((log.map entKV).map (·.2)).filterMap decEntry = log := by
  induction log with
  | nil => rfl
  | cons x r ih =>
    simp only [List.map_cons, List.filterMap_cons, entKV, decEntry_encEntry]
    congr 1

theorem entKV_inj {a b : LogEntry} (h : entKV a = entKV b) : a = b := by
  cases a; cases b
  simp only [entKV, encEntry, Prod.mk.injEq, List.cons.injEq] at h
  obtain ⟨h1, _, h2, h3, _⟩ := h
  subst h1; subst h2; subst h3; rfl

theorem mem_map_entKV {a : LogEntry} {log : List LogEntry} : entKV a ∈ log.map entKV ↔ a ∈ log := by
  constructor
  · intro h
    obtain ⟨b, hb, hbe⟩ := List.mem_map.mp h
    rw [← entKV_inj hbe]; exact hb
  · exact List.mem_map_of_mem

/-- writing entry `b+j+1` over a well-numbered log keeps it well numbered -/
theorem wf_overwrite {b j : Nat} {log : List LogEntry} {e : LogEntry} (h : WFfrom b log)
    (hj : j ≤ log.length) (he : e.index = b + j + 1) : WFfrom b (log.take j ++ e :: log.drop (j + 1)) := by
  induction log generalizing b j with
  | nil =>
    have : j = 0 := by simpa using hj
    subst this
    simp only [List.take_nil, List.drop_nil, List.nil_append, WFfrom]
    exact ⟨by omega, trivial⟩
  | cons x r ih =>
    simp only [WFfrom] at h
    cases j with
    | zero =>
      simp only [List.take_zero, List.nil_append, Nat.zero_add, List.drop_succ_cons, List.drop_zero, WFfrom]
      exact ⟨by omega, h.2⟩
    | succ j =>
      simp only [List.take_succ_cons, List.drop_succ_cons, List.cons_append, WFfrom]
      exact ⟨h.1, ih h.2 (by simpa using hj) (by omega)⟩

/-- `BTreeMap::insert` of index `b+j+1` into the map of a well-numbered log replaces position `j`
    (or appends when `j` is the length) -/
theorem mapInsert_overwrite {b j : Nat} {log : List LogEntry} (h : WFfrom b log) (e : LogEntry)
    (hj : j ≤ log.length) (he : e.index = b + j + 1) :
    mapInsert e.index (encEntry e) (log.map entKV) = (log.take j ++ e :: log.drop (j + 1)).map entKV := by
  induction log generalizing b j with
  | nil =>
    have : j = 0 := by simpa using hj
    subst this
    simp [mapInsert, entKV]
  | cons x r ih =>
    simp only [WFfrom] at h
    show mapInsert e.index (encEntry e) ((x.index, encEntry x) :: r.map entKV) = _
    cases j with
    | zero =>
      have hx : x.index = e.index := by omega
      simp [mapInsert, hx, entKV]
    | succ j =>
      have h1 : ¬ e.index < x.index := by omega
      have h2 : ¬ e.index = x.index := by omega
      simp only [mapInsert, h1, h2, if_false, List.take_succ_cons, List.drop_succ_cons, List.cons_append,
        List.map_cons]
      rw [ih h.2 (by simpa using hj) (by omega)]
      rfl

/-- an entry of another index survives an overwrite of position `j` -/
theorem mem_overwrite {b j : Nat} {log : List LogEntry} (h : WFfrom b log) {a : LogEntry} (e : LogEntry)
    (ha : a ∈ log) (hne : a.index ≠ b + j + 1) : a ∈ log.take j ++ e :: log.drop (j + 1) := by
  induction log generalizing b j with
  | nil => simp at ha
  | cons x r ih =>
    simp only [WFfrom] at h
    cases j with
    | zero =>
      rcases List.mem_cons.mp ha with rfl | hr
      · omega
      · simp [hr]
    | succ j =>
      simp only [List.take_succ_cons, List.drop_succ_cons, List.cons_append, List.mem_cons]
      rcases List.mem_cons.mp ha with rfl | hr
      · exact Or.inl rfl
      · exact Or.inr (ih h.2 hr (by omega))

theorem restart_sync (id : Nat) (s : RState) (h : Shape s) :
    Sync (restart id s) s ∧ WF (restart id s).log := by
  obtain ⟨log, hwf, hm⟩ := h
  have hl : (restart id s).log = log := by
    simp only [restart, recoveredLog, hm]
    exact filterMap_dec log
  refine ⟨⟨rfl, rfl, ?_⟩, ?_⟩
  · rw [hl]; exact hm
  · rw [hl]; exact hwf

end Neumann.RaftWal

/-! Part 3: every micro step of every handler keeps the obligations satisfied. -/
namespace Neumann.RaftWal

theorem shape_of_log {s : RState} {log : List LogEntry} (hwf : WF log) (hm : s.logMap = log.map entKV) :
    Shape s := ⟨log, hwf, hm⟩

/-- facts about a `TermAndVote` record with a higher term -/
theorem apply_tv_higher (s : RState) (t : Nat) (v : Option Nat) (h : t > s.term) :
    applyEntry s (.termAndVote t v) = { s with term := t, votedFor := v } := by
  simp [applyEntry, h]

/-- a vote record in the current term while no vote is recorded -/
theorem apply_tv_same_none (s : RState) (v : Option Nat) (h : s.votedFor = none) :
    applyEntry s (.termAndVote s.term v) = { s with votedFor := v } := by
  simp [applyEntry, h]

/-- re-granting the recorded vote changes nothing -/
theorem apply_tv_same_some (s : RState) (c : Nat) (h : s.votedFor = some c) :
    applyEntry s (.termAndVote s.term (some c)) = s := by
  simp [applyEntry, h]

/-- records that do not touch the log map keep `P` -/
theorem P_nonlog (s : RState) (g : Ghost) (r : WalEntry) (hP : P s g)
    (hl : (applyEntry s r).logMap = s.logMap) : P (applyEntry s r) g := by
  obtain ⟨⟨h1, h2, h3⟩, log, hwf, hm⟩ := hP
  refine ⟨⟨?_, ?_, ?_⟩, log, hwf, by rw [hl]; exact hm⟩
  · have := applyEntry_term_mono s r; omega
  · intro v hv; exact applyEntry_voteOk s r v (h2 v hv)
  · intro e he; rw [hl]; exact h3 e he

theorem tv_logMap (s : RState) (t : Nat) (v : Option Nat) :
    (applyEntry s (.termAndVote t v)).logMap = s.logMap := by
  simp only [applyEntry]; (repeat' split) <;> rfl

theorem P_ackTerm (s : RState) (g : Ghost) (t : Nat) (hP : P s g) (ht : t ≤ s.term) :
    P s (microG g (.ackTerm t)) := by
  obtain ⟨⟨h1, h2, h3⟩, hs⟩ := hP
  refine ⟨⟨?_, h2, h3⟩, hs⟩
  simp only [microG]; omega

theorem P_ackVote (s : RState) (g : Ghost) (t c : Nat) (hP : P s g) (hv : VoteOk s (t, c)) :
    P s (microG g (.ackVote t c)) := by
  obtain ⟨⟨h1, h2, h3⟩, hs⟩ := hP
  refine ⟨⟨h1, ?_, h3⟩, hs⟩
  intro v hv'
  simp only [microG, List.mem_cons] at hv'
  rcases hv' with rfl | h
  · exact hv
  · exact h2 v h

theorem P_ackLog (s : RState) (g : Ghost) (es : List LogEntry) (hP : P s g)
    (he : ∀ e ∈ es, entKV e ∈ s.logMap) : P s (microG g (.ackLog es)) := by
  obtain ⟨⟨h1, h2, h3⟩, hs⟩ := hP
  refine ⟨⟨h1, h2, ?_⟩, hs⟩
  intro e hm
  simp only [microG, List.mem_append] at hm
  rcases hm with h | h
  · exact he e h
  · exact h3 e h

/-- the loop invariant of `append_leader_entries` -/
def LoopInv (log : List LogEntry) (s : RState) (g : Ghost) : Prop :=
  WF log ∧ s.logMap = log.map entKV ∧ Sat s g

theorem loopInv_P {log s g} (h : LoopInv log s g) : P s g := ⟨h.2.2, log, h.1, h.2.1⟩

/-- `persist_log_entry` of an entry with index `j+1 ≤ len+1`: position `j` is overwritten (or the
    entry appended); acknowledged entries it replaces leave the obligations -/
theorem overwrite_step {log : List LogEntry} {s : RState} {g : Ghost} (h : LoopInv log s g) (e : LogEntry)
    (j : Nat) (hj : j ≤ log.length) (he : e.index = j + 1) :
    LoopInv (log.take j ++ e :: log.drop (j + 1)) (applyEntry s (.logEntryFull e.index e.term (encEntry e)))
      (microG g (.wal (.logEntryFull e.index e.term (encEntry e)))) := by
  obtain ⟨hwf, hm, h1, h2, h3⟩ := h
  have hins : mapInsert e.index (encEntry e) s.logMap = (log.take j ++ e :: log.drop (j + 1)).map entKV := by
    rw [hm]; exact mapInsert_overwrite hwf e hj (by omega)
  refine ⟨wf_overwrite hwf hj (by omega), ?_, ?_, ?_, ?_⟩
  · simp only [applyEntry]; exact hins
  · simpa [applyEntry, microG] using h1
  · intro v hv; exact applyEntry_voteOk s _ v (h2 v (by simpa [microG] using hv))
  · intro a ha
    simp only [microG, List.mem_filter, Bool.or_eq_true, decide_eq_true_eq] at ha
    have hin := h3 a ha.1
    rw [hm] at hin
    have hal : a ∈ log := mem_map_entKV.mp hin
    simp only [applyEntry, hins]
    apply mem_map_entKV.mpr
    by_cases hidx : a.index = e.index
    · have hae : a = e := by
        rcases ha.2 with hne | henc
        · exact absurd hidx hne
        · exact entKV_inj (by simp only [entKV, hidx, henc])
      rw [hae]; simp
    · exact mem_overwrite hwf e hal (by omega)

/-- a record for the next free index releases no obligation -/
theorem microG_push {log : List LogEntry} {s : RState} {g : Ghost} (h : LoopInv log s g)
    (i t : Nat) (d : List Nat) (hi : log.length < i) : microG g (.wal (.logEntryFull i t d)) = g := by
  obtain ⟨hwf, hm, _, _, h3⟩ := h
  have : g.acked.filter (fun e => decide (e.index ≠ i) || decide (encEntry e = d)) = g.acked := by
    apply List.filter_eq_self.mpr
    intro a ha
    have hin := h3 a ha
    rw [hm] at hin
    have := wf_index hwf (mem_map_entKV.mp hin)
    simp only [Bool.or_eq_true, decide_eq_true_eq]
    exact Or.inl (by omega)
  simp only [microG, this]

/-- appending entry `len+1` -/
theorem push_step {log : List LogEntry} {s : RState} {g : Ghost} (h : LoopInv log s g) (e : LogEntry)
    (he : e.index = log.length + 1) :
    LoopInv (log ++ [e]) (applyEntry s (.logEntryFull e.index e.term (encEntry e))) g := by
  have := overwrite_step h e log.length (Nat.le_refl _) he
  rw [microG_push h _ _ _ (by omega)] at this
  have e1 : log.take log.length = log := List.take_length
  have e2 : log.drop (log.length + 1) = [] := List.drop_eq_nil_of_le (by omega)
  rw [e1, e2] at this
  exact this

/-- the conflict truncation record -/
theorem truncate_step {log : List LogEntry} {s : RState} {g : Ghost} (h : LoopInv log s g) (f : Nat) :
    LoopInv (log.take (f - 1)) (applyEntry s (.logTruncate f)) (microG g (.wal (.logTruncate f))) := by
  obtain ⟨hwf, hm, h1, h2, h3⟩ := h
  have hrm : mapRemoveFrom f s.logMap = (log.take (f - 1)).map entKV := by
    rw [hm]; have := mapRemoveFrom_take hwf f; simpa using this
  refine ⟨wf_take hwf _, ?_, ?_, ?_, ?_⟩
  · simp only [applyEntry]; exact hrm
  · simpa [applyEntry, microG] using h1
  · intro v hv; exact applyEntry_voteOk s _ v (h2 v (by simpa [microG] using hv))
  · intro a ha
    simp only [microG, List.mem_filter, decide_eq_true_eq] at ha
    have hin := h3 a ha.1
    simp only [applyEntry, mapRemoveFrom, List.mem_filter, decide_eq_true_eq]
    exact ⟨hin, by simpa [entKV] using ha.2⟩

theorem microG_tv (g : Ghost) (t : Nat) (v : Option Nat) : microG g (.wal (.termAndVote t v)) = g := rfl

/-- result of one loop iteration: a chain of satisfied states and the invariant at the end -/
structure LoopOut (s : RState) (g : Ghost) (rs : List WalEntry) (log' : List LogEntry) : Prop where
  chain : Chain s g (rs.map Micro.wal)
  inv : LoopInv log' (microAllS s (rs.map Micro.wal)) (microAllG g (rs.map Micro.wal))
  term : (microAllS s (rs.map Micro.wal)).term = s.term
  vote : (microAllS s (rs.map Micro.wal)).votedFor = s.votedFor

theorem appendOne_ok {log : List LogEntry} {s : RState} {g : Ghost} (base : Nat) (h : LoopInv log s g) (e : LogEntry)
    (hle : e.index ≤ log.length + 1) :
    LoopOut s g (appendOne base log e).1 (appendOne base log e).2 ∧ e.index ≤ (appendOne base log e).2.length := by
  unfold appendOne
  by_cases hgt : e.index > log.length
  · simp only [hgt, if_true]
    have hp := push_step h e (by omega)
    have hg := microG_push h e.index e.term (encEntry e) (by omega)
    refine ⟨⟨?_, ?_, ?_, ?_⟩, by simp; omega⟩
    · simp only [List.map_cons, List.map_nil, Chain, microS, hg]
      exact ⟨loopInv_P h, loopInv_P hp⟩
    · simpa [microAllS, microAllG, microS, hg] using hp
    · simp [microAllS, microS, applyEntry]
    · simp [microAllS, microS, applyEntry]
  · simp only [hgt, if_false]
    have trivialOut : LoopOut s g [] log :=
      ⟨by simpa [Chain] using loopInv_P h, by simpa [microAllS, microAllG] using h,
       by simp [microAllS], by simp [microAllS]⟩
    by_cases h0 : e.index ≤ base
    · simp only [h0, if_true]; exact ⟨trivialOut, by omega⟩
    · simp only [h0, if_false]
      cases hget : log[e.index - 1]? with
      | none => dsimp only; exact ⟨trivialOut, by omega⟩
      | some old =>
        dsimp only
        by_cases hc : old.term ≠ e.term
        · rw [if_pos hc]
          have ht := truncate_step h e.index
          have hlen : (log.take (e.index - 1)).length = e.index - 1 := by
            simp only [List.length_take]; omega
          have hp := push_step ht e (by omega)
          have hg := microG_push ht e.index e.term (encEntry e) (by omega)
          refine ⟨⟨?_, ?_, ?_, ?_⟩, by simp [hlen]; omega⟩
          · simp only [List.map_cons, List.map_nil, Chain, microS, hg]
            exact ⟨loopInv_P h, loopInv_P ht, loopInv_P hp⟩
          · simpa [microAllS, microAllG, microS, hg] using hp
          · simp [microAllS, microS, applyEntry]
          · simp [microAllS, microS, applyEntry]
        · rw [if_neg hc]; exact ⟨trivialOut, by dsimp only; omega⟩

theorem appendLoop_ok {log : List LogEntry} {s : RState} {g : Ghost} (base : Nat) (h : LoopInv log s g)
    (es : List LogEntry) (b : Nat) (hes : WFfrom b es) (hb : b ≤ log.length) :
    LoopOut s g (appendLoop base log es).1 (appendLoop base log es).2 := by
  induction es generalizing log s g b with
  | nil =>
    exact ⟨by simpa [appendLoop, Chain] using loopInv_P h, by simpa [appendLoop, microAllS, microAllG] using h,
           by simp [appendLoop, microAllS], by simp [appendLoop, microAllS]⟩
  | cons e es ih =>
    simp only [WFfrom] at hes
    obtain ⟨o1, hlen⟩ := appendOne_ok base h e (by omega)
    have o2 := ih o1.inv (b + 1) hes.2 (by omega)
    have key : appendLoop base log (e :: es) = ((appendOne base log e).1 ++ (appendLoop base (appendOne base log e).2 es).1,
        (appendLoop base (appendOne base log e).2 es).2) := rfl
    rw [key]
    refine ⟨?_, ?_, ?_, ?_⟩
    · rw [List.map_append]; exact (chain_append _ _).mpr ⟨o1.chain, o2.chain⟩
    · simpa [microAllS, microAllG, List.foldl_append] using o2.inv
    · have := o2.term; rw [o1.term] at this
      simpa [microAllS, List.foldl_append] using this
    · have := o2.vote; rw [o1.vote] at this
      simpa [microAllS, List.foldl_append] using this

/-- the log after writing the entries `es` over it one by one (the `for entry in &entries
    { persist_log_entry }` loop of `install_snapshot_entries`, seen from the recovered map) -/
def overwriteAll (log : List LogEntry) : List LogEntry → List LogEntry
  | [] => log
  | e :: es => overwriteAll (log.take (e.index - 1) ++ e :: log.drop e.index) es

theorem snapLoop_ok {log : List LogEntry} {s : RState} {g : Ghost} (h : LoopInv log s g)
    (es : List LogEntry) (b : Nat) (hes : WFfrom b es) (hb : b ≤ log.length) :
    LoopOut s g (es.map fun e => WalEntry.logEntryFull e.index e.term (encEntry e)) (overwriteAll log es)
    ∧ (overwriteAll log es).take (b + es.length) = log.take b ++ es := by
  induction es generalizing log s g b with
  | nil =>
    exact ⟨⟨by simpa [Chain] using loopInv_P h, by simpa [overwriteAll, microAllS, microAllG] using h,
            by simp [microAllS], by simp [microAllS]⟩, by simp [overwriteAll]⟩
  | cons e es ih =>
    simp only [WFfrom] at hes
    have o1 := overwrite_step h e b hb hes.1
    have hL : overwriteAll log (e :: es) = overwriteAll (log.take b ++ e :: log.drop (b + 1)) es := by
      simp only [overwriteAll, hes.1, Nat.add_sub_cancel]
    have hlen : b + 1 ≤ (log.take b ++ e :: log.drop (b + 1)).length := by
      simp only [List.length_append, List.length_take, List.length_cons, List.length_drop]; omega
    obtain ⟨o2, htk⟩ := ih o1 (b + 1) hes.2 hlen
    rw [hL]
    refine ⟨⟨?_, ?_, ?_, ?_⟩, ?_⟩
    · simp only [List.map_cons, Chain]; exact ⟨loopInv_P h, o2.chain⟩
    · simp only [List.map_cons, microAllS, microAllG, List.foldl_cons]; exact o2.inv
    · have := o2.term
      simpa [microAllS, microS, applyEntry] using this
    · have := o2.vote
      simpa [microAllS, microS, applyEntry] using this
    · have e1 : b + (e :: es).length = b + 1 + es.length := by simp only [List.length_cons]; omega
      have e2 : (log.take b ++ e :: log.drop (b + 1)).take (b + 1) = log.take b ++ [e] := by
        have hl : (log.take b).length = b := by simp only [List.length_take]; omega
        have h3 : (log.take b).take (b + 1) = log.take b := List.take_of_length_le (by omega)
        rw [List.take_append, hl, h3]
        simp
      rw [e1, htk, e2]; simp

theorem wf_getLast {b : Nat} {es : List LogEntry} (h : WFfrom b es) {l : LogEntry}
    (hl : es.getLast? = some l) : l.index = b + es.length := by
  induction es generalizing b with
  | nil => simp at hl
  | cons x r ih =>
    simp only [WFfrom] at h
    cases r with
    | nil =>
      simp only [List.getLast?_singleton, Option.some.injEq] at hl
      subst hl; simp only [List.length_cons, List.length_nil]; omega
    | cons y r' =>
      rw [List.getLast?_cons_cons] at hl
      have := ih h.2 hl
      simp only [List.length_cons] at this ⊢; omega

theorem mkEntries_wf (b : Nat) (ents : List (Nat × Nat)) : WFfrom b (mkEntries b ents) := by
  induction ents generalizing b with
  | nil => simp [mkEntries, WFfrom]
  | cons x r ih => obtain ⟨t, c⟩ := x; simp only [mkEntries, WFfrom]; exact ⟨trivial, ih (b + 1)⟩

theorem logOk_bound {base : Nat} {log : List LogEntry} {pi pt : Nat} (h : logOk base log pi pt = true) :
    pi ≤ log.length := by
  unfold logOk at h
  by_cases h0 : pi = 0
  · omega
  · simp only [h0, if_false] at h
    by_cases h1 : pi ≤ log.length
    · exact h1
    · simp [h1] at h

end Neumann.RaftWal

/-! Part 4: every handler keeps memory and log in step and the obligations satisfied after each
    of its micro steps. -/
namespace Neumann.RaftWal

structure StepOk (s : RState) (g : Ghost) (o : StepOut) : Prop where
  chain : Chain s g o.micros
  sync : Sync o.node (microAllS s o.micros)
  wf : WF o.node.log

theorem P_tv (s : RState) (g : Ghost) (t : Nat) (v : Option Nat) (hP : P s g) :
    P (applyEntry s (.termAndVote t v)) g := P_nonlog s g _ hP (tv_logMap s t v)

theorem P_of_sync {n : Node} {s : RState} {g : Ghost} (hS : Sync n s) (hwf : WF n.log) (hsat : Sat s g) :
    P s g := ⟨hsat, n.log, hwf, hS.2.2⟩

/-- the common "higher term seen" prefix -/
theorem preHigher_ok (n : Node) (s : RState) (g : Ghost) (t : Nat) (r : Role)
    (hS : Sync n s) (hwf : WF n.log) (hsat : Sat s g) :
    Chain s g (preHigher n t r).1
    ∧ microAllG g (preHigher n t r).1 = g
    ∧ Sync (preHigher n t r).2 (microAllS s (preHigher n t r).1)
    ∧ Sat (microAllS s (preHigher n t r).1) g
    ∧ (preHigher n t r).2.log = n.log
    ∧ (preHigher n t r).2.id = n.id := by
  have hP := P_of_sync hS hwf hsat
  unfold preHigher
  split
  · next h =>
    have hgt : t > s.term := by rw [← hS.1]; exact h
    have hP1 := P_tv s g t none hP
    have hs1 := apply_tv_higher s t none hgt
    refine ⟨⟨hP, hP1⟩, rfl, ?_, ?_, rfl, rfl⟩
    · show Sync _ (applyEntry s (.termAndVote t none))
      rw [hs1]; exact ⟨rfl, rfl, hS.2.2⟩
    · exact hP1.1
  · exact ⟨hP, rfl, hS, hsat, rfl, rfl⟩

theorem chain_ackTerm_end {s : RState} {g : Ghost} {t : Nat} (hP : P s g) (ht : t ≤ s.term) :
    Chain s g [.ackTerm t] := ⟨hP, by simpa [Chain, microS] using P_ackTerm s g t hP ht⟩

theorem microAllS_ack_end (s : RState) (ms tail : List Micro) (h : recs tail = []) :
    microAllS s (ms ++ tail) = microAllS s ms := by
  have : microAllS s (ms ++ tail) = microAllS (microAllS s ms) tail := by
    simp [microAllS, List.foldl_append]
  rw [this, microAllS_recs (microAllS s ms) tail, h]; rfl

theorem stepdown_ok (n : Node) (s : RState) (g : Ghost) (t : Nat)
    (hS : Sync n s) (hwf : WF n.log) (hsat : Sat s g) (ht : t > n.term) :
    StepOk s g (stepDownOut n t) := by
  unfold stepDownOut
  have hP := P_of_sync hS hwf hsat
  have hgt : t > s.term := by rw [← hS.1]; exact ht
  have hP1 := P_tv s g t none hP
  have hs1 := apply_tv_higher s t none hgt
  refine ⟨⟨hP, ?_⟩, ?_, hwf⟩
  · simp only [microS, microG_tv]
    exact chain_ackTerm_end hP1 (by rw [hs1]; exact Nat.le_refl _)
  · simp only [microAllS, List.foldl_cons, List.foldl_nil, microS, hs1]
    exact ⟨rfl, rfl, hS.2.2⟩

theorem noop_ok (n n' : Node) (s : RState) (g : Ghost) (rp : Reply)
    (hS : Sync n s) (hwf : WF n.log) (hsat : Sat s g)
    (h1 : n'.term = n.term) (h2 : n'.votedFor = n.votedFor) (h3 : n'.log = n.log) :
    StepOk s g { micros := [], node := n', reply := rp } := by
  refine ⟨by simpa [Chain] using P_of_sync hS hwf hsat, ?_, by rw [h3]; exact hwf⟩
  simp only [microAllS, List.foldl_nil]
  exact ⟨by rw [h1]; exact hS.1, by rw [h2]; exact hS.2.1, by rw [h3]; exact hS.2.2⟩

theorem elect_ok (n : Node) (s : RState) (g : Ghost)
    (hS : Sync n s) (hwf : WF n.log) (hsat : Sat s g) : StepOk s g (electOut n) := by
  have hP := P_of_sync hS hwf hsat
  unfold electOut
  have hgt : n.term + 1 > s.term := by rw [← hS.1]; omega
  have hs1 := apply_tv_higher s (n.term + 1) (some n.id) hgt
  have hP1 := P_tv s g (n.term + 1) (some n.id) hP
  refine ⟨⟨hP, ?_⟩, ?_, hwf⟩
  · simp only [microS, microG_tv]
    refine ⟨hP1, ?_⟩
    have hP2 := P_ackTerm _ g (n.term + 1) hP1 (by rw [hs1]; exact Nat.le_refl _)
    refine ⟨hP2, ?_⟩
    simp only [microS, Chain]
    exact P_ackVote _ _ _ _ hP2 (Or.inr ⟨by rw [hs1], by rw [hs1]⟩)
  · simp only [microAllS, List.foldl_cons, List.foldl_nil, microS, hs1]
    exact ⟨rfl, rfl, hS.2.2⟩

theorem step_ok (n : Node) (s : RState) (g : Ghost) (e : Event)
    (hS : Sync n s) (hwf : WF n.log) (hsat : Sat s g) : StepOk s g (step n e) := by
  have hP := P_of_sync hS hwf hsat
  cases e with
  | installSnapshot li lt ents =>
    simp only [step]
    cases hlast : (mkEntries 0 ents).getLast? with
    | none => exact noop_ok n n s g _ hS hwf hsat rfl rfl rfl
    | some last =>
      dsimp only
      split
      · exact noop_ok n n s g _ hS hwf hsat rfl rfl rfl
      · split
        · exact noop_ok n n s g _ hS hwf hsat rfl rfl rfl
        · obtain ⟨hc1, hg1, hS1, hsat1, hlog1, _⟩ := preHigher_ok n s g lt n.role hS hwf hsat
          have hwf1 : WF (preHigher n lt n.role).2.log := by rw [hlog1]; exact hwf
          generalize hn1 : (preHigher n lt n.role).2 = n1 at *
          generalize hm1 : (preHigher n lt n.role).1 = m1 at *
          have hsnapwf := mkEntries_wf 0 ents
          have hlidx : last.index = (mkEntries 0 ents).length := by
            have := wf_getLast hsnapwf hlast; omega
          generalize hsnap : mkEntries 0 ents = snap at *
          have hL : LoopInv n1.log (microAllS s m1) g := ⟨hwf1, hS1.2.2, hsat1⟩
          obtain ⟨o, htk⟩ := snapLoop_ok hL snap 0 hsnapwf (Nat.zero_le _)
          generalize hR : (snap.map fun e => WalEntry.logEntryFull e.index e.term (encEntry e)) = R at *
          generalize hLL : overwriteAll n1.log snap = L at *
          obtain ⟨ochain, oinv, oterm, ovote⟩ := o
          have e1 : microAllS s (m1 ++ R.map Micro.wal) = microAllS (microAllS s m1) (R.map Micro.wal) := by
            simp [microAllS, List.foldl_append]
          have e2 : microAllG g (m1 ++ R.map Micro.wal) = microAllG g (R.map Micro.wal) := by
            have : microAllG g (m1 ++ R.map Micro.wal) = microAllG (microAllG g m1) (R.map Micro.wal) := by
              simp [microAllG, List.foldl_append]
            rw [this, hg1]
          have e3 : microAllS s (m1 ++ R.map Micro.wal ++ [Micro.wal (.logTruncate (last.index + 1)),
              .ackTerm n1.term, .ackLog snap])
              = applyEntry (microAllS (microAllS s m1) (R.map Micro.wal)) (.logTruncate (last.index + 1)) := by
            simp [microAllS, List.foldl_append, microS]
          generalize hs2 : microAllS (microAllS s m1) (R.map Micro.wal) = s2 at *
          generalize hg2 : microAllG g (R.map Micro.wal) = g2 at *
          have ht := truncate_step oinv (last.index + 1)
          have hLt : L.take (last.index + 1 - 1) = snap := by
            have : last.index + 1 - 1 = 0 + snap.length := by omega
            rw [this, htk]; simp
          rw [hLt] at ht
          have hP3 := loopInv_P ht
          have hterm3 : n1.term = (applyEntry s2 (.logTruncate (last.index + 1))).term := by
            simp only [applyEntry]; rw [oterm]; exact hS1.1
          have hvote3 : n1.votedFor = (applyEntry s2 (.logTruncate (last.index + 1))).votedFor := by
            simp only [applyEntry]; rw [ovote]; exact hS1.2.1
          have hP4 := P_ackTerm _ _ n1.term hP3 (by rw [← hterm3]; exact Nat.le_refl _)
          have htail : Chain s2 g2 [Micro.wal (.logTruncate (last.index + 1)), .ackTerm n1.term, .ackLog snap] := by
            simp only [Chain, microS]
            refine ⟨loopInv_P oinv, hP3, hP4, P_ackLog _ _ _ hP4 ?_⟩
            intro a ha
            rw [ht.2.1]
            exact List.mem_map_of_mem ha
          refine ⟨?_, ?_, ht.1⟩
          · refine (chain_append _ _).mpr ⟨(chain_append _ _).mpr ⟨hc1, ?_⟩, ?_⟩
            · rw [hg1]; exact ochain
            · rw [e1, e2]; exact htail
          · rw [e3]
            exact ⟨hterm3, hvote3, ht.2.1⟩
  | startElection => exact elect_ok n s g hS hwf hsat
  | voteResponse frm t granted =>
    simp only [step]
    split
    · exact noop_ok n n s g _ hS hwf hsat rfl rfl rfl
    · split
      · next h => exact stepdown_ok n s g t hS hwf hsat h
      · split
        · split
          · exact noop_ok n _ s g _ hS hwf hsat rfl rfl rfl
          · exact noop_ok n _ s g _ hS hwf hsat rfl rfl rfl
        · exact noop_ok n n s g _ hS hwf hsat rfl rfl rfl
  | startPreVote =>
    simp only [step]
    exact noop_ok n _ s g _ hS hwf hsat rfl rfl rfl
  | preVote t c li lt =>
    simp only [step]
    refine ⟨chain_ackTerm_end hP (by rw [hS.1]; exact Nat.le_refl _), ?_, hwf⟩
    simp only [microAllS, List.foldl_cons, List.foldl_nil, microS]
    exact hS
  | preVoteResponse frm t granted =>
    simp only [step]
    split
    · exact noop_ok n n s g _ hS hwf hsat rfl rfl rfl
    · split
      · next h =>
        exact stepdown_ok { n with inPreVote := false } s g t ⟨hS.1, hS.2.1, hS.2.2⟩ hwf hsat h
      · split
        · split
          · exact elect_ok _ s g ⟨hS.1, hS.2.1, hS.2.2⟩ hwf hsat
          · exact noop_ok n _ s g _ hS hwf hsat rfl rfl rfl
        · exact noop_ok n n s g _ hS hwf hsat rfl rfl rfl
  | timeoutNow frm t lid =>
    simp only [step]
    split
    · exact noop_ok n n s g _ hS hwf hsat rfl rfl rfl
    · split
      · exact noop_ok n n s g _ hS hwf hsat rfl rfl rfl
      · exact elect_ok n s g hS hwf hsat
  | appendResponse t =>
    simp only [step]
    split
    · next h => exact stepdown_ok n s g t hS hwf hsat h.2
    · exact noop_ok n n s g _ hS hwf hsat rfl rfl rfl
  | becomeLeader =>
    simp only [step]
    exact noop_ok n _ s g _ hS hwf hsat rfl rfl rfl
  | compact i =>
    simp only [step]
    exact noop_ok n _ s g _ hS hwf hsat rfl rfl rfl
  | propose cmd =>
    simp only [step]
    split
    · have hL : LoopInv n.log s g := ⟨hwf, hS.2.2, hsat⟩
      have hp := push_step hL ⟨n.log.length + 1, n.term, cmd⟩ rfl
      have hP1 := loopInv_P hp
      have hterm : (applyEntry s (.logEntryFull (n.log.length + 1) n.term
          (encEntry ⟨n.log.length + 1, n.term, cmd⟩))).term = s.term := by simp [applyEntry]
      have hvote : (applyEntry s (.logEntryFull (n.log.length + 1) n.term
          (encEntry ⟨n.log.length + 1, n.term, cmd⟩))).votedFor = s.votedFor := by simp [applyEntry]
      have hg := microG_push hL (n.log.length + 1) n.term (encEntry ⟨n.log.length + 1, n.term, cmd⟩) (by omega)
      refine ⟨⟨hP, ?_⟩, ?_, hp.1⟩
      · simp only [microS, hg]
        refine ⟨hP1, ?_⟩
        have hP2 := P_ackTerm _ g n.term hP1 (by rw [hterm, hS.1]; exact Nat.le_refl _)
        refine ⟨hP2, ?_⟩
        simp only [microS, Chain]
        refine P_ackLog _ _ _ hP2 ?_
        intro a ha
        simp only [List.mem_singleton] at ha
        rw [ha, hp.2.1]; simp
      · simp only [microAllS, List.foldl_cons, List.foldl_nil, microS]
        exact ⟨by rw [hterm]; exact hS.1, by rw [hvote]; exact hS.2.1, hp.2.1⟩
    · exact noop_ok n n s g _ hS hwf hsat rfl rfl rfl
  | requestVote t cand li lt =>
    obtain ⟨hc1, hg1, hS1, hsat1, hlog1, _⟩ := preHigher_ok n s g t .follower hS hwf hsat
    have hwf1 : WF (preHigher n t .follower).2.log := by rw [hlog1]; exact hwf
    have hP1 := P_of_sync hS1 hwf1 hsat1
    simp only [step]
    generalize hn1 : (preHigher n t .follower).2 = n1 at *
    generalize hm1 : (preHigher n t .follower).1 = m1 at *
    have tailDeny : StepOk s g (StepOut.mk (m1 ++ [Micro.ackTerm n1.term]) n1 (Reply.vote n1.term false)) := by
      refine ⟨(chain_append _ _).mpr ⟨hc1, ?_⟩, ?_, hwf1⟩
      · rw [hg1]; exact chain_ackTerm_end hP1 (by rw [hS1.1]; exact Nat.le_refl _)
      · rw [microAllS_ack_end _ _ _ (by rfl)]; exact hS1
    split
    · split
      · next hterm hgrant =>
        -- vote granted
        generalize hs1 : microAllS s m1 = s1 at *
        have hts : n1.term = s1.term := hS1.1
        have hs2 : (applyEntry s1 (.termAndVote n1.term (some cand))).term = s1.term
            ∧ (applyEntry s1 (.termAndVote n1.term (some cand))).votedFor = some cand
            ∧ (applyEntry s1 (.termAndVote n1.term (some cand))).logMap = s1.logMap := by
          rw [hts]
          rcases hgrant.1 with hv | hv
          · have : s1.votedFor = none := by rw [← hS1.2.1]; exact hv
            rw [apply_tv_same_none s1 _ this]; exact ⟨rfl, rfl, rfl⟩
          · have : s1.votedFor = some cand := by rw [← hS1.2.1]; exact hv
            rw [apply_tv_same_some s1 _ this]; exact ⟨rfl, this, rfl⟩
        have hP2 := P_tv s1 g n1.term (some cand) hP1
        refine ⟨(chain_append _ _).mpr ⟨hc1, ?_⟩, ?_, hwf1⟩
        · rw [hg1, hs1]
          refine ⟨hP1, ?_⟩
          simp only [microS, microG_tv]
          refine ⟨hP2, ?_⟩
          have hP3 := P_ackTerm _ g n1.term hP2 (by rw [hs2.1, hts]; exact Nat.le_refl _)
          refine ⟨hP3, ?_⟩
          simp only [microS, Chain]
          exact P_ackVote _ _ _ _ hP3 (Or.inr ⟨by rw [hs2.1, hts], hs2.2.1⟩)
        · have : microAllS s (m1 ++ [Micro.wal (.termAndVote n1.term (some cand)), .ackTerm n1.term, .ackVote n1.term cand])
              = applyEntry s1 (.termAndVote n1.term (some cand)) := by
            simp only [microAllS, List.foldl_append, List.foldl_cons, List.foldl_nil, microS] at hs1 ⊢
            rw [hs1]
          rw [this]
          exact ⟨by rw [hs2.1]; exact hts, by rw [hs2.2.1], by rw [hs2.2.2]; exact hS1.2.2⟩
      · exact tailDeny
    · exact tailDeny
  | appendEntries t leader prevIdx prevTerm ents =>
    obtain ⟨hc1, hg1, hS1, hsat1, hlog1, _⟩ := preHigher_ok n s g t .follower hS hwf hsat
    have hwf1 : WF (preHigher n t .follower).2.log := by rw [hlog1]; exact hwf
    have hP1 := P_of_sync hS1 hwf1 hsat1
    simp only [step]
    generalize hn1 : (preHigher n t .follower).2 = n1 at *
    generalize hm1 : (preHigher n t .follower).1 = m1 at *
    split
    · split
      · next hterm hok =>
        have hL : LoopInv n1.log (microAllS s m1) g := ⟨hwf1, hS1.2.2, hsat1⟩
        have o := appendLoop_ok n1.base hL (mkEntries prevIdx ents) prevIdx (mkEntries_wf _ _) (logOk_bound hok)
        generalize hr : appendLoop n1.base n1.log (mkEntries prevIdx ents) = r at *
        obtain ⟨ochain, oinv, oterm, ovote⟩ := o
        have e1 : microAllS s (m1 ++ r.1.map Micro.wal) = microAllS (microAllS s m1) (r.1.map Micro.wal) := by
          simp [microAllS, List.foldl_append]
        have e2 : microAllG g (m1 ++ r.1.map Micro.wal) = microAllG g (r.1.map Micro.wal) := by
          have : microAllG g (m1 ++ r.1.map Micro.wal) = microAllG (microAllG g m1) (r.1.map Micro.wal) := by
            simp [microAllG, List.foldl_append]
          rw [this, hg1]
        generalize hs2 : microAllS (microAllS s m1) (r.1.map Micro.wal) = s2 at *
        generalize hg2 : microAllG g (r.1.map Micro.wal) = g2 at *
        have hP2 := loopInv_P oinv
        have hterm2 : n1.term = s2.term := by rw [oterm]; exact hS1.1
        have hP3 := P_ackTerm _ _ n1.term hP2 (by rw [hterm2]; exact Nat.le_refl _)
        have htail : Chain s2 g2 [.ackTerm n1.term,
            .ackLog ((r.2.drop n1.base).filter (fun e => decide (e.index ≤ min (prevIdx + ents.length) r.2.length)))] := by
          refine ⟨hP2, hP3, ?_⟩
          simp only [microS, Chain]
          refine P_ackLog _ _ _ hP3 ?_
          intro a ha
          rw [oinv.2.1]
          exact List.mem_map_of_mem (List.mem_of_mem_drop (List.mem_filter.mp ha).1)
        refine ⟨?_, ?_, oinv.1⟩
        · refine (chain_append _ _).mpr ⟨(chain_append _ _).mpr ⟨hc1, ?_⟩, ?_⟩
          · rw [hg1]; exact ochain
          · rw [e1, e2]; exact htail
        · rw [microAllS_ack_end _ _ _ (by rfl), e1]
          exact ⟨hterm2, by rw [ovote]; exact hS1.2.1, oinv.2.1⟩
      · refine ⟨(chain_append _ _).mpr ⟨hc1, ?_⟩, ?_, hwf1⟩
        · rw [hg1]; exact chain_ackTerm_end hP1 (by rw [hS1.1]; exact Nat.le_refl _)
        · rw [microAllS_ack_end _ _ _ (by rfl)]; exact hS1
    · refine ⟨(chain_append _ _).mpr ⟨hc1, ?_⟩, ?_, hwf1⟩
      · rw [hg1]; exact chain_ackTerm_end hP1 (by rw [hS1.1]; exact Nat.le_refl _)
      · rw [microAllS_ack_end _ _ _ (by rfl)]; exact hS1

end Neumann.RaftWal

/-! Part 5: executions with any number of crashes; byte cuts are record-level crashes. -/
namespace Neumann.RaftWal

/-- the invariant of a running (or just restarted) node -/
def Inv (σ : Sys) : Prop :=
  Sync σ.node (fromEntries σ.dur) ∧ WF σ.node.log ∧ Sat (fromEntries σ.dur) σ.ghost

theorem fromEntries_recs (d : List WalEntry) (ms : List Micro) :
    fromEntries (d ++ recs ms) = microAllS (fromEntries d) ms := by
  rw [fromEntries_append, microAllS_recs]

theorem inv_init (id : Nat) : Inv (initSys id) := by
  refine ⟨⟨rfl, rfl, rfl⟩, trivial, ?_, ?_, ?_⟩
  · exact Nat.le_refl _
  · intro v hv; simp [initSys] at hv
  · intro e he; simp [initSys] at he

theorem inv_execAct (σ : Sys) (a : Act) (h : Inv σ) : Inv (execAct σ a) := by
  obtain ⟨hS, hwf, hsat⟩ := h
  cases a with
  | ev e =>
    have o := step_ok σ.node (fromEntries σ.dur) σ.ghost e hS hwf hsat
    simp only [execAct, Inv, fromEntries_recs]
    exact ⟨o.sync, o.wf, (chain_end o.chain).1⟩
  | crash e k =>
    have o := step_ok σ.node (fromEntries σ.dur) σ.ghost e hS hwf hsat
    have hp := chain_take o.chain k
    simp only [execAct, Inv, fromEntries_recs]
    have hr := restart_sync σ.node.id _ hp.2
    exact ⟨hr.1, hr.2, hp.1⟩

theorem inv_exec (σ : Sys) (as : List Act) (h : Inv σ) : Inv (exec σ as) := by
  induction as generalizing σ with
  | nil => exact h
  | cons a as ih =>
    simp only [exec, List.foldl_cons]
    exact ih _ (inv_execAct σ a h)

/-- the records of a micro prefix are a prefix of the records -/
theorem recs_take (ms : List Micro) (k : Nat) :
    recs (ms.take k) = (recs ms).take (recs (ms.take k)).length := by
  induction ms generalizing k with
  | nil => simp [recs]
  | cons μ ms ih =>
    cases k with
    | zero => simp [recs]
    | succ k =>
      cases μ <;> simp only [List.take_succ_cons, recs, List.filterMap_cons] <;>
        first
        | (simp only [List.length_cons, List.take_succ_cons]; congr 1; exact ih k)
        | exact ih k

/-! the framed-log facts needed beyond Common/FramedLogLemmas: how replay of a cut log ENDS -/
namespace FL
open FramedLog
variable (crc : List Nat → Nat) (dec : List Nat → Bool)

theorem parse_torn_end (p : List Nat) (m : Nat) (hp : p.length < U32)
    (hm : m < (encodeRec crc p).length) :
    (parse crc dec ((encodeRec crc p).take m)).2 ≠ .badCrc := by
  rw [encodeRec_length] at hm
  rw [parse]
  by_cases h8 : ((encodeRec crc p).take m).length < 8
  · rw [dif_pos h8]; dsimp only; split <;> simp
  · rw [dif_neg h8]
    have hm8 : 8 ≤ m := by
      simp only [List.length_take, encodeRec_length] at h8; omega
    have e1 : ((encodeRec crc p).take m).take 4 = le32 p.length := by
      rw [List.take_take]
      have : min 4 m = 4 := by omega
      rw [this]; simp [encodeRec, le32]
    have e3 : (((encodeRec crc p).take m).drop 8).length = m - 8 := by
      simp only [List.length_drop, List.length_take, encodeRec_length]; omega
    simp only [e1, le32_rt _ hp, e3]
    have : m - 8 < p.length := by omega
    simp [this]

theorem parse_take_end (ps : List (List Nat)) (n : Nat) (h : ∀ p ∈ ps, GoodRec crc dec p) :
    (parse crc dec ((encodeAll crc ps).take n)).2 ≠ .badCrc := by
  induction ps generalizing n with
  | nil => simp [encodeAll, parse_nil]
  | cons p ps ih =>
    have hp := h p (by simp)
    have henc : encodeAll crc (p :: ps) = encodeRec crc p ++ encodeAll crc ps := by simp [encodeAll]
    rw [henc, List.take_append]
    by_cases hle : (encodeRec crc p).length ≤ n
    · rw [List.take_of_length_le hle, parse_cons crc dec p _ hp]
      exact ih _ (fun q hq => h q (by simp [hq]))
    · have hz : n - (encodeRec crc p).length = 0 := by omega
      rw [hz, List.take_zero, List.append_nil]
      exact parse_torn_end crc dec p n hp.1 (by omega)

end FL

/-! byte level -/
open FramedLog

section bytes
variable (crc : List Nat → Nat) (ser : WalEntry → List Nat) (deser : List Nat → Option WalEntry)

/-- what is assumed of the opaque serializer and of record sizes -/
structure GoodSer : Prop where
  rt : ∀ r, deser (ser r) = some r
  len : ∀ r, (ser r).length < U32
  crcb : ∀ p, crc p < U32

def fileOf (d : List WalEntry) : List Nat := encodeAll crc (d.map ser)

theorem goodrec_of (h : GoodSer crc ser deser) (d : List WalEntry) :
    ∀ p ∈ d.map ser, GoodRec crc (fun p => (deser p).isSome) p := by
  intro p hp
  obtain ⟨r, _, rfl⟩ := List.mem_map.mp hp
  exact ⟨h.len r, h.crcb _, by simp [h.rt r]⟩

theorem filterMap_deser (h : GoodSer crc ser deser) (d : List WalEntry) : (d.map ser).filterMap deser = d := by
  induction d with
  | nil => rfl
  | cons r d ih => simp [h.rt r, ih]

/-- A crash that leaves any byte prefix of the file which still contains the already-synced part
    `d` is a record-level crash: `recoverBytes` sees `d` plus the first `j` in-flight records,
    never a checksum error, and the repaired file is again the encoding of exactly those records. -/
theorem byte_cut (h : GoodSer crc ser deser) (d rs : List WalEntry) (n : Nat)
    (hn : (fileOf crc ser d).length ≤ n) :
    ∃ j, j ≤ rs.length ∧
      (∃ e, recoverBytes crc deser ((fileOf crc ser (d ++ rs)).take n)
            = .ok (fromEntries (d ++ rs.take j)) (d.length + j) e)
      ∧ openRepair ((fileOf crc ser (d ++ rs)).take n) = fileOf crc ser (d ++ rs.take j) := by
  have hg := goodrec_of crc ser deser h (d ++ rs)
  let ps := (d ++ rs).map ser
  let w := wholeWithin crc ps n
  have hw1 : d.length ≤ w := by
    apply wholeWithin_ge crc ps d.length n (by simp [ps])
    have : ps.take d.length = d.map ser := by simp [ps]
    rw [this]; exact hn
  have hw2 : w ≤ ps.length := wholeWithin_le crc ps n
  have htake : ps.take w = (d ++ rs.take (w - d.length)).map ser := by
    simp only [ps, List.map_append, List.take_append, List.length_map, List.map_take]
    congr 1
    exact List.take_of_length_le (by simp; omega)
  refine ⟨w - d.length, by simp [ps] at hw2; omega, ?_, ?_⟩
  · have hp := parse_take crc (fun p => (deser p).isSome) ps n hg
    have hend := FL.parse_take_end crc (fun p => (deser p).isSome) ps n hg
    have hfm : (ps.take w).filterMap deser = d ++ rs.take (w - d.length) := by
      rw [htake]; exact filterMap_deser crc ser deser h _
    have hlen : (ps.take w).length = d.length + (w - d.length) := by
      simp only [List.length_take]; omega
    simp only [recoverBytes, fileOf]
    generalize hpr : parse crc (fun p => (deser p).isSome) ((encodeAll crc ps).take n) = pr at *
    obtain ⟨p1, p2⟩ := pr
    simp only at hp hend
    subst hp
    cases p2 with
    | badCrc => exact absurd rfl hend
    | clean => exact ⟨.clean, by show Recovered.ok (fromEntries ((ps.take w).filterMap deser)) (ps.take w).length _ = _; rw [hfm, hlen]⟩
    | torn => exact ⟨.torn, by show Recovered.ok (fromEntries ((ps.take w).filterMap deser)) (ps.take w).length _ = _; rw [hfm, hlen]⟩
    | undecodable => exact ⟨.undecodable, by show Recovered.ok (fromEntries ((ps.take w).filterMap deser)) (ps.take w).length _ = _; rw [hfm, hlen]⟩
  · have := openRepair_take crc ps n (fun p hp => (hg p hp).1)
    simp only [fileOf]
    rw [this, htake]

end bytes

end Neumann.RaftWal

/-! Part 6: at most one candidate per term ever gets this node's vote, across any crashes. -/
namespace Neumann.RaftWal

def VotesFn (vs : List (Nat × Nat)) : Prop := ∀ v ∈ vs, ∀ w ∈ vs, v.1 = w.1 → v.2 = w.2

theorem preHigher_no_vote (n : Node) (t : Nat) (r : Role) (a b : Nat) :
    Micro.ackVote a b ∉ (preHigher n t r).1 := by
  unfold preHigher; split <;> simp

theorem electOut_votes (n : Node) (t c : Nat) (h : Micro.ackVote t c ∈ (electOut n).micros) :
    (electOut n).node.term = t ∧ (electOut n).node.votedFor = some c := by
  simp only [electOut, List.mem_cons, List.mem_nil_iff, or_false, reduceCtorEq, false_or, Micro.ackVote.injEq] at h ⊢
  obtain ⟨rfl, rfl⟩ := h; exact ⟨rfl, rfl⟩

theorem stepDownOut_no_vote (n : Node) (t a b : Nat) : Micro.ackVote a b ∉ (stepDownOut n t).micros := by
  simp [stepDownOut]

/-- a vote is only ever announced for the term and candidate the node then holds in memory -/
theorem step_votes (n : Node) (e : Event) (t c : Nat) (h : Micro.ackVote t c ∈ (step n e).micros) :
    (step n e).node.term = t ∧ (step n e).node.votedFor = some c := by
  have hno := preHigher_no_vote n
  cases e with
  | startElection => exact electOut_votes n t c h
  | voteResponse frm t' granted =>
    simp only [step] at h
    (repeat' split at h) <;> first
      | exact absurd h (stepDownOut_no_vote _ _ _ _)
      | simp at h
  | startPreVote => simp [step] at h
  | preVote a b c' d => simp [step] at h
  | preVoteResponse frm t' granted =>
    simp only [step] at h ⊢
    split
    · next h1 => rw [if_pos h1] at h; simp at h
    · next h1 =>
      rw [if_neg h1] at h
      split
      · next h2 => rw [if_pos h2] at h; exact absurd h (stepDownOut_no_vote _ _ _ _)
      · next h2 =>
        rw [if_neg h2] at h
        split
        · next h3 =>
          rw [if_pos h3] at h
          split
          · next h4 => rw [if_pos h4] at h; exact electOut_votes _ t c h
          · next h4 => rw [if_neg h4] at h; simp at h
        · next h3 => rw [if_neg h3] at h; simp at h
  | timeoutNow frm t' lid =>
    simp only [step] at h ⊢
    split
    · next h1 => rw [if_pos h1] at h; simp at h
    · next h1 =>
      rw [if_neg h1] at h
      split
      · next h2 => rw [if_pos h2] at h; simp at h
      · next h2 => rw [if_neg h2] at h; exact electOut_votes n t c h
  | appendResponse t' =>
    simp only [step] at h
    split at h
    · exact absurd h (stepDownOut_no_vote _ _ _ _)
    · simp at h
  | becomeLeader => simp [step] at h
  | compact i => simp [step] at h
  | propose cmd =>
    simp only [step] at h ⊢
    split at h <;> simp at h
  | installSnapshot a b es =>
    simp only [step] at h
    split at h
    · simp at h
    · split at h
      · simp at h
      · split at h
        · simp at h
        · simp only [List.mem_append, List.mem_map, List.mem_cons, List.mem_nil_iff, or_false, reduceCtorEq,
            and_false, exists_false] at h
          exact absurd h (hno _ _ _ _)
  | appendEntries t' l pi pt es =>
    simp only [step] at h
    split at h
    · split at h
      · simp only [List.mem_append, List.mem_map, List.mem_cons, List.mem_nil_iff, or_false, reduceCtorEq,
          and_false, exists_false] at h
        exact absurd h (hno _ _ _ _)
      · simp only [List.mem_append, List.mem_cons, List.mem_nil_iff, or_false, reduceCtorEq] at h
        exact absurd h (hno _ _ _ _)
    · simp only [List.mem_append, List.mem_cons, List.mem_nil_iff, or_false, reduceCtorEq] at h
      exact absurd h (hno _ _ _ _)
  | requestVote t' cand li lt =>
    simp only [step] at h ⊢
    split
    · next hterm =>
      rw [if_pos hterm] at h
      split
      · next hg =>
        rw [if_pos hg] at h
        simp only [List.mem_append, List.mem_cons, List.mem_nil_iff, or_false, reduceCtorEq, false_or,
          Micro.ackVote.injEq] at h
        rcases h with h | ⟨rfl, rfl⟩
        · exact absurd h (hno _ _ _ _)
        · exact ⟨rfl, rfl⟩
      · next hg =>
        rw [if_neg hg] at h
        simp only [List.mem_append, List.mem_cons, List.mem_nil_iff, or_false, reduceCtorEq] at h
        exact absurd h (hno _ _ _ _)
    · next hterm =>
      rw [if_neg hterm] at h
      simp only [List.mem_append, List.mem_cons, List.mem_nil_iff, or_false, reduceCtorEq] at h
      exact absurd h (hno _ _ _ _)

theorem votes_microAllG (g : Ghost) (ms : List Micro) (v : Nat × Nat) :
    v ∈ (microAllG g ms).votes ↔ v ∈ g.votes ∨ Micro.ackVote v.1 v.2 ∈ ms := by
  induction ms generalizing g with
  | nil => simp [microAllG]
  | cons μ ms ih =>
    simp only [microAllG, List.foldl_cons] at ih ⊢
    rw [ih]
    cases μ with
    | wal r => cases r <;> simp [microG]
    | ackTerm t => simp [microG]
    | ackLog es => simp [microG]
    | ackVote t c =>
      obtain ⟨a, b⟩ := v
      simp only [microG, List.mem_cons, Prod.mk.injEq, Micro.ackVote.injEq]
      constructor
      · intro h; rcases h with (h | h) | h
        · exact Or.inr (Or.inl h)
        · exact Or.inl h
        · exact Or.inr (Or.inr h)
      · intro h; rcases h with h | h | h
        · exact Or.inl (Or.inr h)
        · exact Or.inl (Or.inl h)
        · exact Or.inr h

/-- after a completed handler the announced votes are still one-per-term -/
theorem votesFn_ev (σ : Sys) (e : Event) (h : Inv σ) (hf : VotesFn σ.ghost.votes) :
    VotesFn (execAct σ (.ev e)).ghost.votes := by
  have hinv' := inv_execAct σ (.ev e) h
  obtain ⟨hS', _, hsat'⟩ := hinv'
  have key : ∀ w : Nat × Nat, Micro.ackVote w.1 w.2 ∈ (step σ.node e).micros →
      ∀ v ∈ (execAct σ (.ev e)).ghost.votes, v.1 = w.1 → v.2 = w.2 := by
    intro w hw v hv hvw
    have hn := step_votes σ.node e w.1 w.2 hw
    have hvo := hsat'.2.1 v hv
    have ht : (fromEntries (execAct σ (.ev e)).dur).term = w.1 := by rw [← hS'.1]; exact hn.1
    have hvf : (fromEntries (execAct σ (.ev e)).dur).votedFor = some w.2 := by rw [← hS'.2.1]; exact hn.2
    rcases hvo with hlt | ⟨_, hsome⟩
    · omega
    · rw [hvf] at hsome; exact (Option.some.inj hsome).symm
  intro v hv w hw hvw
  have hv' := (votes_microAllG σ.ghost (step σ.node e).micros v).mp hv
  have hw' := (votes_microAllG σ.ghost (step σ.node e).micros w).mp hw
  rcases hw' with hwold | hwnew
  · rcases hv' with hvold | hvnew
    · exact hf v hvold w hwold hvw
    · exact (key v hvnew w hw hvw.symm).symm
  · exact key w hwnew v hv hvw

theorem votesFn_execAct (σ : Sys) (a : Act) (h : Inv σ) (hf : VotesFn σ.ghost.votes) :
    VotesFn (execAct σ a).ghost.votes := by
  cases a with
  | ev e => exact votesFn_ev σ e h hf
  | crash e k =>
    have hfull := votesFn_ev σ e h hf
    have sub : ∀ v ∈ (execAct σ (.crash e k)).ghost.votes, v ∈ (execAct σ (.ev e)).ghost.votes := by
      intro v hv
      have := (votes_microAllG σ.ghost ((step σ.node e).micros.take k) v).mp hv
      apply (votes_microAllG σ.ghost (step σ.node e).micros v).mpr
      rcases this with h1 | h2
      · exact Or.inl h1
      · exact Or.inr (List.mem_of_mem_take h2)
    intro v hv w hw hvw
    exact hfull v (sub v hv) w (sub w hw) hvw

theorem votesFn_exec (σ : Sys) (as : List Act) (h : Inv σ) (hf : VotesFn σ.ghost.votes) :
    VotesFn (exec σ as).ghost.votes := by
  induction as generalizing σ with
  | nil => exact hf
  | cons a as ih =>
    simp only [exec, List.foldl_cons]
    exact ih _ (inv_execAct σ a h) (votesFn_execAct σ a h hf)

end Neumann.RaftWal
