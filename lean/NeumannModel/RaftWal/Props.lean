import NeumannModel.RaftWal.Lemmas
/-
  C10 — Raft node restart never forgets a vote, a term or an acknowledged entry.
-/
namespace Neumann.RaftWal.Props
open Neumann.RaftWal

/-- whatever records follow, the recovered term never goes down -/
theorem recovered_term_monotone (rs extra : List WalEntry) :
    (fromEntries rs).term ≤ (fromEntries (rs ++ extra)).term := by
  simp only [fromEntries, applyAll, List.foldl_append]
  exact applyAll_term_mono _ extra

/-- a recovered vote is never replaced by a different vote of the same term -/
theorem recovered_vote_stable (rs extra : List WalEntry) (v : Nat × Nat) (h : VoteOk (fromEntries rs) v) :
    VoteOk (fromEntries (rs ++ extra)) v := by
  simp only [fromEntries, applyAll, List.foldl_append]
  exact applyAll_voteOk _ extra v h

example : VoteOk (fromEntries [.termAndVote 3 (some 2)]) (3, 2) := by unfold VoteOk; decide

end Neumann.RaftWal.Props
