import NeumannModel.RaftWal.Lemmas
/-
  C10 — Raft node restart never forgets a vote, a term or an acknowledged entry.

  Setting of every theorem below (the quantifier of the property):
    * `acts`  : ANY history of handler calls and crashes — `Act.ev e` runs handler `e` to the end,
                `Act.crash e k` kills the process after `k` micro steps of handler `e` (a micro step is
                one fsynced WAL append or one acknowledgement sent) and restarts the node from its WAL.
                The list is arbitrary, so the number of crashes is unbounded.
    * then handler `e` starts and the machine dies leaving ANY byte prefix `n` of the WAL file that
      still contains the part synced before `e` started (appends are fsynced one after the other, so a
      crash can only tear the record being written);
    * `ghost` is what the node had told the outside world at that moment: the highest term it acted in,
      the votes it granted, the entries it acknowledged to a leader or accepted as leader
      (`microAllG σ.ghost (ms.take k)` for every `k` consistent with the records found on disk).
  `restart` is `RaftNode::with_wal`; `recoverBytes` is `RaftWal::open` + `replay` + `from_entries`.
  `_partial`: handlers other than `install_snapshot` (see `recovered_log_contains_acked_full`).
-/
namespace Neumann.RaftWal.Props
open Neumann.RaftWal Neumann.FramedLog

variable (crc : List Nat → Nat) (ser : WalEntry → List Nat) (deser : List Nat → Option WalEntry)

/-- the file cut at byte `n` while handler `e` was running on the system reached by `acts` -/
def crashFile (id : Nat) (acts : List Act) (e : Event) (n : Nat) : List Nat :=
  let σ := exec (initSys id) acts
  (fileOf crc ser (σ.dur ++ recs (step σ.node e).micros)).take n

/-- obligations in force when `k` micro steps of `e` were done -/
def ghostAt (id : Nat) (acts : List Act) (e : Event) (k : Nat) : Ghost :=
  let σ := exec (initSys id) acts
  microAllG σ.ghost ((step σ.node e).micros.take k)

/-- Core statement: a byte-level crash is a record-level crash, the restarted system satisfies the
    invariant again (so the argument repeats for any further crash), and the repaired file is the
    exact encoding of the surviving records. -/
theorem byte_crash_refines_record_crash (h : GoodSer crc ser deser) (id : Nat) (acts : List Act) (e : Event)
    (n : Nat) (hacts : ∀ a ∈ acts, NoSnapAct a) (he : NoSnap e)
    (hn : (fileOf crc ser (exec (initSys id) acts).dur).length ≤ n) :
    ∃ s cnt en, recoverBytes crc deser (crashFile crc ser id acts e n) = .ok s cnt en ∧
      ∀ k, (exec (initSys id) acts).dur.length + (recs ((step (exec (initSys id) acts).node e).micros.take k)).length = cnt →
        let σ' := execAct (exec (initSys id) acts) (.crash e k)
        s = fromEntries σ'.dur ∧ openRepair (crashFile crc ser id acts e n) = fileOf crc ser σ'.dur ∧ Inv σ' := by
  obtain ⟨j, _, ⟨en, hrec⟩, hrep⟩ := byte_cut crc ser deser h (exec (initSys id) acts).dur
    (recs (step (exec (initSys id) acts).node e).micros) n hn
  refine ⟨_, _, en, hrec, ?_⟩
  intro k hk
  have hj : (recs ((step (exec (initSys id) acts).node e).micros.take k)).length = j := by omega
  have hd : (execAct (exec (initSys id) acts) (.crash e k)).dur
      = (exec (initSys id) acts).dur ++ (recs (step (exec (initSys id) acts).node e).micros).take j := by
    simp only [execAct]
    rw [recs_take, hj]
  refine ⟨by rw [hd], by rw [hd]; exact hrep, ?_⟩
  exact inv_execAct _ _ (inv_exec _ _ (inv_init id) hacts) he

/-- **Term.** The restarted node's term is at least every term it had acted in. -/
theorem recovered_term_ge_acted_partial (h : GoodSer crc ser deser) (id : Nat) (acts : List Act) (e : Event)
    (n : Nat) (hacts : ∀ a ∈ acts, NoSnapAct a) (he : NoSnap e)
    (hn : (fileOf crc ser (exec (initSys id) acts).dur).length ≤ n) :
    ∃ s cnt en, recoverBytes crc deser (crashFile crc ser id acts e n) = .ok s cnt en ∧
      ∀ k, (exec (initSys id) acts).dur.length + (recs ((step (exec (initSys id) acts).node e).micros.take k)).length = cnt →
        (ghostAt id acts e k).actedTerm ≤ (restart id s).term := by
  obtain ⟨s, cnt, en, hrec, hall⟩ := byte_crash_refines_record_crash crc ser deser h id acts e n hacts he hn
  refine ⟨s, cnt, en, hrec, fun k hk => ?_⟩
  obtain ⟨hs, _, hinv⟩ := hall k hk
  have := hinv.2.2.1
  rw [← hs] at this
  exact this

/-- **Vote.** For every vote `(t, c)` the node had granted: after restart it is past term `t`, or still
    in term `t` with `votedFor = c`. -/
theorem recovered_vote_eq_cast_partial (h : GoodSer crc ser deser) (id : Nat) (acts : List Act) (e : Event)
    (n : Nat) (hacts : ∀ a ∈ acts, NoSnapAct a) (he : NoSnap e)
    (hn : (fileOf crc ser (exec (initSys id) acts).dur).length ≤ n) :
    ∃ s cnt en, recoverBytes crc deser (crashFile crc ser id acts e n) = .ok s cnt en ∧
      ∀ k, (exec (initSys id) acts).dur.length + (recs ((step (exec (initSys id) acts).node e).micros.take k)).length = cnt →
        ∀ v ∈ (ghostAt id acts e k).votes,
          v.1 < (restart id s).term ∨ (v.1 = (restart id s).term ∧ (restart id s).votedFor = some v.2) := by
  obtain ⟨s, cnt, en, hrec, hall⟩ := byte_crash_refines_record_crash crc ser deser h id acts e n hacts he hn
  refine ⟨s, cnt, en, hrec, fun k hk v hv => ?_⟩
  obtain ⟨hs, _, hinv⟩ := hall k hk
  have := hinv.2.2.2.1 v hv
  rw [← hs] at this
  exact this

/-- **Log.** Every entry the node had acknowledged to a leader or accepted as leader (and that no
    conflict truncation ordered by a later leader had begun to remove) is in the restarted node's log. -/
theorem recovered_log_contains_acked_partial (h : GoodSer crc ser deser) (id : Nat) (acts : List Act) (e : Event)
    (n : Nat) (hacts : ∀ a ∈ acts, NoSnapAct a) (he : NoSnap e)
    (hn : (fileOf crc ser (exec (initSys id) acts).dur).length ≤ n) :
    ∃ s cnt en, recoverBytes crc deser (crashFile crc ser id acts e n) = .ok s cnt en ∧
      ∀ k, (exec (initSys id) acts).dur.length + (recs ((step (exec (initSys id) acts).node e).micros.take k)).length = cnt →
        ∀ a ∈ (ghostAt id acts e k).acked, a ∈ (restart id s).log := by
  obtain ⟨s, cnt, en, hrec, hall⟩ := byte_crash_refines_record_crash crc ser deser h id acts e n hacts he hn
  refine ⟨s, cnt, en, hrec, fun k hk a ha => ?_⟩
  obtain ⟨hs, _, hinv⟩ := hall k hk
  have hmem := hinv.2.2.2.2 a ha
  rw [← hs] at hmem
  have hshape : Shape s := by
    rw [hs]; exact ⟨_, hinv.2.1, hinv.1.2.2⟩
  have hsync := (restart_sync id s hshape).1.2.2
  rw [hsync] at hmem
  obtain ⟨b, hb, hbe⟩ := List.mem_map.mp hmem
  have : b = a := by
    cases a; cases b
    simp only [entKV, encEntry, Prod.mk.injEq, List.cons.injEq] at hbe
    obtain ⟨h1, _, h2, h3, _⟩ := hbe
    subst h1; subst h2; subst h3; rfl
  rw [← this]; exact hb

/-- The same three facts for a node that is simply running (or was restarted any number of times):
    its memory equals what a restart would recover, and the obligations hold. -/
theorem running_node_matches_its_log_partial (id : Nat) (acts : List Act) (hacts : ∀ a ∈ acts, NoSnapAct a) :
    let σ := exec (initSys id) acts
    σ.node.term = (fromEntries σ.dur).term ∧ σ.node.votedFor = (fromEntries σ.dur).votedFor
      ∧ σ.node.log = (restart id (fromEntries σ.dur)).log
      ∧ σ.ghost.actedTerm ≤ σ.node.term
      ∧ (∀ a ∈ σ.ghost.acked, a ∈ σ.node.log) := by
  have hinv := inv_exec _ _ (inv_init id) hacts
  obtain ⟨hS, hwf, hsat⟩ := hinv
  have hshape : Shape (fromEntries (exec (initSys id) acts).dur) := ⟨_, hwf, hS.2.2⟩
  refine ⟨hS.1, hS.2.1, ?_, by rw [hS.1]; exact hsat.1, ?_⟩
  · simp only [restart, recoveredLog, hS.2.2]
    exact (filterMap_dec _).symm
  · intro a ha
    have hmem := hsat.2.2 a ha
    rw [hS.2.2] at hmem
    obtain ⟨b, hb, hbe⟩ := List.mem_map.mp hmem
    have : b = a := by
      cases a; cases b
      simp only [entKV, encEntry, Prod.mk.injEq, List.cons.injEq] at hbe
      obtain ⟨h1, _, h2, h3, _⟩ := hbe
      subst h1; subst h2; subst h3; rfl
    rw [← this]; exact hb

/-- **Corollary: no double vote across restarts.** Whatever the history — any handler calls, any
    number of crashes, each at any micro step (equivalently, by `byte_crash_refines_record_crash`, at
    any byte of the record being written) — the node never announces votes for two different
    candidates in one term. -/
theorem no_double_vote_across_restarts_partial (id : Nat) (acts : List Act) (hacts : ∀ a ∈ acts, NoSnapAct a)
    (t c1 c2 : Nat) (h1 : (t, c1) ∈ (exec (initSys id) acts).ghost.votes)
    (h2 : (t, c2) ∈ (exec (initSys id) acts).ghost.votes) : c1 = c2 := by
  have hf := votesFn_exec (initSys id) acts (inv_init id) (by intro v hv; simp [initSys] at hv) hacts
  exact hf (t, c1) h1 (t, c2) h2 rfl

/-- Full statement including `install_snapshot` events: kept as a definition, NOT proved — the code
    replaces the in-memory log by the snapshot's entries without logging them (raft.rs
    `install_snapshot_entries`), so entries acknowledged afterwards on top of the snapshot are not
    recoverable from the WAL.  `snapshot_install_not_durable_witness` below is the model-level witness;
    the harness probes the real node (stream `snapshot`). -/
def recovered_log_contains_acked_full : Prop :=
  ∀ (id : Nat) (acts : List Act),
    let σ := exec (initSys id) acts
    ∀ a ∈ σ.ghost.acked, a ∈ (restart id (fromEntries σ.dur)).log

/-- follower holds [1,2]; a snapshot with entries 1..4 is installed; the leader's next AppendEntries
    (prev = 4) is acknowledged with match_index 5; after a restart entries 3 and 4 are gone. -/
theorem snapshot_install_not_durable_witness : ¬ recovered_log_contains_acked_full := by
  intro hall
  have := hall 0
    [.ev (.appendEntries 1 1 0 0 [(1, 10), (1, 11)]),
     .ev (.installSnapshot 4 1 [(1, 10), (1, 11), (1, 12), (1, 13)]),
     .ev (.appendEntries 1 1 4 1 [(1, 14)])]
    ⟨3, 1, 12⟩ (by decide)
  revert this
  decide

/-- **Pre-fix `open` (append position = physical end of file).** A record torn by a crash, then a
    restart that appends an acknowledged record behind the torn bytes: the next replay stops with a
    checksum error and returns nothing — the acknowledged record is lost.  With the repaired `open`
    the same bytes replay to exactly the acknowledged record. -/
def wcrc (p : List Nat) : Nat := p.sum + 1

theorem append_after_torn_tail_witness :
    parse wcrc (fun _ => true) (openOld ((encodeAll wcrc [[9]]).take 8) ++ encodeAll wcrc [[7]]) = ([], .badCrc)
    ∧ parse wcrc (fun _ => true) (openRepair ((encodeAll wcrc [[9]]).take 8) ++ encodeAll wcrc [[7]]) = ([[7]], .clean) := by
  constructor
  · rw [parse]; simp [openOld, encodeAll, encodeRec, le32, de32, wcrc]
  · have := reopen_append_replay wcrc (fun _ => true) [[9]] [[7]] 8
      (by simp [GoodRec, wcrc, U32]) (by simp [GoodRec, wcrc, U32])
    simpa [wholeWithin, encodeRec, le32] using this

/-! ### non-vacuity: the hypotheses are satisfiable by non-trivial executions -/

/-- a concrete history with an election, a granted vote, appends, a conflict truncation, a proposal and
    two crashes (one in the middle of a handler) satisfies `NoSnapAct` and produces obligations -/
def demoActs : List Act :=
  [.ev (.requestVote 1 2 0 0),
   .ev (.appendEntries 1 2 0 0 [(1, 10), (1, 11), (1, 12)]),
   .crash (.appendEntries 2 3 1 1 [(2, 20), (2, 21)]) 2,
   .ev (.appendEntries 2 3 1 1 [(2, 20), (2, 21)]),
   .ev .startElection, .ev .becomeLeader, .ev (.propose 30),
   .crash (.requestVote 9 4 9 9) 1]

example : ∀ a ∈ demoActs, NoSnapAct a := by
  intro a ha
  simp only [demoActs, List.mem_cons, List.mem_nil_iff, or_false] at ha
  rcases ha with rfl | rfl | rfl | rfl | rfl | rfl | rfl | rfl <;> simp [NoSnapAct, NoSnap]
example : (exec (initSys 0) demoActs).ghost.votes = [(3, 0), (1, 2)] := by decide
/-- the vote of term 1 really is re-requested by another candidate after the restart and refused -/
example : (step (exec (initSys 0) [.ev (.requestVote 1 2 0 0), .crash (.requestVote 1 2 0 0) 0]).node
    (.requestVote 1 3 5 5)).reply = .vote 1 false := by decide
example : (exec (initSys 0) demoActs).ghost.acked.length = 5 := by decide
example : (exec (initSys 0) demoActs).node.term = 9 ∧ (exec (initSys 0) demoActs).node.votedFor = none := by decide
example : (exec (initSys 0) demoActs).node.log = [⟨1, 1, 10⟩, ⟨2, 2, 20⟩, ⟨3, 2, 21⟩, ⟨4, 3, 30⟩] := by decide
/-- `GoodSer` is satisfiable: a toy injective serializer -/
def toySer : WalEntry → List Nat
  | .termChange t => [0, t]
  | .voteCast t c => [1, t, c]
  | .termAndVote t none => [2, t]
  | .termAndVote t (some c) => [3, t, c]
  | .logAppend i t => [4, i, t]
  | .logTruncate f => [5, f]
  | .snapshotTaken i t => [6, i, t]
  | .logEntryFull i t d => 7 :: i :: t :: d
def toyDeser : List Nat → Option WalEntry
  | [0, t] => some (.termChange t)
  | [1, t, c] => some (.voteCast t c)
  | [2, t] => some (.termAndVote t none)
  | [3, t, c] => some (.termAndVote t (some c))
  | [4, i, t] => some (.logAppend i t)
  | [5, f] => some (.logTruncate f)
  | [6, i, t] => some (.snapshotTaken i t)
  | 7 :: i :: t :: d => some (.logEntryFull i t d)
  | _ => none
example : ∀ r, toyDeser (toySer r) = some r := by
  intro r; cases r <;> try rfl
  case termAndVote t v => cases v <;> rfl

end Neumann.RaftWal.Props
